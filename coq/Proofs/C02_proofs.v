(* C02: joins never multiply a metric -- plain aggregates on safe slots, symmetric aggregates on the fanned-out base model. *)
From Coq Require Import ZArith String List Bool Lia PeanoNat Permutation.
Require Import V.Model.Sem V.Model.Single V.Model.Mult V.Model.Join V.Proofs.Mult_proofs V.Proofs.C01_proofs.
Import ListNotations.
Open Scope nat_scope.

(* ---------- multiplicity <= 1 makes the plain aggregate see every connected row exactly once ---------- *)
Lemma count_occ_somes s g r : count_occ Nat.eq_dec (somes (map (slot s) g)) r = mult g s r.
Proof.
  unfold mult, count, somes. induction g as [|w g IH]; [reflexivity|].
  cbn [map flat_map filter]. rewrite count_occ_app, IH. unfold has.
  destruct (slot s w) as [x|]; cbn [count_occ].
  - destruct (Nat.eq_dec x r) as [->|Hne].
    + rewrite Nat.eqb_refl. cbn. lia.
    + destruct (Nat.eqb_spec x r); [contradiction|]. cbn. lia.
  - reflexivity.
Qed.

Lemma mult_filter (p : wrow -> bool) J s r : mult (filter p J) s r <= mult J s r.
Proof.
  unfold mult, count. induction J as [|w J IH]; [cbn; lia|]. cbn [filter].
  destruct (p w); cbn [filter]; destruct (has s r w); cbn [length]; lia.
Qed.

Lemma somes_nodup s g : (forall r, mult g s r <= 1) -> NoDup (somes (map (slot s) g)).
Proof. intros H. apply (NoDup_count_occ Nat.eq_dec). intros r. rewrite count_occ_somes. apply H. Qed.

Lemma non_null_app a b : non_null (a ++ b) = non_null a ++ non_null b.
Proof. unfold non_null. apply filter_app. Qed.

(* the plain aggregate input and the per-index values agree up to NULLs *)
Lemma non_null_somes (sl : wrow -> option nat) (f : nat -> val) g :
  non_null (map (fun w => match sl w with Some i => f i | None => VNull end) g) = non_null (map f (somes (map sl g))).
Proof.
  induction g as [|w g IH]; [reflexivity|]. cbn [map somes flat_map]. fold (somes (map sl g)).
  destruct (sl w) as [i|]; cbn [app map].
  - unfold non_null in *. cbn [filter]. destruct (is_null (f i)); cbn [negb]; [exact IH|f_equal; exact IH].
  - unfold non_null in *. cbn [filter is_null negb]. exact IH.
Qed.

Lemma plain_values tables m g :
  non_null (map (raw_val tables m) g) =
  non_null (map (fun i => match nth_error (nth (jm_slot m) tables []) i with Some r => raw_col (jm_pk m) (jm_measure m) r | None => VNull end)
                (somes (map (slot (jm_slot m)) g))).
Proof.
  rewrite <- non_null_somes. f_equal. apply map_ext. intros w. unfold raw_val, row_of.
  destruct (slot (jm_slot m) w); reflexivity.
Qed.

Theorem plain_safe tables m g :
  (forall r, mult g (jm_slot m) r <= 1) ->
  apply_agg (ms_agg (jm_measure m)) (map (raw_val tables m) g) = spec_metric_join tables m g.
Proof.
  intros H. unfold spec_metric_join, connected_rows.
  rewrite (nodup_fixed_point Nat.eq_dec (somes_nodup _ _ H)).
  apply apply_agg_non_null. apply plain_values.
Qed.

(* every group of the query is a sub-bag of the wide rows, so a safe slot stays safe inside each group *)
Lemma group_mult {A} (kf : wrow -> A) (eqb : A -> A -> bool) J s k : (forall r, mult J s r <= 1) ->
  forall r, mult (filter (fun w => eqb (kf w) k) J) s r <= 1.
Proof. intros H r. etransitivity; [apply mult_filter|apply H]. Qed.

(* ---------- the steps built from concrete tables satisfy step_ok when the declared cardinalities hold in the data ---------- *)
Definition keys_unique (cols : list nat) (rows : list row) : Prop :=
  forall i j ri rj, nth_error rows i = Some ri -> nth_error rows j = Some rj ->
    keys_match (keyvals cols ri) (keyvals cols rj) = true -> i = j.

Lemma find_indices_spec {A} (p : A -> bool) l i0 x :
  In x (find_indices p l i0) <-> exists a, nth_error l (x - i0) = Some a /\ p a = true /\ i0 <= x.
Proof.
  revert i0. induction l as [|y l IH]; intros i0; cbn [find_indices].
  - split; [intros []|]. intros (a & H & _). destruct (x - i0); discriminate.
  - rewrite in_app_iff, IH. split.
    + intros [H|(a & H1 & H2 & H3)].
      * destruct (p y) eqn:E; [|destruct H]. destruct H as [<-|[]]. exists y. rewrite Nat.sub_diag. cbn. auto.
      * exists a. replace (x - i0) with (S (x - S i0)) by lia. cbn. repeat split; auto; lia.
    + intros (a & H1 & H2 & H3). destruct (Nat.eq_dec x i0) as [->|Hne].
      * rewrite Nat.sub_diag in H1. cbn in H1. injection H1 as ->. rewrite H2. left. left. reflexivity.
      * right. exists a. replace (x - i0) with (S (x - S i0)) in H1 by lia. cbn in H1. repeat split; auto; lia.
Qed.

Lemma find_indices_NoDup {A} (p : A -> bool) l i0 : NoDup (find_indices p l i0).
Proof.
  revert i0. induction l as [|y l IH]; intros i0; cbn [find_indices]; [constructor|].
  destruct (p y); cbn [app]; [constructor; [|apply IH]|apply IH].
  intros H. apply find_indices_spec in H. destruct H as (_ & _ & _ & H). lia.
Qed.

Lemma keys_match_sym a b : keys_match a b = true -> keys_match b a = true.
Proof.
  revert b. induction a as [|x a IH]; intros [|y b]; cbn; try discriminate; auto.
  intros H. apply andb_true_iff in H. destruct H as [H H3]. apply andb_true_iff in H. destruct H as [H1 H2].
  unfold val_eqb in *. destruct (val_eq_dec x y) as [->|]; [|discriminate].
  destruct (val_eq_dec y y); [|congruence]. rewrite H1, (IH _ H3). reflexivity.
Qed.
Lemma keys_match_trans a b c : keys_match a b = true -> keys_match b c = true -> keys_match a c = true.
Proof.
  revert b c. induction a as [|x a IH]; intros [|y b] [|z c]; cbn; try discriminate; auto.
  intros H1 H2. apply andb_true_iff in H1. destruct H1 as [H1 H13]. apply andb_true_iff in H1. destruct H1 as [H11 H12].
  apply andb_true_iff in H2. destruct H2 as [H2 H23]. apply andb_true_iff in H2. destruct H2 as [H21 H22].
  unfold val_eqb in *. destruct (val_eq_dec x y) as [->|]; [|discriminate]. destruct (val_eq_dec y z) as [->|]; [|discriminate].
  destruct (val_eq_dec z z); [|congruence]. rewrite H11, (IH _ _ H13 H23). reflexivity.
Qed.

(* child key unique  =>  every parent row matches at most one child row *)
Lemma mk_step_to_one tables k st :
  keys_unique (js_to st) (nth (S k) tables []) -> to_one (mk_step tables k st).
Proof.
  intros Hu p. unfold mk_step. cbn [s_match]. destruct (nth_error (nth (js_parent st) tables []) p) as [pr|]; [|cbn; lia].
  set (l := find_indices _ _ 0).
  assert (Hnd : NoDup l) by apply find_indices_NoDup.
  destruct l as [|c1 [|c2 l']] eqn:El; cbn; try lia. exfalso.
  assert (H1 : In c1 (find_indices (fun cr => keys_match (keyvals (js_from st) pr) (keyvals (js_to st) cr)) (nth (S k) tables []) 0)) by (fold l; rewrite El; left; reflexivity).
  assert (H2 : In c2 (find_indices (fun cr => keys_match (keyvals (js_from st) pr) (keyvals (js_to st) cr)) (nth (S k) tables []) 0)) by (fold l; rewrite El; right; left; reflexivity).
  apply find_indices_spec in H1, H2. destruct H1 as (a1 & N1 & M1 & _), H2 as (a2 & N2 & M2 & _). rewrite Nat.sub_0_r in N1, N2.
  assert (c1 = c2) by (eapply Hu; eauto; eapply keys_match_trans; [apply keys_match_sym; exact M1|exact M2]).
  subst. inversion Hnd as [|? ? Hn _]. apply Hn. left. reflexivity.
Qed.

(* parent key unique  =>  every child row has at most one parent, found by s_pof *)
Lemma mk_step_to_many tables k st :
  keys_unique (js_from st) (nth (js_parent st) tables []) -> to_many_ok (mk_step tables k st).
Proof.
  intros Hu. split.
  - intros p. unfold mk_step. cbn [s_match]. destruct (nth_error _ p); [apply find_indices_NoDup|constructor].
  - intros p c. unfold mk_step. cbn [s_match s_pof]. split.
    + destruct (nth_error (nth (js_parent st) tables []) p) as [pr|] eqn:Ep; [|intros []].
      intros H. apply find_indices_spec in H. destruct H as (cr & Nc & Mc & _). rewrite Nat.sub_0_r in Nc. rewrite Nc.
      destruct (find_indices (fun pr0 => keys_match (keyvals (js_from st) pr0) (keyvals (js_to st) cr)) (nth (js_parent st) tables []) 0) as [|p0 l] eqn:El.
      * exfalso. assert (In p (find_indices (fun pr0 => keys_match (keyvals (js_from st) pr0) (keyvals (js_to st) cr)) (nth (js_parent st) tables []) 0)) as Hin.
        { apply find_indices_spec. exists pr. rewrite Nat.sub_0_r. repeat split; auto; lia. }
        rewrite El in Hin. destruct Hin.
      * cbn. f_equal.
        assert (In p0 (find_indices (fun pr0 => keys_match (keyvals (js_from st) pr0) (keyvals (js_to st) cr)) (nth (js_parent st) tables []) 0)) as Hin by (rewrite El; left; reflexivity).
        apply find_indices_spec in Hin. destruct Hin as (pr0 & N0 & M0 & _). rewrite Nat.sub_0_r in N0.
        eapply Hu; eauto. eapply keys_match_trans; [exact M0|apply keys_match_sym; exact Mc].
    + destruct (nth_error (nth (S k) tables []) c) as [cr|] eqn:Ec; [|discriminate].
      intros H. destruct (find_indices (fun pr0 => keys_match (keyvals (js_from st) pr0) (keyvals (js_to st) cr)) (nth (js_parent st) tables []) 0) as [|p0 l] eqn:El; [discriminate|].
      cbn in H. injection H as ->.
      assert (In p (find_indices (fun pr0 => keys_match (keyvals (js_from st) pr0) (keyvals (js_to st) cr)) (nth (js_parent st) tables []) 0)) as Hin by (rewrite El; left; reflexivity).
      apply find_indices_spec in Hin. destruct Hin as (pr & Np & Mp & _). rewrite Nat.sub_0_r in Np. rewrite Np.
      apply find_indices_spec. exists cr. rewrite Nat.sub_0_r. repeat split; auto; lia.
Qed.

(* declared cardinalities are truthful in the data *)
Fixpoint card_truthful (tables : list (list row)) (k : nat) (sts : list jstep) : Prop :=
  match sts with
  | [] => True
  | st :: r =>
      js_parent st <= k /\
      match js_kind st with
      | ToOne => keys_unique (js_to st) (nth (S k) tables [])
      | ToMany => keys_unique (js_from st) (nth (js_parent st) tables [])
      | OneOne => keys_unique (js_to st) (nth (S k) tables []) /\ keys_unique (js_from st) (nth (js_parent st) tables [])
      end /\ card_truthful tables (S k) r
  end.

Lemma steps_ok tables sts : forall k, card_truthful tables k sts ->
  (fix ok (ss : list (kind * step)) (n : nat) : Prop :=
     match ss with [] => True | (kd, st) :: r => step_ok kd st /\ s_parent st < n /\ ok r (S n) end) (mk_steps tables k sts) (S k).
Proof.
  induction sts as [|st r IH]; intros k H; cbn [mk_steps]; [exact I|].
  destruct H as (Hp & Hk & Hr). split; [|split].
  - destruct (js_kind st); cbn [step_ok].
    + apply mk_step_to_one. exact Hk.
    + apply mk_step_to_many. exact Hk.
    + destruct Hk. split; [apply mk_step_to_one|apply mk_step_to_many]; assumption.
  - cbn. lia.
  - apply IH. exact Hr.
Qed.

Lemma base_inv tables : inv (base_wide tables) [true] 1.
Proof.
  unfold inv, base_wide. split; [reflexivity|]. split.
  - intros w Hw. apply in_map_iff in Hw. destruct Hw as (i & <- & _). reflexivity.
  - intros s Hs r. destruct s as [|s]; [|destruct s; discriminate].
    unfold mult, count.
    assert (forall l, NoDup l -> length (filter (has 0 r) (map (fun i => [Some i]) l)) <= 1) as G.
    { induction l as [|x l IHl]; intros Hnd; [cbn; lia|]. inversion Hnd as [|? ? Hx Hnd']; subst. cbn [map filter].
      unfold has at 1, slot. cbn [nth]. destruct (Nat.eqb_spec x r) as [->|].
      - cbn [length]. assert (filter (has 0 r) (map (fun i => [Some i]) l) = []) as ->; [|cbn; lia].
        clear -Hx. induction l as [|y l IHl]; [reflexivity|]. cbn [map filter]. unfold has at 1, slot. cbn [nth].
        destruct (Nat.eqb_spec y r) as [->|]; [exfalso; apply Hx; left; reflexivity|]. apply IHl. intros H; apply Hx; right; exact H.
      - apply IHl, Hnd'. }
    apply G, seq_NoDup.
Qed.

(* C02 core for whole queries: a slot flagged safe has multiplicity <= 1 in the final wide-row bag, for ANY list of steps *)
Theorem safe_slot_mult tables sts : card_truthful tables 0 sts ->
  let '(J, safe) := wide_rows tables sts in forall s, nth s safe false = true -> forall r, mult J s r <= 1.
Proof.
  intros H. unfold wide_rows. apply (safe_mult (mk_steps tables 0 sts) (base_wide tables) [true] 1 (base_inv tables)).
  apply steps_ok. exact H.
Qed.

(* every metric computed with the plain aggregate on a safe slot equals the reference value, in every group *)
Theorem plain_metric_correct h q m k g : card_truthful (jq_tables q) 0 (jq_steps q) ->
  jm_sym m = false -> metric_safe q m = true ->
  In (k, g) (if Nat.eqb (length (jq_dims q)) 0 then [([], fst (wide_rows (jq_tables q) (jq_steps q)))]
             else groups (fun w => map (fun d => dim_val (jq_tables q) d w) (jq_dims q)) (fst (wide_rows (jq_tables q) (jq_steps q)))) ->
  metric_val h (jq_tables q) m g = Some (spec_metric_join (jq_tables q) m g).
Proof.
  intros Hc Hs Hsafe Hin. unfold metric_val. rewrite Hs. f_equal. apply plain_safe.
  pose proof (safe_slot_mult (jq_tables q) (jq_steps q) Hc) as HM. unfold metric_safe in Hsafe.
  destruct (wide_rows (jq_tables q) (jq_steps q)) as [J safe]. cbn [fst snd] in *.
  specialize (HM _ Hsafe).
  destruct (Nat.eqb (length (jq_dims q)) 0).
  - destruct Hin as [E|[]]. injection E as _ <-. exact HM.
  - unfold groups in Hin. apply in_map_iff in Hin. destruct Hin as (k0 & E & _). injection E as _ <-.
    intros r. etransitivity; [apply mult_filter|apply HM].
Qed.

(* ---------- symmetric aggregates: SUM(DISTINCT h(pk)*M + v) - SUM(DISTINCT h(pk)*M) sums every connected row once ---------- *)
Lemma nodup_map_inj {A B} (da : forall x y : A, {x = y} + {x <> y}) (db : forall x y : B, {x = y} + {x <> y}) (f : A -> B) l :
  (forall x y, In x l -> In y l -> f x = f y -> x = y) -> nodup db (map f l) = map f (nodup da l).
Proof.
  induction l as [|a l IH]; intros Hinj; [reflexivity|]. cbn [map nodup].
  assert (Hl : forall x y, In x l -> In y l -> f x = f y -> x = y) by (intros; apply Hinj; auto; right; assumption).
  destruct (in_dec da a l) as [Hin|Hnin].
  - destruct (in_dec db (f a) (map f l)) as [_|Hn]; [apply IH, Hl|exfalso; apply Hn, in_map, Hin].
  - destruct (in_dec db (f a) (map f l)) as [Hi|_].
    + exfalso. apply in_map_iff in Hi. destruct Hi as (x & E & Hx). apply Hnin.
      assert (x = a) by (apply Hinj; auto; [right; assumption|left; reflexivity]). subst. exact Hx.
    + cbn [map]. f_equal. apply IH, Hl.
Qed.

Lemma match_nodup {A B} (d : forall x y : nat, {x = y} + {x <> y}) (f : nat -> A) (x : B) (l : list nat) :
  match map f l with [] => None | _ => Some x end = match nodup d l with [] => None | _ => Some x end.
Proof.
  destruct l as [|a l]; [reflexivity|]. cbn [map].
  destruct (nodup d (a :: l)) eqn:E; [|reflexivity].
  exfalso. assert (In a (nodup d (a :: l))) as H by (apply nodup_In; left; reflexivity). rewrite E in H. destruct H.
Qed.

Definition sym_ok (h : val -> Z) (T : list row) (pk : list nat) (ms : measure) : Prop :=
  (forall i r, nth_error T i = Some r -> pk_value pk r <> VNull /\ exists z, raw_col pk ms r = VInt z /\ (Z.abs z * 2 < HM)%Z) /\
  (forall i j ri rj, nth_error T i = Some ri -> nth_error T j = Some rj -> h (pk_value pk ri) = h (pk_value pk rj) -> i = j).

Section Sym.
Variable h : val -> Z.
Variable tables : list (list row).
Variable m : jmetric.
Variable g : list wrow.
Let s := jm_slot m.
Let T := nth s tables [].
Let I := somes (map (slot s) g).
Hypothesis Hok : sym_ok h T (jm_pk m) (jm_measure m).
Hypothesis Hvalid : forall i, In i I -> i < length T.

Definition Pv (i : nat) : val := match nth_error T i with Some r => pk_value (jm_pk m) r | None => VNull end.
Definition Zv (i : nat) : Z := match nth_error T i with Some r => match raw_col (jm_pk m) (jm_measure m) r with VInt z => z | _ => 0%Z end | None => 0%Z end.
Definition valf (i : nat) : val := match nth_error T i with Some r => raw_col (jm_pk m) (jm_measure m) r | None => VNull end.

Lemma valid_row i : In i I -> exists r, nth_error T i = Some r.
Proof. intros Hi. destruct (nth_error T i) eqn:E; [eauto|]. apply nth_error_None in E. specialize (Hvalid i Hi). lia. Qed.
Lemma valf_int i : In i I -> valf i = VInt (Zv i) /\ Pv i <> VNull /\ (Z.abs (Zv i) * 2 < HM)%Z.
Proof.
  intros Hi. destruct (valid_row i Hi) as [r Hr]. unfold valf, Zv, Pv. rewrite Hr.
  destruct Hok as [H1 _]. destruct (H1 i r Hr) as (Hn & z & Hz & Hb). rewrite Hz. auto.
Qed.
Lemma h_inj i j : In i I -> In j I -> h (Pv i) = h (Pv j) -> i = j.
Proof.
  intros Hi Hj. destruct (valid_row i Hi) as [ri Hri], (valid_row j Hj) as [rj Hrj]. unfold Pv. rewrite Hri, Hrj.
  destruct Hok as [_ H2]. eauto.
Qed.

(* the (pk, value) pairs the symmetric aggregate sees *)
Definition pairs : list (val * val) := map (fun w => (pk_val tables m w, raw_val tables m w)) g.

Lemma pairs_t1 :
  flat_map (fun '(p, v) => match p, v with VNull, _ => [] | _, VInt z => [(h p * HM + z)%Z] | _, _ => [] end) pairs
  = map (fun i => (h (Pv i) * HM + Zv i)%Z) I.
Proof.
  unfold pairs, I.
  assert (forall g0, (forall i, In i (somes (map (slot s) g0)) -> valf i = VInt (Zv i) /\ Pv i <> VNull) ->
    flat_map (fun '(p, v) => match p, v with VNull, _ => [] | _, VInt z => [(h p * HM + z)%Z] | _, _ => [] end)
             (map (fun w => (pk_val tables m w, raw_val tables m w)) g0) = map (fun i => (h (Pv i) * HM + Zv i)%Z) (somes (map (slot s) g0))) as G.
  { induction g0 as [|w g0 IH]; intros Hg; [reflexivity|]. cbn [map flat_map somes]. fold (somes (map (slot s) g0)).
    rewrite map_app, IH by (intros i Hi; apply Hg; cbn [map somes flat_map]; apply in_or_app; right; exact Hi).
    f_equal.
    assert (Epk : pk_val tables m w = match slot s w with Some i => Pv i | None => VNull end).
    { unfold pk_val, row_of, Pv. fold s. fold T. destruct (slot s w); reflexivity. }
    assert (Eraw : raw_val tables m w = match slot s w with Some i => valf i | None => VNull end).
    { unfold raw_val, row_of, valf. fold s. fold T. destruct (slot s w); reflexivity. }
    rewrite Epk, Eraw. destruct (slot s w) as [i|] eqn:Es; [|reflexivity].
    destruct (Hg i) as (Hv & Hp). { cbn [map somes flat_map]. rewrite Es. left. reflexivity. }
    rewrite Hv. cbn [somes flat_map map app]. destruct (Pv i); try congruence; reflexivity. }
  apply G. intros i Hi. destruct (valf_int i) as (A & B & _); auto.
Qed.

Lemma pairs_t2 :
  flat_map (fun '(p, v) => match p with VNull => [] | _ => [(h p * HM)%Z] end) pairs = map (fun i => (h (Pv i) * HM)%Z) I.
Proof.
  unfold pairs, I.
  assert (forall g0, (forall i, In i (somes (map (slot s) g0)) -> Pv i <> VNull) ->
    flat_map (fun '(p, v) => match p with VNull => [] | _ => [(h p * HM)%Z] end)
             (map (fun w => (pk_val tables m w, raw_val tables m w)) g0) = map (fun i => (h (Pv i) * HM)%Z) (somes (map (slot s) g0))) as G.
  { induction g0 as [|w g0 IH]; intros Hg; [reflexivity|]. cbn [map flat_map somes]. fold (somes (map (slot s) g0)).
    rewrite map_app, IH by (intros i Hi; apply Hg; cbn [map somes flat_map]; apply in_or_app; right; exact Hi).
    f_equal.
    assert (Epk : pk_val tables m w = match slot s w with Some i => Pv i | None => VNull end).
    { unfold pk_val, row_of, Pv. fold s. fold T. destruct (slot s w); reflexivity. }
    rewrite Epk. destruct (slot s w) as [i|] eqn:Es; [|reflexivity].
    assert (Hp : Pv i <> VNull). { apply Hg. cbn [map somes flat_map]. rewrite Es. left. reflexivity. }
    cbn [somes flat_map map app]. destruct (Pv i); try congruence; reflexivity. }
  apply G. intros i Hi. destruct (valf_int i) as (_ & B & _); auto.
Qed.

Lemma pairs_pks : non_null (map fst pairs) = map Pv I.
Proof.
  unfold pairs, I. rewrite map_map. cbn [fst].
  assert (forall g0, (forall i, In i (somes (map (slot s) g0)) -> Pv i <> VNull) ->
    non_null (map (fun w => pk_val tables m w) g0) = map Pv (somes (map (slot s) g0))) as G.
  { induction g0 as [|w g0 IH]; intros Hg; [reflexivity|]. cbn [map somes flat_map]. fold (somes (map (slot s) g0)).
    rewrite map_app. unfold non_null in *. cbn [filter].
    assert (Epk : pk_val tables m w = match slot s w with Some i => Pv i | None => VNull end).
    { unfold pk_val, row_of, Pv. fold s. fold T. destruct (slot s w); reflexivity. }
    rewrite Epk. destruct (slot s w) as [i|] eqn:Es.
    - assert (Hp : Pv i <> VNull). { apply Hg. cbn [map somes flat_map]. rewrite Es. left. reflexivity. }
      assert (Hn : is_null (Pv i) = false) by (destruct (Pv i) eqn:E; cbn; congruence).
      rewrite Hn. cbn [negb map app]. f_equal.
      apply IH; intros j Hj; apply Hg; cbn [map somes flat_map]; rewrite Es; right; exact Hj.
    - cbn [is_null negb map app]. apply IH. intros j Hj. apply Hg. cbn [map somes flat_map]. rewrite Es. exact Hj. }
  apply G. intros i Hi. destruct (valf_int i) as (_ & B & _); auto.
Qed.

Lemma pairs_vals : non_null (map snd pairs) = non_null (map valf I).
Proof.
  unfold pairs, I. rewrite map_map. cbn [snd]. rewrite <- non_null_somes. f_equal. apply map_ext. intros w.
  unfold raw_val, row_of, valf. fold s. fold T. destruct (slot s w); reflexivity.
Qed.

Let D := nodup Nat.eq_dec I.
Lemma D_in i : In i D <-> In i I. Proof. apply nodup_In. Qed.

Lemma f1_inj i j : In i I -> In j I -> (h (Pv i) * HM + Zv i = h (Pv j) * HM + Zv j)%Z -> i = j.
Proof.
  intros Hi Hj E. apply h_inj; auto.
  destruct (valf_int i Hi) as (_ & _ & Bi), (valf_int j Hj) as (_ & _ & Bj). unfold HM in *. lia.
Qed.
Lemma f2_inj i j : In i I -> In j I -> (h (Pv i) * HM = h (Pv j) * HM)%Z -> i = j.
Proof. intros Hi Hj E. apply h_inj; auto. unfold HM in E. lia. Qed.

Lemma zsum_diff l : (zsum (map (fun i => h (Pv i) * HM + Zv i) l) - zsum (map (fun i => h (Pv i) * HM) l) = zsum (map Zv l))%Z.
Proof. induction l as [|x l IH]; cbn [map zsum fold_right]; [reflexivity|]. unfold zsum in *. cbn [fold_right]. lia. Qed.

Lemma sym_sum_eq : sym_sum_z h pairs = match D with [] => None | _ => Some (zsum (map Zv D)) end.
Proof.
  unfold sym_sum_z. rewrite pairs_t1, pairs_t2. unfold nodup_z.
  rewrite (nodup_map_inj Nat.eq_dec Z.eq_dec _ I f1_inj), (nodup_map_inj Nat.eq_dec Z.eq_dec _ I f2_inj). fold D.
  rewrite zsum_diff. unfold D. apply match_nodup.
Qed.

Lemma vals_D : map valf D = map (fun i => VInt (Zv i)) D.
Proof. apply map_ext_in. intros i Hi. apply D_in in Hi. destruct (valf_int i Hi) as (A & _). exact A. Qed.
Lemma non_null_ints l : non_null (map (fun i => VInt (Zv i)) l) = map (fun i => VInt (Zv i)) l.
Proof. unfold non_null. induction l; cbn; [reflexivity|f_equal; assumption]. Qed.
Lemma ints_map l : ints (map (fun i => VInt (Zv i)) l) = map Zv l.
Proof. unfold ints. induction l; cbn; [reflexivity|f_equal; assumption]. Qed.

Lemma spec_as_D : spec_metric_join tables m g = apply_agg (ms_agg (jm_measure m)) (map (fun i => VInt (Zv i)) D).
Proof. unfold spec_metric_join, connected_rows. fold s. fold I. fold D. fold T. fold valf. rewrite vals_D. reflexivity. Qed.

(* distinct primary keys of the pairs = one per connected row *)
Lemma pk_count : length (nodup_vals (non_null (map fst pairs))) = length D.
Proof.
  rewrite pairs_pks. unfold nodup_vals.
  rewrite (nodup_map_inj Nat.eq_dec val_eq_dec Pv I). { fold D. apply map_length. }
  intros i j Hi Hj E. apply h_inj; auto. rewrite E. reflexivity.
Qed.

Theorem sym_sum_correct : ms_agg (jm_measure m) = ASum -> sym_agg h ASum pairs = Some (spec_metric_join tables m g).
Proof.
  intros Ha. rewrite spec_as_D, Ha. unfold sym_agg, apply_agg. rewrite sym_sum_eq, non_null_ints, ints_map.
  destruct D; reflexivity.
Qed.
Theorem sym_avg_correct : ms_agg (jm_measure m) = AAvg -> sym_agg h AAvg pairs = Some (spec_metric_join tables m g).
Proof.
  intros Ha. rewrite spec_as_D, Ha. unfold sym_agg, apply_agg. rewrite sym_sum_eq, non_null_ints, ints_map, pk_count, map_length.
  destruct D; reflexivity.
Qed.
Theorem sym_count_correct : ms_agg (jm_measure m) = ACount -> sym_agg h ACount pairs = Some (spec_metric_join tables m g).
Proof.
  intros Ha. rewrite spec_as_D, Ha. unfold sym_agg, apply_agg. rewrite pk_count, non_null_ints, map_length. reflexivity.
Qed.
End Sym.

(* ---------- COUNT DISTINCT / MIN / MAX are insensitive to fan-out: they only depend on the SET of input values ---------- *)
Definition same_set {A} (l1 l2 : list A) : Prop := forall x, In x l1 <-> In x l2.

Lemma nodup_length_same_set (l1 l2 : list val) : same_set l1 l2 -> length (nodup_vals l1) = length (nodup_vals l2).
Proof.
  intros H. unfold nodup_vals. apply Permutation_length. apply NoDup_Permutation; try apply NoDup_nodup.
  intros x. rewrite !nodup_In. apply H.
Qed.

Lemma fold_min_spec z zs : let m := fold_right Z.min z zs in In m (z :: zs) /\ forall x, In x (z :: zs) -> (m <= x)%Z.
Proof.
  induction zs as [|y zs IH]; cbn [fold_right].
  - split; [left; reflexivity|]. intros x [<-|[]]. lia.
  - destruct IH as [Hin Hle]. set (m := fold_right Z.min z zs) in *. split.
    + destruct (Z.min_spec y m) as [[_ ->]|[_ ->]]; [right; left; reflexivity|].
      destruct Hin as [<-|Hin]; [left; reflexivity|right; right; exact Hin].
    + intros x [<-|[<-|Hx]]; [specialize (Hle z (or_introl eq_refl)); lia | lia | specialize (Hle x (or_intror Hx)); lia].
Qed.
Lemma fold_max_spec z zs : let m := fold_right Z.max z zs in In m (z :: zs) /\ forall x, In x (z :: zs) -> (x <= m)%Z.
Proof.
  induction zs as [|y zs IH]; cbn [fold_right].
  - split; [left; reflexivity|]. intros x [<-|[]]. lia.
  - destruct IH as [Hin Hle]. set (m := fold_right Z.max z zs) in *. split.
    + destruct (Z.max_spec y m) as [[_ ->]|[_ ->]]; [|right; left; reflexivity].
      destruct Hin as [<-|Hin]; [left; reflexivity|right; right; exact Hin].
    + intros x [<-|[<-|Hx]]; [specialize (Hle z (or_introl eq_refl)); lia | lia | specialize (Hle x (or_intror Hx)); lia].
Qed.

Lemma same_set_non_null l1 l2 : same_set l1 l2 -> same_set (non_null l1) (non_null l2).
Proof. intros H x. unfold non_null. rewrite !filter_In. specialize (H x). tauto. Qed.
Lemma same_set_ints l1 l2 : same_set l1 l2 -> same_set (ints l1) (ints l2).
Proof.
  intros H x. unfold ints. rewrite !in_flat_map. split; intros (v & Hv & Hx); exists v; (split; [apply H; exact Hv|exact Hx]).
Qed.

Theorem set_only_aggs a l1 l2 : a = ACountDistinct \/ a = AMin \/ a = AMax -> same_set l1 l2 -> apply_agg a l1 = apply_agg a l2.
Proof.
  intros Ha H. pose proof (same_set_non_null _ _ H) as Hn. pose proof (same_set_ints _ _ Hn) as Hi.
  destruct Ha as [ -> | [ -> | -> ] ]; unfold apply_agg.
  - rewrite (nodup_length_same_set _ _ Hn). reflexivity.
  - destruct (ints (non_null l1)) as [|z1 zs1] eqn:E1, (ints (non_null l2)) as [|z2 zs2] eqn:E2; try reflexivity.
    + exfalso. destruct (proj2 (Hi z2) (or_introl eq_refl)).
    + exfalso. destruct (proj1 (Hi z1) (or_introl eq_refl)).
    + destruct (fold_min_spec z1 zs1) as [I1 L1], (fold_min_spec z2 zs2) as [I2 L2].
      f_equal. f_equal. apply Z.le_antisymm; [apply L1, Hi, I2|apply L2, Hi, I1].
  - destruct (ints (non_null l1)) as [|z1 zs1] eqn:E1, (ints (non_null l2)) as [|z2 zs2] eqn:E2; try reflexivity.
    + exfalso. destruct (proj2 (Hi z2) (or_introl eq_refl)).
    + exfalso. destruct (proj1 (Hi z1) (or_introl eq_refl)).
    + destruct (fold_max_spec z1 zs1) as [I1 L1], (fold_max_spec z2 zs2) as [I2 L2].
      f_equal. f_equal. apply Z.le_antisymm; [apply L2, Hi, I1|apply L1, Hi, I2].
Qed.

(* the plain aggregate over a fanned-out group equals the reference value for these three aggregates, with NO assumption on multiplicities *)
Theorem fanout_insensitive tables m g : let a := ms_agg (jm_measure m) in
  a = ACountDistinct \/ a = AMin \/ a = AMax ->
  apply_agg a (map (raw_val tables m) g) = spec_metric_join tables m g.
Proof.
  intros a Ha. unfold spec_metric_join, connected_rows.
  set (f := fun i => match nth_error (nth (jm_slot m) tables []) i with Some r => raw_col (jm_pk m) (jm_measure m) r | None => VNull end).
  transitivity (apply_agg a (map f (somes (map (slot (jm_slot m)) g)))).
  - apply apply_agg_non_null. apply plain_values.
  - apply set_only_aggs; [exact Ha|]. intros x. rewrite !in_map_iff. split; intros (i & E & Hi); exists i; (split; [exact E|]); [apply nodup_In; exact Hi|apply nodup_In in Hi; exact Hi].
Qed.

(* ---------- every index stored in a wide row points into its slot's table ---------- *)
Definition wvalid (tables : list (list row)) (w : wrow) : Prop := forall s i, slot s w = Some i -> i < length (nth s tables []).

Lemma slot_snoc w x s : slot s (w ++ [x]) = if Nat.ltb s (length w) then slot s w else if Nat.eqb s (length w) then x else None.
Proof.
  unfold slot. destruct (Nat.ltb_spec s (length w)).
  - apply app_nth1. assumption.
  - rewrite app_nth2 by lia. destruct (Nat.eqb_spec s (length w)) as [->|Hne].
    + rewrite Nat.sub_diag. reflexivity.
    + destruct (s - length w) as [|n] eqn:E; [lia|]. cbn. destruct n; reflexivity.
Qed.

Lemma find_indices_lt {A} (p : A -> bool) l x : In x (find_indices p l 0) -> x < length l.
Proof. intros H. apply find_indices_spec in H. destruct H as (a & Hn & _). rewrite Nat.sub_0_r in Hn. apply nth_error_Some. congruence. Qed.

Lemma extend_valid tables k st w : wvalid tables w -> length w = S k -> forall w', In w' (extend (mk_step tables k st) w) -> wvalid tables w'.
Proof.
  intros Hv Hl w' Hin. unfold extend in Hin. cbn [s_parent s_match s_left mk_step] in Hin.
  assert (Hnone : wvalid tables (w ++ [None])).
  { intros s i. rewrite slot_snoc. destruct (Nat.ltb s (length w)); [apply Hv|]. destruct (Nat.eqb s (length w)); discriminate. }
  destruct (slot (js_parent st) w) as [p|].
  - destruct (nth_error (nth (js_parent st) tables []) p) as [pr|].
    + destruct (find_indices _ (nth (S k) tables []) 0) as [|c cs] eqn:E.
      * destruct (js_left st); [destruct Hin as [<-|[]]; exact Hnone|destruct Hin].
      * rewrite <- E in Hin. apply in_map_iff in Hin. destruct Hin as (c0 & <- & Hc0).
        intros s i. rewrite slot_snoc. destruct (Nat.ltb s (length w)); [apply Hv|].
        destruct (Nat.eqb_spec s (length w)) as [->|]; [|discriminate]. intros Hs. injection Hs as <-. rewrite Hl.
        eapply find_indices_lt. exact Hc0.
    + destruct (js_left st); [destruct Hin as [<-|[]]; exact Hnone|destruct Hin].
  - destruct (js_left st); [destruct Hin as [<-|[]]; exact Hnone|destruct Hin].
Qed.

Lemma run_valid tables sts : forall k J safe, (forall w, In w J -> wvalid tables w /\ length w = S k) ->
  forall w, In w (fst (run J safe (mk_steps tables k sts))) -> wvalid tables w.
Proof.
  induction sts as [|st r IH]; intros k J safe HJ w Hw; cbn [mk_steps run fst] in Hw; [apply HJ; exact Hw|].
  eapply (IH (S k)); [|exact Hw]. intros w1 Hw1. unfold join_step in Hw1. apply in_flat_map in Hw1. destruct Hw1 as (w0 & Hw0 & Hin).
  destruct (HJ w0 Hw0) as [Hv Hl]. split; [eapply extend_valid; eauto|].
  eapply (join_step_length (mk_step tables k st) J (S k)); [intros; apply HJ; assumption|].
  unfold join_step. apply in_flat_map. eauto.
Qed.

Theorem wide_valid tables sts w : In w (fst (wide_rows tables sts)) -> wvalid tables w.
Proof.
  unfold wide_rows. apply run_valid. intros w0 Hw0. unfold base_wide in Hw0. apply in_map_iff in Hw0. destruct Hw0 as (i & <- & Hi).
  split; [|reflexivity]. intros s j. unfold slot. destruct s as [|s]; cbn; [|destruct s; discriminate].
  intros E. injection E as <-. apply in_seq in Hi. lia.
Qed.

(* ---------- one statement per metric and group ---------- *)
Definition the_groups (q : jquery) : list (list val * list wrow) :=
  let J := fst (wide_rows (jq_tables q) (jq_steps q)) in
  if Nat.eqb (length (jq_dims q)) 0 then [([], J)] else groups (fun w => map (fun d => dim_val (jq_tables q) d w) (jq_dims q)) J.

Lemma group_sub q k g : In (k, g) (the_groups q) -> forall w, In w g -> In w (fst (wide_rows (jq_tables q) (jq_steps q))).
Proof.
  unfold the_groups. destruct (Nat.eqb (length (jq_dims q)) 0).
  - intros [E|[]]. injection E as _ <-. auto.
  - unfold groups. intros H. apply in_map_iff in H. destruct H as (k0 & E & _). injection E as _ <-. intros w Hw. apply filter_In in Hw. tauto.
Qed.

Theorem metric_correct h q m k g : card_truthful (jq_tables q) 0 (jq_steps q) -> In (k, g) (the_groups q) ->
  let a := ms_agg (jm_measure m) in
  (jm_sym m = false /\ metric_safe q m = true)
  \/ (a = ACountDistinct \/ a = AMin \/ a = AMax)
  \/ (jm_sym m = true /\ (a = ASum \/ a = AAvg \/ a = ACount) /\ sym_ok h (nth (jm_slot m) (jq_tables q) []) (jm_pk m) (jm_measure m)) ->
  metric_val h (jq_tables q) m g = Some (spec_metric_join (jq_tables q) m g).
Proof.
  intros Hc Hin a [[Hs Hsafe]|[Hset|(Hs & Ha & Hok)]].
  - eapply plain_metric_correct; eauto.
  - unfold metric_val. destruct (jm_sym m).
    + fold a. assert (sym_agg h a (map (fun w => (pk_val (jq_tables q) m w, raw_val (jq_tables q) m w)) g) =
                      Some (apply_agg a (map snd (map (fun w => (pk_val (jq_tables q) m w, raw_val (jq_tables q) m w)) g)))) as ->.
      { destruct Hset as [ -> | [ -> | -> ] ]; reflexivity. }
      rewrite map_map. cbn [snd]. f_equal. apply fanout_insensitive. exact Hset.
    + f_equal. apply fanout_insensitive. exact Hset.
  - unfold metric_val. rewrite Hs. fold a.
    assert (Hvalid : forall i, In i (somes (map (slot (jm_slot m)) g)) -> i < length (nth (jm_slot m) (jq_tables q) [])).
    { intros i Hi. unfold somes in Hi. apply in_flat_map in Hi. destruct Hi as (o & Ho & Hi). apply in_map_iff in Ho. destruct Ho as (w & <- & Hw).
      destruct (slot (jm_slot m) w) as [j|] eqn:E; [|destruct Hi]. destruct Hi as [<-|[]].
      eapply wide_valid; [eapply group_sub; eauto|exact E]. }
    destruct Ha as [Ha|[Ha|Ha]]; unfold a in *; rewrite Ha.
    + apply (sym_sum_correct h (jq_tables q) m g Hok Hvalid Ha).
    + apply (sym_avg_correct h (jq_tables q) m g Hok Hvalid Ha).
    + apply (sym_count_correct h (jq_tables q) m g Hok Hvalid Ha).
Qed.

(* ---------- refutation witnesses for the listed findings ---------- *)
Definition hid (v : val) : Z := match v with VInt z => z | _ => 0%Z end.
(* K1: customers (id, balance) <- orders (id, customer_id, status); base = orders (dimension orders.status), metric customers.total_balance *)
Definition k1_query : jquery :=
  {| jq_tables := [ [ [VInt 1; VInt 1; VStr "a"]; [VInt 2; VInt 1; VStr "a"]; [VInt 3; VInt 2; VStr "a"] ]%Z ;     (* orders: id, customer_id, status *)
                    [ [VInt 1; VInt 100]; [VInt 2; VInt 50] ]%Z ];                                                  (* customers: id, balance *)
     jq_steps := [ {| js_parent := 0; js_from := [1]; js_to := [0]; js_kind := ToOne; js_left := true |} ];
     jq_dims := [ {| jd_slot := 0; jd_expr := Col 2 |} ];
     jq_metrics := [ {| jm_slot := 1; jm_measure := {| ms_agg := ASum; ms_expr := Some (Col 1); ms_filters := [] |}; jm_pk := [0]; jm_sym := false |} ] |}.
Example k1_refuted : run_join hid k1_query = Some [([VStr "a"], [RVal (VInt 250)])] /\ spec_join k1_query = [([VStr "a"], [RVal (VInt 150)])]
                     /\ metric_safe k1_query (hd {| jm_slot := 0; jm_measure := cd_measure; jm_pk := []; jm_sym := false |} (jq_metrics k1_query)) = false.
Proof. repeat split; vm_compute; reflexivity. Qed.

(* K2: a NULL measure value under the symmetric SUM: customers (id, balance NULL for id 2) -> orders, base = customers *)
Definition k2_query : jquery :=
  {| jq_tables := [ [ [VInt 1; VInt 100]; [VInt 2; VNull] ]%Z ;
                    [ [VInt 1; VInt 1]; [VInt 2; VInt 1]; [VInt 3; VInt 2] ]%Z ];
     jq_steps := [ {| js_parent := 0; js_from := [0]; js_to := [1]; js_kind := ToMany; js_left := true |} ];
     jq_dims := [];
     jq_metrics := [ {| jm_slot := 0; jm_measure := {| ms_agg := ASum; ms_expr := Some (Col 1); ms_filters := [] |}; jm_pk := [0]; jm_sym := true |} ] |}.
Example k2_refuted : run_join hid k2_query <> Some (spec_join k2_query) /\ spec_join k2_query = [([], [RVal (VInt 100)])].
Proof. split; vm_compute; [discriminate|reflexivity]. Qed.

(* non-vacuity: the same data with the base model on the one side: symmetric SUM over a fan-out, hypotheses of metric_correct hold *)
Definition ok_query : jquery :=
  {| jq_tables := [ [ [VInt 1; VInt 100]; [VInt 2; VInt 50]; [VInt 3; VInt 7] ]%Z ;
                    [ [VInt 1; VInt 1; VStr "a"]; [VInt 2; VInt 1; VStr "b"]; [VInt 3; VInt 2; VStr "a"]; [VInt 4; VNull; VStr "a"] ]%Z ];
     jq_steps := [ {| js_parent := 0; js_from := [0]; js_to := [1]; js_kind := ToMany; js_left := true |} ];
     jq_dims := [ {| jd_slot := 1; jd_expr := Col 2 |} ];
     jq_metrics := [ {| jm_slot := 0; jm_measure := {| ms_agg := ASum; ms_expr := Some (Col 1); ms_filters := [] |}; jm_pk := [0]; jm_sym := true |};
                     {| jm_slot := 1; jm_measure := {| ms_agg := ACount; ms_expr := None; ms_filters := [] |}; jm_pk := [0]; jm_sym := false |} ] |}.
Example ok_example : run_join hid ok_query = Some (spec_join ok_query) /\
  spec_join ok_query = [([VStr "a"], [RVal (VInt 150); RVal (VInt 2)]); ([VStr "b"], [RVal (VInt 100); RVal (VInt 1)]); ([VNull], [RVal (VInt 7); RVal (VInt 0)])].
Proof. split; vm_compute; reflexivity. Qed.
