(* C18: refresh converges to the full rollup -- pointwise algebra of ++ / filter over bags, then induction over histories. *)
From Coq Require Import ZArith List Bool Lia.
Require Import V.Model.Refresh.
Import ListNotations.
Open Scope Z_scope.

Section RefreshProofs.
Variable tr : Z -> Z.
Notation key := (Z * Z)%type.
Notation bkey := (bkey tr). Notation at_b := (at_b tr). Notation bsum := (bsum tr). Notation bcnt := (bcnt tr).
Notation materialize := (materialize tr). Notation approx := (approx tr). Notation merge := (merge tr). Notation incremental := (incremental tr).
Notation step := (step tr). Notation run := (run tr).

Lemma key_eqb_spec (a b : key) : reflect (a = b) (key_eqb a b).
Proof. unfold key_eqb. destruct a as [z z0], b as [z1 z2]; cbn. destruct (Z.eqb_spec z z1), (Z.eqb_spec z0 z2); constructor; congruence. Qed.

Lemma first_occ_In ks k : In k (first_occ ks) <-> In k ks.
Proof.
  induction ks as [|a r IH]; cbn; [tauto|]. rewrite filter_In, IH. split.
  - intros [H|[H _]]; auto.
  - intros [H|H]; [auto|]. destruct (key_eqb_spec k a); [left; congruence | right; split; auto].
Qed.
Lemma first_occ_NoDup ks : NoDup (first_occ ks).
Proof.
  induction ks as [|a r IH]; cbn; constructor.
  - rewrite filter_In. intros [_ H]. destruct (key_eqb_spec a a); [discriminate|congruence].
  - apply NoDup_filter, IH.
Qed.

Lemma count_nodup (l : list key) k : NoDup l -> length (filter (fun k' => key_eqb k' k) l) = if in_dec (fun a b => reflect_dec _ _ (key_eqb_spec a b)) k l then 1%nat else 0%nat.
Proof.
  induction l as [|a r IH]; intros Hnd; [reflexivity|]. inversion Hnd; subst. cbn [filter].
  destruct (key_eqb_spec a k) as [->|Hne].
  - cbn [length]. rewrite IH by assumption.
    destruct (in_dec _ k r); [contradiction|]. destruct (in_dec _ k (k :: r)) as [|n0]; [reflexivity|exfalso; apply n0; left; reflexivity].
  - rewrite IH by assumption. destruct (in_dec _ k r) as [i1|n1], (in_dec _ k (a :: r)) as [i2|n2]; try reflexivity.
    + exfalso; apply n2; right; assumption.
    + destruct i2; [congruence|contradiction].
Qed.

Lemma at_r_materialize b k :
  at_r (materialize b) k = if (0 <? bcnt b k) then [{| r_bucket := fst k; r_dim := snd k; r_sum := bsum b k; r_cnt := bcnt b k |}] else [].
Proof.
  unfold at_r, materialize.
  assert (forall l, NoDup l ->
     filter (fun x => key_eqb (rkey x) k) (map (fun k0 => {| r_bucket := fst k0; r_dim := snd k0; r_sum := bsum b k0; r_cnt := bcnt b k0 |}) l)
     = if in_dec (fun a b => reflect_dec _ _ (key_eqb_spec a b)) k l then [{| r_bucket := fst k; r_dim := snd k; r_sum := bsum b k; r_cnt := bcnt b k |}] else []) as G.
  { induction l as [|a r IH]; intros Hnd; [reflexivity|]. inversion Hnd; subst. cbn [map filter]. unfold rkey at 1. cbn [r_bucket r_dim].
    replace (fst a, snd a) with a by (destruct a; reflexivity).
    destruct (key_eqb_spec a k) as [->|Hne].
    - rewrite IH by assumption. destruct (in_dec _ k r); [contradiction|]. destruct (in_dec _ k (k :: r)) as [|n0]; [reflexivity|exfalso; apply n0; left; reflexivity].
    - rewrite IH by assumption. destruct (in_dec _ k r) as [i1|n1], (in_dec _ k (a :: r)) as [i2|n2]; try reflexivity.
      + exfalso; apply n2; right; assumption.
      + destruct i2; [congruence|contradiction]. }
  rewrite (G _ (first_occ_NoDup _)).
  destruct (in_dec _ k (first_occ (map bkey b))) as [i|n].
  - apply first_occ_In, in_map_iff in i. destruct i as (x & Hx & Hin).
    assert (0 < bcnt b k) as Hpos.
    { unfold bcnt, at_b. assert (In x (filter (fun x0 => key_eqb (bkey x0) k) b)) as Hf by (apply filter_In; split; [assumption|rewrite Hx; destruct (key_eqb_spec k k); congruence]).
      destruct (filter (fun x0 => key_eqb (bkey x0) k) b); [destruct Hf|cbn; lia]. }
    apply Z.ltb_lt in Hpos. rewrite Hpos. reflexivity.
  - assert (bcnt b k = 0) as Hz.
    { unfold bcnt, at_b. destruct (filter (fun x0 => key_eqb (bkey x0) k) b) as [|x l] eqn:E; [reflexivity|].
      exfalso. apply n, first_occ_In, in_map_iff. exists x.
      assert (In x (filter (fun x0 => key_eqb (bkey x0) k) b)) as Hf by (rewrite E; left; reflexivity).
      apply filter_In in Hf. destruct Hf as [Hin Hk]. split; [destruct (key_eqb_spec (bkey x) k); [assumption|discriminate]|assumption]. }
    rewrite Hz. reflexivity.
Qed.

Theorem full_correct b : approx (materialize b) b.
Proof.
  intros k. unfold rows_at, sum_at, cnt_at. rewrite at_r_materialize.
  destruct (0 <? bcnt b k) eqn:E.
  - cbn [length map r_sum r_cnt]. unfold zsum. cbn [fold_right]. repeat split; lia.
  - apply Z.ltb_ge in E. cbn [length map]. unfold zsum at 1 2. cbn [fold_right].
    assert (at_b b k = []) as Hz.
    { unfold bcnt in E. destruct (at_b b k); [reflexivity|cbn in E; lia]. }
    unfold bsum, bcnt. rewrite Hz. cbn. repeat split; reflexivity.
Qed.

(* ---------- pointwise algebra of ++ and filter ---------- *)
Lemma zsum_nil : zsum [] = 0. Proof. reflexivity. Qed.
Lemma zsum_app l1 l2 : zsum (l1 ++ l2) = zsum l1 + zsum l2.
Proof. unfold zsum. induction l1; cbn; lia. Qed.
Lemma at_r_app r1 r2 k : at_r (r1 ++ r2) k = at_r r1 k ++ at_r r2 k.
Proof. apply filter_app. Qed.
Lemma at_b_app b1 b2 k : at_b (b1 ++ b2) k = at_b b1 k ++ at_b b2 k.
Proof. apply filter_app. Qed.

Lemma at_r_filter_bucket (p : Z -> bool) r k :
  at_r (filter (fun x => p (r_bucket x)) r) k = if p (fst k) then at_r r k else [].
Proof.
  unfold at_r. induction r as [|x r IH]; cbn [filter]; [destruct (p (fst k)); reflexivity|].
  destruct (p (r_bucket x)) eqn:Ep; cbn [filter]; destruct (key_eqb_spec (rkey x) k) as [<-|Hne]; cbn [rkey fst] in *.
  - rewrite Ep in *. f_equal. exact IH.
  - exact IH.
  - rewrite Ep in *. exact IH.
  - exact IH.
Qed.
Lemma at_b_filter_bucket (p : Z -> bool) b k :
  at_b (filter (fun x => p (tr (b_ts x))) b) k = if p (fst k) then at_b b k else [].
Proof.
  unfold at_b. induction b as [|x b IH]; cbn [filter]; [destruct (p (fst k)); reflexivity|].
  destruct (p (tr (b_ts x))) eqn:Ep; cbn [filter]; destruct (key_eqb_spec (bkey x) k) as [<-|Hne]; cbn [bkey fst] in *.
  - rewrite Ep in *. f_equal. exact IH.
  - exact IH.
  - rewrite Ep in *. exact IH.
  - exact IH.
Qed.
Lemma at_b_none b k : (forall x, In x b -> fst (bkey x) <> fst k) -> at_b b k = [].
Proof.
  intros H. unfold at_b. induction b as [|x b IH]; [reflexivity|]. cbn.
  destruct (key_eqb_spec (bkey x) k) as [E|_]; [exfalso; apply (H x (or_introl eq_refl)); rewrite E; reflexivity|].
  apply IH. intros; apply H; right; assumption.
Qed.


(* ---------- merge: delete buckets >= w, recompute buckets >= w from the current base ---------- *)
(* general form: the rollup was right for the base at the last refresh, and the current base agrees with that base on every
   bucket below the window (so appends, late rows and updates all fall inside it) *)
Theorem merge_correct w r b_old b :
  approx r b_old -> (forall k, fst k < w -> bsum b k = bsum b_old k /\ bcnt b k = bcnt b_old k) -> approx (merge w r b) b.
Proof.
  intros Hr Hsame k. destruct (Hr k) as (R1 & R2 & R3).
  pose proof (full_correct (filter (fun x => w <=? tr (b_ts x)) b) k) as (M1 & M2 & M3).
  unfold Refresh.merge, rows_at, sum_at, cnt_at in *. rewrite at_r_app, app_length, !map_app, !zsum_app, Nat2Z.inj_add.
  rewrite (at_r_filter_bucket (fun z => z <? w)).
  unfold Refresh.bsum, Refresh.bcnt in *. rewrite (at_b_filter_bucket (fun z => w <=? z)) in M1, M2, M3.
  destruct (Z.ltb_spec (fst k) w) as [Hlt|Hge].
  - destruct (Hsame k Hlt) as [S1 S2]. unfold Refresh.bsum, Refresh.bcnt in S1, S2.
    destruct (Z.leb_spec w (fst k)); [lia|]. cbn [length map] in M1, M2, M3. rewrite zsum_nil in M2. change (Z.of_nat 0) with 0 in *.
    change (0 <? 0) with false in M1. cbv iota in M1. rewrite S1, S2. repeat split; lia.
  - destruct (Z.leb_spec w (fst k)); [|lia]. cbn [length map]. rewrite !zsum_nil. repeat split; lia.
Qed.

(* re-running merge (any window) on unchanged data leaves a rollup that is still the full rollup: idempotent *)
Corollary merge_idempotent w w' r b : approx r b -> approx (merge w' (merge w r b) b) b.
Proof.
  intros H. assert (H1 : approx (merge w r b) b) by (eapply merge_correct; [exact H|auto]).
  eapply merge_correct; [exact H1|auto].
Qed.

(* ---------- incremental (bucket-level watermark predicate) ---------- *)
Lemma filter_none {A} (p : A -> bool) l : (forall x, In x l -> p x = false) -> filter p l = [].
Proof. induction l as [|x l IH]; intros H; [reflexivity|]. cbn. rewrite (H x (or_introl eq_refl)). apply IH. intros; apply H; right; assumption. Qed.

Theorem incremental_noop W r b : (forall x, In x b -> tr (b_ts x) <= W) -> incremental W r b = r.
Proof.
  intros H. unfold Refresh.incremental. rewrite filter_none; [cbn; apply app_nil_r|].
  intros x Hx. specialize (H x Hx). apply Z.ltb_ge. exact H.
Qed.

Theorem incremental_in_order W r b_old new :
  approx r b_old -> (forall x, In x b_old -> tr (b_ts x) <= W) -> (forall x, In x new -> W < tr (b_ts x)) ->
  approx (incremental W r (b_old ++ new)) (b_old ++ new).
Proof.
  intros Hr Hold Hnew k. destruct (Hr k) as (R1 & R2 & R3).
  pose proof (full_correct (filter (fun x => W <? tr (b_ts x)) (b_old ++ new)) k) as (M1 & M2 & M3).
  unfold Refresh.incremental, rows_at, sum_at, cnt_at in *. rewrite at_r_app, app_length, !map_app, !zsum_app, Nat2Z.inj_add.
  unfold Refresh.bsum, Refresh.bcnt in *. rewrite (at_b_filter_bucket (fun z => W <? z)) in M1, M2, M3. rewrite at_b_app in *.
  destruct (Z.ltb_spec W (fst k)) as [Hgt|Hle].
  - assert (at_b b_old k = []) as Ho by (apply at_b_none; intros x Hx; specialize (Hold x Hx); cbn; lia).
    rewrite Ho in *. cbn [app length map] in *. rewrite zsum_nil in R2. change (Z.of_nat 0) with 0 in *. change (0 <? 0) with false in R1. cbv iota in R1. repeat split; lia.
  - assert (at_b new k = []) as Hn by (apply at_b_none; intros x Hx; specialize (Hnew x Hx); cbn; lia).
    rewrite Hn, app_nil_r. cbn [length map] in M1, M2, M3. rewrite zsum_nil in M2. change (Z.of_nat 0) with 0 in *. change (0 <? 0) with false in M1. cbv iota in M1. repeat split; lia.
Qed.

(* ---------- the stateless watermark ---------- *)
Lemma fold_max_ge l a : a <= fold_left Z.max l a /\ forall x, In x l -> x <= fold_left Z.max l a.
Proof.
  revert a. induction l as [|y l IH]; intros a; cbn; [split; [lia|intros x []]|].
  destruct (IH (Z.max a y)) as [H1 H2]. split; [lia|]. intros x [<-|Hx]; [lia|auto].
Qed.
Lemma watermark_ge r x : In x r -> r_bucket x <= watermark (Some r).
Proof.
  destruct r as [|y l]; [intros []|]. cbn [watermark]. destruct (fold_max_ge (map r_bucket l) (r_bucket y)) as [H1 H2].
  intros [<-|Hx]; [exact H1|]. apply H2. apply in_map. exact Hx.
Qed.
(* a rollup that is right for b has a row for every bucket of b, so no base row lies beyond the watermark *)
Lemma approx_covers r b x : approx r b -> In x b -> tr (b_ts x) <= watermark (Some r).
Proof.
  intros Ha Hx. destruct (Ha (bkey x)) as (R1 & _ & _).
  assert (0 < bcnt b (bkey x)) as Hpos.
  { unfold Refresh.bcnt, Refresh.at_b.
    assert (In x (filter (fun x0 => key_eqb (bkey x0) (bkey x)) b)) as Hf by (apply filter_In; split; [assumption|destruct (key_eqb_spec (bkey x) (bkey x)); congruence]).
    destruct (filter (fun x0 => key_eqb (bkey x0) (bkey x)) b); [destruct Hf|cbn; lia]. }
  apply Z.ltb_lt in Hpos. rewrite Hpos in R1. unfold rows_at, at_r in R1.
  destruct (filter (fun x0 => key_eqb (rkey x0) (bkey x)) r) as [|y l] eqn:E; [cbn in R1; lia|].
  assert (In y (filter (fun x0 => key_eqb (rkey x0) (bkey x)) r)) as Hy by (rewrite E; left; reflexivity).
  apply filter_In in Hy. destruct Hy as [Hin Hk]. destruct (key_eqb_spec (rkey y) (bkey x)) as [Ek|]; [|discriminate].
  pose proof (watermark_ge r y Hin) as Hw. unfold rkey, Refresh.bkey in Ek. injection Ek as E1 _. lia.
Qed.

(* ---------- histories ---------- *)
(* ghost state: the base table as it was at the last refresh *)
Definition is_refresh (o : op) : bool := match o with SetBase _ => false | _ => true end.
Definition gstep (g : state * list brow) (o : op) : state * list brow :=
  let s' := step (fst g) o in (s', if is_refresh o then base s' else snd g).
Definition grun (h : list op) (g : state * list brow) := fold_left gstep h g.

(* what each refresh needs from the changes made since the previous refresh (nothing for full refresh) *)
Definition pre (g : state * list brow) (o : op) : Prop :=
  let s := fst g in let synced := snd g in
  match o with
  | SetBase _ | Full | CliFull => True
  | Merge L =>
      let w := watermark (rollup s) - L in
      match rollup s with
      | None => forall x, In x (base s) -> w <= tr (b_ts x)                    (* first run: creation starts at 1970-01-01 minus lookback *)
      | Some _ => forall k, fst k < w -> bsum (base s) k = bsum synced k /\ bcnt (base s) k = bcnt synced k   (* all changes fall inside the lookback window *)
      end
  | Incr =>
      match rollup s with
      | None => forall x, In x (base s) -> 0 < tr (b_ts x)
      | Some _ => exists new, base s = synced ++ new /\ forall x, In x new -> watermark (rollup s) < tr (b_ts x)   (* data arrives in time order *)
      end
  | CliMerge =>                                  (* the command line passes no lookback *)
      let w := watermark (rollup s) - 0 in
      match rollup s with
      | None => forall x, In x (base s) -> w <= tr (b_ts x)
      | Some _ => forall k, fst k < w -> bsum (base s) k = bsum synced k /\ bcnt (base s) k = bcnt synced k
      end
  | CliIncr =>
      match rollup s with
      | None => forall x, In x (base s) -> 0 < tr (b_ts x)
      | Some _ => exists new, base s = synced ++ new /\ forall x, In x new -> watermark (rollup s) < tr (b_ts x)
      end
  end.
Definition GInv (g : state * list brow) : Prop :=
  match rollup (fst g) with None => True | Some r => approx r (snd g) end.

Lemma filter_all {A} (p : A -> bool) l : (forall x, In x l -> p x = true) -> filter p l = l.
Proof. induction l as [|x l IH]; intros H; [reflexivity|]. cbn. rewrite (H x (or_introl eq_refl)). f_equal. apply IH. intros; apply H; right; assumption. Qed.

Lemma gstep_inv g o : GInv g -> pre g o -> GInv (gstep g o).
Proof.
  destruct g as [[b ro] synced]. unfold GInv, pre, gstep. cbn [fst snd base rollup].
  destruct o as [b'| | |L| | |]; cbn [step is_refresh base rollup fst snd]; intros HI HP.
  - exact HI.
  - apply full_correct.
  - destruct ro as [r|].
    + destruct HP as (new & -> & Hnew). apply incremental_in_order; auto. intros x Hx. eapply approx_covers; eauto.
    + rewrite filter_all; [apply full_correct|]. intros x Hx. apply Z.ltb_lt. cbn [watermark]. auto.
  - destruct ro as [r|].
    + eapply merge_correct; eauto.
    + rewrite filter_all; [apply full_correct|]. intros x Hx. apply Z.leb_le. auto.
  - apply full_correct.
  - destruct ro as [r|].
    + destruct HP as (new & -> & Hnew). apply incremental_in_order; auto. intros x Hx. eapply approx_covers; eauto.
    + rewrite filter_all; [apply full_correct|]. intros x Hx. apply Z.ltb_lt. cbn [watermark]. auto.
  - destruct ro as [r|].
    + eapply merge_correct; eauto.
    + rewrite filter_all; [apply full_correct|]. intros x Hx. apply Z.leb_le. auto.
Qed.

Fixpoint all_pre (h : list op) (g : state * list brow) : Prop :=
  match h with [] => True | o :: r => pre g o /\ all_pre r (gstep g o) end.

Theorem history_inv h : forall g, GInv g -> all_pre h g -> GInv (grun h g).
Proof. induction h as [|o r IH]; intros g HI HP; cbn; [exact HI|]. destruct HP as [P1 P2]. apply IH; [apply gstep_inv; assumption|exact P2]. Qed.

Lemma grun_fst h : forall g, fst (grun h g) = run h (fst g).
Proof. induction h as [|o r IH]; intros g; cbn; [reflexivity|]. rewrite IH. reflexivity. Qed.
Lemma grun_app h1 h2 g : grun (h1 ++ h2) g = grun h2 (grun h1 g).
Proof. unfold grun. apply fold_left_app. Qed.
Lemma run_app h1 h2 s : run (h1 ++ h2) s = run h2 (run h1 s).
Proof. unfold Refresh.run. apply fold_left_app. Qed.

(* after ANY history (any operations, in any order, from any starting state), a full refresh leaves the materialisation of the current base *)
Theorem full_after_any_history h s : rollup (run (h ++ [Full]) s) = Some (materialize (base (run h s))) /\ base (run (h ++ [Full]) s) = base (run h s).
Proof. rewrite run_app. cbn. split; reflexivity. Qed.
Theorem cli_full_after_any_history h s : rollup (run (h ++ [CliFull]) s) = Some (materialize (base (run h s))).
Proof. rewrite run_app. reflexivity. Qed.

(* a history that ends with a refresh whose precondition (and those of all earlier refreshes) holds ends with the full rollup of the CURRENT base *)
Theorem history_converges h o s : is_refresh o = true -> all_pre (h ++ [o]) (s, base s) -> GInv (s, base s) ->
  match rollup (run (h ++ [o]) s) with Some r => approx r (base (run (h ++ [o]) s)) | None => False end.
Proof.
  intros Ho HP HI. pose proof (history_inv (h ++ [o]) (s, base s) HI HP) as H.
  assert (Hs : snd (grun (h ++ [o]) (s, base s)) = base (fst (grun (h ++ [o]) (s, base s)))).
  { rewrite grun_app. cbn [grun fold_left]. unfold gstep. rewrite Ho. reflexivity. }
  assert (Hr : rollup (fst (grun (h ++ [o]) (s, base s))) <> None).
  { rewrite grun_app. cbn [grun fold_left]. unfold gstep. cbn [fst]. destruct o; cbn; try discriminate. }
  unfold GInv in H. rewrite Hs in H. rewrite grun_fst in H, Hr. cbn [fst] in H, Hr.
  destruct (rollup (run (h ++ [o]) s)); [exact H|congruence].
Qed.

(* incremental re-run without new data: the rollup table is literally unchanged *)
Theorem incr_rerun_noop b r : approx r b -> step {| base := b; rollup := Some r |} Incr = {| base := b; rollup := Some r |}.
Proof.
  intros Ha. cbn [step base rollup]. f_equal. f_equal. apply incremental_noop. intros x Hx. eapply approx_covers; eauto.
Qed.
End RefreshProofs.

(* ---------- the CLI's incremental / merge modes are the API's (bucket-level watermark predicate, no lookback) ---------- *)
Definition ex_base := [ {| b_ts := 5; b_dim := 0; b_v := 10 |}; {| b_ts := 9; b_dim := 0; b_v := 1 |} ].
Lemma cli_incr_is_incr : forall tr s, step tr s CliIncr = step tr s Incr.
Proof. reflexivity. Qed.
Lemma cli_merge_is_merge0 : forall tr s, step tr s CliMerge = step tr s (Merge 0).
Proof. reflexivity. Qed.
(* a second run without new data: one row per bucket, as after the first (before the repair of the command line: two rows for bucket 5) *)
Example cli_incremental_rerun :
  let s2 := run (fun z => z) [CliIncr; CliIncr] {| base := ex_base; rollup := None |} in
  match rollup s2 with Some r => rows_at r (5, 0) = 1 /\ rows_at r (9, 0) = 1 | None => False end.
Proof. split; reflexivity. Qed.
Example cli_merge_rerun :
  let s2 := run (fun z => z) [CliMerge; CliMerge] {| base := ex_base; rollup := None |} in
  match rollup s2 with Some r => rows_at r (5, 0) = 1 /\ rows_at r (9, 0) = 1 | None => False end.
Proof. split; reflexivity. Qed.
Local Arguments Z.eqb : simpl never.
Local Arguments Z.ltb : simpl never.
(* non-vacuity of history_converges: append in order, incremental; late row + update inside a lookback of 4, merge *)
Example history_example :
  let s := {| base := [ {| b_ts := 5; b_dim := 0; b_v := 10 |} ]; rollup := None |} in
  let h := [Full; SetBase [ {| b_ts := 5; b_dim := 0; b_v := 10 |}; {| b_ts := 9; b_dim := 1; b_v := 1 |} ]; Incr;
            SetBase [ {| b_ts := 5; b_dim := 0; b_v := 10 |}; {| b_ts := 9; b_dim := 1; b_v := 7 |}; {| b_ts := 6; b_dim := 0; b_v := 2 |} ]; Merge 4] in
  all_pre (fun z => z) h (s, base s) /\ rollup (run (fun z => z) h s) =
    Some [ {| r_bucket := 5; r_dim := 0; r_sum := 10; r_cnt := 1 |}; {| r_bucket := 9; r_dim := 1; r_sum := 7; r_cnt := 1 |}; {| r_bucket := 6; r_dim := 0; r_sum := 2; r_cnt := 1 |} ].
Proof.
  cbn. repeat split; auto.
  - exists [ {| b_ts := 9; b_dim := 1; b_v := 1 |} ]. split; [reflexivity|]. intros x [<-|[]]. cbn. lia.
  - match goal with H : fst ?k < ?w |- _ => destruct k as [k1 k2]; let v := eval vm_compute in w in change w with v in H; cbn [fst] in H end. unfold key_eqb, bkey; cbn.
    destruct (Z.eqb_spec 5 k1); [lia|]. destruct (Z.eqb_spec 9 k1); [lia|]. destruct (Z.eqb_spec 6 k1); [lia|]. reflexivity.
  - match goal with H : fst ?k < ?w |- _ => destruct k as [k1 k2]; let v := eval vm_compute in w in change w with v in H; cbn [fst] in H end. unfold bcnt, at_b, key_eqb, bkey; cbn.
    destruct (Z.eqb_spec 5 k1); [lia|]. destruct (Z.eqb_spec 9 k1); [lia|]. destruct (Z.eqb_spec 6 k1); [lia|]. reflexivity.
Qed.
