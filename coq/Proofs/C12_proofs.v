(* Proofs for C12: what the table criteria mean, for any tables. *)
From Coq Require Import String List Bool.
Require Import V.Model.Vocab V.Gen.AdapterMaps_gen.
Import ListNotations.
Open Scope string_scope.

Theorem faithful_sound known adapter tbl : faithful known adapter tbl = true ->
  forall a r, In (a, r) tbl -> listed known adapter a = false -> r = None \/ r = Some a.
Proof.
  intros H a r Hin Hl. unfold faithful in H. rewrite forallb_forall in H. specialize (H _ Hin). cbn in H.
  destruct r as [b|]; [|left; reflexivity]. right. rewrite Hl, orb_false_r in H. apply String.eqb_eq in H. congruence.
Qed.
Theorem all_faithful_sound known tbls : all_faithful known tbls = true ->
  forall adapter tbl a r, In (adapter, tbl) tbls -> In (a, r) tbl -> listed known adapter a = false -> r = None \/ r = Some a.
Proof.
  intros H adapter tbl a r Ht Hin Hl. unfold all_faithful in H. rewrite forallb_forall in H. specialize (H _ Ht). cbn in H.
  exact (faithful_sound known adapter tbl H a r Hin Hl).
Qed.
(* an exporter table that passes the criterion writes, for every literal of the vocabulary that is not listed, the token the table
   itself assigns to that literal -- never the default *)
Theorem export_map_sound known vocab adapter site tbl d : export_map_ok known vocab (adapter, site, tbl, d) = true -> computed_default d = false ->
  forall a, In a vocab -> listed known adapter a = false -> exists tok, assoc tbl a = Some tok.
Proof.
  intros H Hd a Hin Hl. unfold export_map_ok in H. rewrite Hd in H. cbn in H. rewrite forallb_forall in H. specialize (H a Hin).
  destruct (assoc tbl a) as [tok|]; [exists tok; reflexivity|]. rewrite Hl in H. discriminate.
Qed.
