(* Proofs for C06: textual expansion of ratio / derived metrics is compositional (any nesting depth, any names). *)
From Coq Require Import ZArith String Ascii List Bool Lia DecimalString.
Require Import V.Model.Sem V.Model.Formula.
Import ListNotations.
Open Scope string_scope.
Open Scope list_scope.

(* ---------- sequential whole-word substitution = simultaneous substitution, under freshness ---------- *)
Lemma subst_sim_app deps f g : subst_sim deps (f ++ g) = subst_sim deps f ++ subst_sim deps g.
Proof. unfold subst_sim. apply flat_map_app. Qed.

Lemma subst_sim_untouched deps r :
  forallb (fun '(d', _) => negb (mentions r d')) deps = true -> subst_sim deps r = r.
Proof.
  intros H. unfold subst_sim. induction r as [|t r IH]; [reflexivity|].
  cbn [flat_map].
  assert (Hr : forallb (fun '(d', _) => negb (mentions r d')) deps = true).
  { rewrite forallb_forall in *. intros [d' x] Hin. specialize (H _ Hin). cbn in H.
    rewrite negb_true_iff in *. unfold mentions in *. cbn in H. apply orb_false_iff in H. tauto. }
  rewrite (IH Hr). destruct t as [s|c]; [|reflexivity].
  assert (lookup deps s = None) as ->; [|reflexivity].
  clear IH Hr. induction deps as [|[d x] rest IHd]; [reflexivity|]. cbn in *.
  apply andb_true_iff in H. destruct H as [H1 H2]. rewrite negb_true_iff in H1. apply orb_false_iff in H1. destruct H1 as [H1 _].
  rewrite H1. apply IHd. exact H2.
Qed.

Theorem subst_seq_eq_sim deps : fresh deps = true -> NoDup (map fst deps) ->
  forall f, subst_seq deps f = subst_sim deps f.
Proof.
  induction deps as [|[d r] rest IH]; intros Hf Hnd f.
  - cbn [subst_seq]. unfold subst_sim. rewrite (flat_map_ext _ (fun t => [t])); [|intros [s|c]; reflexivity].
    induction f as [|t f IHf]; [reflexivity|]. cbn. rewrite <- IHf. reflexivity.
  - cbn [subst_seq fresh] in *. apply andb_true_iff in Hf. destruct Hf as [Hfr Hrest].
    inversion Hnd as [|? ? Hnotin Hnd']; subst.
    rewrite (IH Hrest Hnd'). clear IH.
    induction f as [|t f IHf]; [reflexivity|].
    change (t :: f) with ([t] ++ f). unfold subst1 in *. rewrite flat_map_app, !subst_sim_app, IHf. f_equal.
    destruct t as [s|c]; cbn [flat_map app]; [|reflexivity].
    destruct (String.eqb_spec s d) as [->|Hne].
    + rewrite app_nil_r. rewrite (subst_sim_untouched rest r Hfr). unfold subst_sim. cbn. rewrite String.eqb_refl, app_nil_r. reflexivity.
    + unfold subst_sim. cbn. destruct (String.eqb_spec s d); [contradiction|]. reflexivity.
Qed.

(* whole-word matching: a name that is only a SUBSTRING of a word is never touched *)
Theorem substring_names_untouched d r s : s <> d -> subst1 d r [W s] = [W s].
Proof. intros H. cbn. destruct (String.eqb_spec s d); [contradiction|reflexivity]. Qed.

(* ---------- compositional evaluation of formula trees ---------- *)
Definition env_of (rho : list (string * fexpr)) (env : string -> val) : string -> val :=
  fun n => match lookup rho n with Some e => feval env e | None => env n end.

Theorem asubst_compositional rho env f : feval env (asubst rho f) = feval (env_of rho env) f.
Proof.
  induction f as [z|n|a IH|a IHa b IHb|a IHa b IHb|a IHa b IHb|a IHa b IHb|a IHa b IHb|a IHa b IHb|c x IHx y IHy t IHt e IHe];
    cbn [asubst feval]; try rewrite ?IH, ?IHa, ?IHb, ?IHx, ?IHy, ?IHt, ?IHe; try reflexivity.
  unfold env_of. destruct (lookup rho n); reflexivity.
Qed.

(* ---------- the rendered text of the substituted tree = the substituted text ---------- *)
Lemma lookup_map {A B} (g : A -> B) (rho : list (string * A)) s :
  lookup (map (fun '(d, e) => (d, g e)) rho) s = option_map g (lookup rho s).
Proof. induction rho as [|[d e] r IH]; [reflexivity|]. cbn. destruct (s =? d); [reflexivity|exact IH]. Qed.

Fixpoint digits_only (s : string) : bool :=
  match s with EmptyString => true | String c r => (let n := nat_of_ascii c in (48 <=? n) && (n <=? 57))%nat && digits_only r end.
Lemma all_digits_eq s : all_digits s = digits_only s.
Proof. induction s as [|c r IH]; [reflexivity|]. cbn. rewrite <- IH. reflexivity. Qed.
Lemma string_of_uint_digits d : digits_only (NilEmpty.string_of_uint d) = true.
Proof. induction d; cbn; try exact IHd; reflexivity. Qed.
Lemma nz_digits d : digits_only (NilZero.string_of_uint d) = true.
Proof. destruct d; try reflexivity; apply (string_of_uint_digits). Qed.

Lemma names_ok_lookup {A} (rho : list (string * A)) s : names_ok rho = true ->
  (existsb (String.eqb s) keywords = true \/ all_digits s = true) -> lookup rho s = None.
Proof.
  intros Hok Hs. induction rho as [|[d e] r IH]; [reflexivity|]. unfold names_ok in Hok. cbn [forallb] in Hok. apply andb_true_iff in Hok as [H1 H2]. fold (names_ok r) in H2.
  cbn [lookup]. destruct (String.eqb_spec s d) as [->|Hne]; [|apply IH, H2].
  apply andb_true_iff in H1 as [Hk Hd]. destruct Hs as [Hs|Hs]; [rewrite Hs in Hk|rewrite Hs in Hd]; discriminate.
Qed.

Section Render.
Variable rho : list (string * fexpr).
Hypothesis Hok : names_ok rho = true.
Let texts := map (fun '(d, e) => (d, paren (render e))) rho.

Lemma sim_word_kw s : existsb (String.eqb s) keywords = true -> subst_sim texts [W s] = [W s].
Proof.
  intros H. unfold subst_sim. cbn. unfold texts. rewrite lookup_map, (names_ok_lookup rho s Hok (or_introl H)). reflexivity.
Qed.
Lemma sim_O c : subst_sim texts [O c] = [O c].
Proof. reflexivity. Qed.
Lemma sim_cons t l : subst_sim texts (t :: l) = subst_sim texts [t] ++ subst_sim texts l.
Proof. change (t :: l) with ([t] ++ l). apply subst_sim_app. Qed.
Lemma sim_word_none s : lookup texts s = None -> subst_sim texts [W s] = [W s].
Proof. intros H. unfold subst_sim. cbn. rewrite H. reflexivity. Qed.
Lemma sim_digits d : subst_sim texts [W (NilZero.string_of_uint d)] = [W (NilZero.string_of_uint d)].
Proof.
  apply sim_word_none. unfold texts. rewrite lookup_map, (names_ok_lookup rho _ Hok); [reflexivity|].
  right. rewrite all_digits_eq. apply nz_digits.
Qed.
Lemma sim_num z : subst_sim texts (num_word z) = num_word z.
Proof.
  unfold num_word. destruct (z <? 0)%Z; [|apply sim_digits].
  match goal with |- subst_sim texts [O ?a; O ?b; W ?w; O ?c] = _ => change [O a; O b; W w; O c] with ([O a; O b] ++ [W w] ++ [O c]) end.
  rewrite !subst_sim_app, sim_digits. reflexivity.
Qed.
Lemma sim_cmp c : subst_sim texts (cmp_toks c) = cmp_toks c.
Proof. destruct c; reflexivity. Qed.
Lemma sim_paren l : subst_sim texts (paren l) = paren (subst_sim texts l).
Proof. unfold paren. rewrite sim_cons, subst_sim_app. reflexivity. Qed.

Theorem render_asubst f : render (asubst rho f) = subst_sim texts (render f).
Proof.
  induction f as [z|n|a IH|a IHa b IHb|a IHa b IHb|a IHa b IHb|a IHa b IHb|a IHa b IHb|a IHa b IHb|c x IHx y IHy t IHt e IHe]; cbn [asubst render].
  - symmetry. apply sim_num.
  - unfold subst_sim. cbn. unfold texts. rewrite lookup_map. destruct (lookup rho n); cbn; [rewrite app_nil_r|]; reflexivity.
  - rewrite sim_paren, IH. reflexivity.
  - rewrite !subst_sim_app, IHa, IHb. reflexivity.
  - rewrite !subst_sim_app, IHa, IHb. reflexivity.
  - rewrite !subst_sim_app, IHa, IHb. reflexivity.
  - rewrite !subst_sim_app, IHa, IHb. reflexivity.
  - rewrite !subst_sim_app, IHa, IHb. rewrite (sim_cons (W "NULLIF")), sim_word_kw by reflexivity. reflexivity.
  - rewrite !subst_sim_app, IHa, IHb. rewrite (sim_cons (W "COALESCE")), sim_word_kw by reflexivity. reflexivity.
  - rewrite !subst_sim_app, IHx, IHy, IHt, IHe, sim_cmp.
    rewrite (sim_cons (W "CASE")), (sim_cons sp [W "WHEN"; sp]), (sim_cons (W "WHEN")), !sim_word_kw by reflexivity.
    rewrite (sim_cons sp [W "THEN"; sp]), (sim_cons (W "THEN")), (sim_cons sp [W "ELSE"; sp]), (sim_cons (W "ELSE")), (sim_cons sp [W "END"]), !sim_word_kw by reflexivity.
    reflexivity.
Qed.
End Render.

(* the code's loop over unqualified dependency names, on a rendered formula, yields the rendering of the substituted tree *)
Theorem text_expansion_compositional rho f env :
  names_ok rho = true -> NoDup (map fst rho) -> fresh (map (fun '(d, e) => (d, paren (render e))) rho) = true ->
  subst_seq (map (fun '(d, e) => (d, paren (render e))) rho) (render f) = render (asubst rho f) /\
  feval env (asubst rho f) = feval (env_of rho env) f.
Proof.
  intros Hok Hnd Hfr. split; [|apply asubst_compositional].
  rewrite subst_seq_eq_sim; [symmetry; apply render_asubst, Hok|exact Hfr|].
  rewrite map_map. erewrite map_ext; [exact Hnd|]. intros [d e]. reflexivity.
Qed.

(* ---------- ratio and fill_nulls_with ---------- *)
Theorem ratio_value env num den : feval env (ratio_f num den) = qdiv (feval env num) (nullif (feval env den) (VInt 0)).
Proof. reflexivity. Qed.
Theorem ratio_zero_denominator env num den z p : as_q (feval env den) = Some (z, p) -> z = 0%Z -> feval env (ratio_f num den) = VNull.
Proof.
  intros E ->. rewrite ratio_value. unfold nullif, qcmp. rewrite E. cbn [as_q].
  assert (is_special (feval env den) = false) as -> by (destruct (feval env den); cbn in E; try discriminate; reflexivity).
  cbn. unfold qdiv, qbin. destruct (feval env num); reflexivity.
Qed.
Theorem ratio_null_denominator env num den : feval env den = VNull -> feval env (ratio_f num den) = VNull.
Proof. intros E. rewrite ratio_value, E. cbn. unfold qdiv, qbin. destruct (feval env num); reflexivity. Qed.
Theorem fill_value env k f : feval env (fill_f k f) = match feval env f with VNull => VInt k | v => v end.
Proof. unfold fill_f. cbn [feval]. unfold coalesce. destruct (feval env f); reflexivity. Qed.

(* ---------- tokenisation is lossless ---------- *)
Lemma app_assoc_s (a b c : string) : ((a ++ b) ++ c)%string = (a ++ (b ++ c))%string.
Proof. induction a as [|x a IH]; cbn; [reflexivity|rewrite IH; reflexivity]. Qed.
Lemma append_nil_r' s : (s ++ "")%string = s.
Proof. induction s; cbn; congruence. Qed.
Lemma rev_string_spec s acc : rev_string s acc = (rev_string s "" ++ acc)%string.
Proof.
  revert acc. induction s as [|c r IH]; intros acc; [reflexivity|]. cbn. rewrite IH, (IH (String c "")).
  rewrite app_assoc_s. reflexivity.
Qed.
Lemma untok_cons' t l : untok (t :: l) = (tok_text t ++ untok l)%string.
Proof.
  unfold untok. cbn [map]. destruct (map tok_text l) as [|x xs]; cbn [String.concat]; [rewrite append_nil_r'; reflexivity|reflexivity].
Qed.
Lemma untok_flush cur k : untok (flush cur k) = (rev_string cur "" ++ untok k)%string.
Proof. destruct cur; [reflexivity|]. cbn [flush]. rewrite untok_cons'. reflexivity. Qed.
Theorem untok_tokenize_aux s cur : untok (tokenize_aux s cur) = (rev_string cur "" ++ s)%string.
Proof.
  revert cur. induction s as [|c r IH]; intros cur; cbn [tokenize_aux].
  - rewrite untok_flush. reflexivity.
  - destruct (word_char c).
    + rewrite IH. cbn [rev_string]. rewrite (rev_string_spec cur (String c "")), app_assoc_s. reflexivity.
    + rewrite untok_flush, untok_cons', IH. reflexivity.
Qed.
Theorem untok_tokenize s : untok (tokenize s) = s.
Proof. unfold tokenize. rewrite untok_tokenize_aux. reflexivity. Qed.

(* ---------- where freshness fails: the two listed classes, on the text model ---------- *)
Definition T := tokenize.
(* K2: a graph-level derived metric over two models' measures of the SAME name: after a.rev is expanded the code also replaces
   the bare word rev, which hits the rev of b.rev *)
Definition k2_env : list (string * mdef) :=
  [("g", MDerived (T "a.rev + b.rev") [DQual "a" "rev"; DQual "b" "rev"]); ("a.rev", MLeaf (T "SUM(a_cte.rev_raw)")); ("b.rev", MLeaf (T "SUM(b_cte.rev_raw)"))].
Example k2_refuted : option_map untok (build 3 k2_env [] "g") = Some "(SUM(a_cte.rev_raw)) + b.(SUM(a_cte.rev_raw))".
Proof. vm_compute. reflexivity. Qed.
(* the same formula with distinct measure names expands as intended *)
Definition ok_env : list (string * mdef) :=
  [("g", MDerived (T "a.rev + b.cost / rev_total") [DName "rev_total"; DQual "b" "cost"; DQual "a" "rev"]);
   ("a.rev", MLeaf (T "SUM(a_cte.rev_raw)")); ("b.cost", MLeaf (T "SUM(b_cte.cost_raw)")); ("rev_total", MRatio "a.rev" "b.cost")].
Example ok_expansion : option_map untok (build 4 ok_env [] "g") =
  Some "(SUM(a_cte.rev_raw)) + (SUM(b_cte.cost_raw)) / ((SUM(a_cte.rev_raw)) / NULLIF(SUM(b_cte.cost_raw), 0))".
Proof. vm_compute. reflexivity. Qed.
(* a concrete instance of the compositional theorem's hypotheses *)
Definition ex_rho : list (string * fexpr) :=
  [("gross_rev", FAdd (FRef "x") (FNum 2)); ("rev", ratio_f (FRef "x") (FRef "y"))].
Example ex_hyps : names_ok ex_rho = true /\ fresh (map (fun '(d, e) => (d, paren (render e))) ex_rho) = true /\
  untok (subst_seq (map (fun '(d, e) => (d, paren (render e))) ex_rho) (render (FSub (FRef "gross_rev") (FRef "rev")))) = "(x + 2) - ((x) / NULLIF(y, 0))".
Proof. vm_compute. repeat split; reflexivity. Qed.
