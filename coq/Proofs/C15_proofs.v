(* C15: iterating `sorted(set)` makes the emitted text independent of the set's internal (hash-seed dependent) order. *)
From Coq Require Import String Ascii List Bool Lia NArith Permutation Sorting.Sorted.
Require Import V.Model.Determ.
Import ListNotations.

(* ---------- String.leb is a total order ---------- *)
Lemma ascii_compare_lt_trans x y z : Ascii.compare x y = Lt -> Ascii.compare y z = Lt -> Ascii.compare x z = Lt.
Proof. unfold Ascii.compare. rewrite !N.compare_lt_iff. lia. Qed.
Lemma ascii_compare_eq x y : Ascii.compare x y = Eq -> x = y.
Proof. apply Ascii.compare_eq_iff. Qed.

Lemma compare_lt_trans : forall a b c, String.compare a b = Lt -> String.compare b c = Lt -> String.compare a c = Lt.
Proof.
  induction a as [|x a IH]; intros [|y b] [|z c]; cbn; try discriminate; auto.
  destruct (Ascii.compare x y) eqn:Exy; try discriminate.
  - apply ascii_compare_eq in Exy. subst y. destruct (Ascii.compare x z) eqn:Exz; try discriminate; auto. apply IH.
  - intros _. destruct (Ascii.compare y z) eqn:Eyz; try discriminate.
    + apply ascii_compare_eq in Eyz. subst z. rewrite Exy. reflexivity.
    + intros _. rewrite (ascii_compare_lt_trans _ _ _ Exy Eyz). reflexivity.
Qed.

Lemma leb_trans a b c : String.leb a b = true -> String.leb b c = true -> String.leb a c = true.
Proof.
  unfold String.leb. destruct (String.compare a b) eqn:Eab; try discriminate; intros _.
  - apply String.compare_eq_iff in Eab. subst b. auto.
  - destruct (String.compare b c) eqn:Ebc; try discriminate; intros _.
    + apply String.compare_eq_iff in Ebc. subst c. rewrite Eab. reflexivity.
    + rewrite (compare_lt_trans _ _ _ Eab Ebc). reflexivity.
Qed.

(* ---------- insertion sort: a sorted permutation ---------- *)
Definition le (a b : string) : Prop := String.leb a b = true.

Lemma insert_perm x l : Permutation (x :: l) (insert x l).
Proof.
  induction l as [|y r IH]; cbn; [reflexivity|]. destruct (String.leb x y); [reflexivity|].
  rewrite perm_swap. constructor. exact IH.
Qed.
Lemma sort_perm l : Permutation l (sort l).
Proof. induction l as [|x l IH]; cbn; [reflexivity|]. rewrite <- insert_perm. constructor. exact IH. Qed.

Lemma insert_sorted x l : StronglySorted le l -> StronglySorted le (insert x l).
Proof.
  induction l as [|y r IH]; intros H; cbn; [repeat constructor|].
  inversion H as [|? ? Hr Hy]; subst. destruct (String.leb x y) eqn:E.
  - constructor; [exact H|]. constructor; [exact E|]. rewrite Forall_forall in *. intros z Hz. eapply leb_trans; [exact E|apply Hy, Hz].
  - constructor; [apply IH, Hr|]. rewrite Forall_forall in *. intros z Hz.
    apply (Permutation_in _ (Permutation_sym (insert_perm x r))) in Hz. destruct Hz as [<-|Hz]; [|apply Hy, Hz].
    destruct (String.leb_total x y) as [H1|H1]; [congruence|exact H1].
Qed.
Lemma sort_sorted l : StronglySorted le (sort l).
Proof. induction l as [|x l IH]; cbn; [constructor|apply insert_sorted, IH]. Qed.

(* two sorted lists with the same elements are equal *)
Lemma sorted_perm_eq l1 : forall l2, StronglySorted le l1 -> StronglySorted le l2 -> Permutation l1 l2 -> l1 = l2.
Proof.
  induction l1 as [|x l1 IH]; intros l2 S1 S2 P.
  - apply Permutation_nil in P. subst. reflexivity.
  - destruct l2 as [|y l2]; [apply Permutation_sym, Permutation_nil in P; discriminate|].
    inversion S1 as [|? ? S1' F1]; inversion S2 as [|? ? S2' F2]; subst. rewrite Forall_forall in F1, F2.
    assert (x = y).
    { assert (In x (y :: l2)) as Hx by (eapply Permutation_in; [exact P|left; reflexivity]).
      assert (In y (x :: l1)) as Hy by (eapply Permutation_in; [apply Permutation_sym; exact P|left; reflexivity]).
      destruct Hx as [->|Hx]; [reflexivity|]. destruct Hy as [->|Hy]; [reflexivity|].
      apply String.leb_antisym; [apply F1, Hy|apply F2, Hx]. }
    subst y. f_equal. apply IH; auto. eapply Permutation_cons_inv; exact P.
Qed.

(* whatever order the set hands its elements over in, the sorted iteration is the same list, hence the same emitted text *)
Theorem sort_perm_invariant l1 l2 : Permutation l1 l2 -> sort l1 = sort l2.
Proof.
  intros P. apply sorted_perm_eq; try apply sort_sorted.
  rewrite <- (sort_perm l1), <- (sort_perm l2). exact P.
Qed.
Theorem emit_order_free f l1 l2 : Permutation l1 l2 -> emit f (sort l1) = emit f (sort l2).
Proof. intros P. rewrite (sort_perm_invariant _ _ P). reflexivity. Qed.

(* the raw iteration is NOT order free *)
Example raw_iteration_refuted : emit (fun s => s) ["orders"; "customers"] <> emit (fun s => s) ["customers"; "orders"].
Proof. cbn. discriminate. Qed.
Example sorted_example : sort ["orders"; "customers"; "items"] = ["customers"; "items"; "orders"] /\ sort ["items"; "orders"; "customers"] = ["customers"; "items"; "orders"].
Proof. split; reflexivity. Qed.
