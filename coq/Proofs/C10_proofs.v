(* C10: adjacency symmetry / provenance, and correctness, minimality, completeness of the path search on the adjacency model. *)
From Coq Require Import String List Bool Lia.
Require Import V.Base.PyLib V.Gen.RelKeys_gen V.Base.Bfs V.Model.Graph.
Import ListNotations.
Open Scope string_scope.

Lemma invert_invol t : invert_relationship (invert_relationship t) = t.
Proof.
  unfold invert_relationship.
  destruct (String.eqb_spec t "many_to_one") as [->|H1]; [reflexivity|].
  destruct (String.eqb_spec t "one_to_many") as [->|H2]; [reflexivity|].
  destruct (String.eqb_spec t "many_to_one"); [contradiction|].
  destruct (String.eqb_spec t "one_to_many"); [contradiction|reflexivity].
Qed.

(* reverse of a directed edge: swapped endpoints, swapped key lists, inverted cardinality *)
Definition rev (p : string * edge) : string * edge :=
  (e_to (snd p), mk (fst p) (e_to_keys (snd p)) (e_from_keys (snd p)) (invert_relationship (e_type (snd p)))).

Lemma rel_edges_closed g m r p : In p (rel_edges g m r) -> In (rev p) (rel_edges g m r).
Proof.
  unfold rel_edges. destruct (lookup g (r_name r)) as [related|]; [|intros []].
  destruct (String.eqb (r_type r) "many_to_many").
  - destruct (match r_through r with Some j => if String.eqb j "" then None else match lookup g j with Some _ => Some j | None => None end | None => None end) as [j|].
    + destruct (junction_keys (r_type r) (r_fk r) (r_tfk r) (r_rfk r)) as [js jr].
      destruct (negb (key_truthy js) || negb (optstr_truthy jr)); [intros []|].
      cbn. intros [<-|[<-|[<-|[<-|[]]]]]; unfold rev; cbn; auto.
    + destruct (key_truthy (r_fk r)); [|intros []]. cbn. intros [<-|[<-|[]]]; unfold rev; cbn; auto.
  - destruct (if String.eqb (r_type r) "many_to_one" then (fkc r, remote_pk r related) else (mpk m, fkc r)) as [local remote].
    cbn. intros [<-|[<-|[]]]; unfold rev; cbn; rewrite ?invert_invol; auto.
Qed.

Theorem adj_symmetric g p : In p (all_edges g) -> In (rev p) (all_edges g).
Proof.
  unfold all_edges. intros H. apply in_flat_map in H. destruct H as (m & Hm & H).
  apply in_flat_map in H. destruct H as (r & Hr & H).
  apply in_flat_map. exists m. split; [exact Hm|]. apply in_flat_map. exists r. split; [exact Hr|].
  apply rel_edges_closed. exact H.
Qed.

Lemma adj_in g a e : In e (adj g a) <-> In (a, e) (all_edges g).
Proof.
  unfold adj. rewrite in_map_iff. split.
  - intros ([a' e'] & <- & H). apply filter_In in H. destruct H as [H E]. cbn in E. apply String.eqb_eq in E. subst. exact H.
  - intros H. exists (a, e). split; [reflexivity|]. apply filter_In. split; [exact H|]. cbn. apply String.eqb_refl.
Qed.

Corollary adj_symmetric' g a e : In e (adj g a) ->
  In (mk a (e_to_keys e) (e_from_keys e) (invert_relationship (e_type e))) (adj g (e_to e)).
Proof. intros H. apply adj_in. apply adj_in in H. exact (adj_symmetric g (a, e) H). Qed.

(* provenance: every edge comes from a declared relationship of a registered model, whose target is registered,
   and has one of the shapes the declaration prescribes *)
Definition declared_shape (g : graph) (m : gmodel) (r : rel) (a : string) (e : edge) : Prop :=
  exists related, lookup g (r_name r) = Some related /\
  ( (* direct relationship, forward and reverse *)
    (r_type r <> "many_to_many" /\
       let local := if String.eqb (r_type r) "many_to_one" then fkc r else mpk m in
       let remote := if String.eqb (r_type r) "many_to_one" then remote_pk r related else fkc r in
       ((a = g_name m /\ e = mk (r_name r) local remote (r_type r)) \/
        (a = r_name r /\ e = mk (g_name m) remote local (invert_relationship (r_type r)))))
    \/ (* many_to_many without a registered junction: a one_to_many / many_to_one pair on the foreign key *)
    (r_type r = "many_to_many" /\ key_truthy (r_fk r) = true /\
       ((a = g_name m /\ e = mk (r_name r) (mpk m) (fkc r) "one_to_many") \/
        (a = r_name r /\ e = mk (g_name m) (fkc r) (mpk m) "many_to_one")))
    \/ (* many_to_many through a registered junction j: exactly the two-hop pair through j, both directions *)
    (r_type r = "many_to_many" /\ exists j jm sfk rfk, r_through r = Some j /\ lookup g j = Some jm /\
       fst (junction_keys (r_type r) (r_fk r) (r_tfk r) (r_rfk r)) = sfk /\ key_truthy sfk = true /\ r_rfk r = Some rfk /\
       ((a = g_name m /\ e = mk j (mpk m) [key_as_str sfk] "one_to_many") \/
        (a = j /\ e = mk (g_name m) [key_as_str sfk] (mpk m) "many_to_one") \/
        (a = j /\ e = mk (r_name r) [rfk] (remote_pk r related) "many_to_one") \/
        (a = r_name r /\ e = mk j (remote_pk r related) [rfk] "one_to_many")))).

Lemma junction_rfk r js jr : junction_keys (r_type r) (r_fk r) (r_tfk r) (r_rfk r) = (js, jr) ->
  r_type r = "many_to_many" -> jr = r_rfk r.
Proof.
  unfold junction_keys. intros H Ht. rewrite Ht in H. cbn in H. injection H as _ <-. reflexivity.
Qed.

Lemma rel_edges_shape g m r a e : In (a, e) (rel_edges g m r) -> declared_shape g m r a e.
Proof.
  unfold rel_edges, declared_shape. destruct (lookup g (r_name r)) as [related|] eqn:El; [|intros []].
  intros H. exists related. split; [reflexivity|].
  destruct (String.eqb_spec (r_type r) "many_to_many") as [Et|Et].
  - right.
    destruct (r_through r) as [j|] eqn:Ej.
    + destruct (String.eqb j "") eqn:Eje.
      * left. destruct (key_truthy (r_fk r)) eqn:Ek; [|destruct H].
        repeat split; auto. cbn in H. destruct H as [H|[H|[]]]; injection H as <- <-; auto.
      * destruct (lookup g j) as [jm|] eqn:Elj.
        -- right. destruct (junction_keys (r_type r) (r_fk r) (r_tfk r) (r_rfk r)) as [js jr] eqn:Ejk.
           pose proof (junction_rfk _ _ _ Ejk Et) as Hjr.
           destruct (key_truthy js) eqn:Eks; cbn [negb orb] in H; [|destruct H].
           destruct (optstr_truthy jr) eqn:Ekr; cbn [negb] in H; [|destruct H].
           destruct jr as [rfk|]; [|discriminate Ekr].
           split; [exact Et|]. exists j, jm, js, rfk. cbn [fst].
           repeat split; auto.
           cbn in H. destruct H as [H|[H|[H|[H|[]]]]]; injection H as <- <-; auto.
        -- left. destruct (key_truthy (r_fk r)) eqn:Ek; [|destruct H].
           repeat split; auto. cbn in H. destruct H as [H|[H|[]]]; injection H as <- <-; auto.
    + left. destruct (key_truthy (r_fk r)) eqn:Ek; [|destruct H].
      repeat split; auto. cbn in H. destruct H as [H|[H|[]]]; injection H as <- <-; auto.
  - left. split; [exact Et|].
    destruct (String.eqb (r_type r) "many_to_one"); cbn in H; destruct H as [H|[H|[]]]; injection H as <- <-; auto.
Qed.

Theorem edges_declared g a e : In e (adj g a) ->
  exists m r, In m g /\ In r (g_rels m) /\ declared_shape g m r a e.
Proof.
  intros H. apply adj_in in H. unfold all_edges in H. apply in_flat_map in H. destruct H as (m & Hm & H).
  apply in_flat_map in H. destruct H as (r & Hr & H). exists m, r. repeat split; auto using rel_edges_shape.
Qed.

(* ---------- the search ---------- *)
Notation gchain g := (chain string edge (succ_of g)).

Lemma string_eqb_spec : forall a b : string, reflect (a = b) (String.eqb a b).
Proof. exact String.eqb_spec. Qed.

Lemma lookup_in g n m : lookup g n = Some m -> In n (map g_name g).
Proof.
  induction g as [|x r IH]; cbn; [discriminate|].
  destruct (String.eqb_spec (g_name x) n); [intros _; left; assumption | intros H; right; auto].
Qed.

(* every successor is a registered model *)
Lemma rel_edges_registered g m r a e : In m g -> NoDup (map g_name g) -> In (a, e) (rel_edges g m r) -> In (e_to e) (map g_name g).
Proof.
  intros Hm _ H. apply rel_edges_shape in H. destruct H as (related & El & H).
  assert (Hmn : In (g_name m) (map g_name g)) by (apply in_map; exact Hm).
  pose proof (lookup_in _ _ _ El) as Hr.
  destruct H as [(_ & [[_ ->]|[_ ->]])|[(_ & _ & [[_ ->]|[_ ->]])|(_ & j & jm & sfk & rfk & _ & Hj & _ & _ & _ & H)]]; cbn; auto.
  pose proof (lookup_in _ _ _ Hj) as Hjn.
  destruct H as [[_ ->]|[[_ ->]|[[_ ->]|[_ ->]]]]; cbn; auto.
Qed.

Lemma succ_registered g : NoDup (map g_name g) -> forall x l y, In (l, y) (succ_of g x) -> In y (map g_name g).
Proof.
  intros Hnd x l y H. unfold succ_of in H. apply in_map_iff in H. destruct H as (e & E & He). injection E as <- <-.
  apply adj_in in He. unfold all_edges in He. apply in_flat_map in He. destruct He as (m & Hm & He).
  apply in_flat_map in He. destruct He as (r & Hr & He). eapply rel_edges_registered; eauto.
Qed.

Lemma has_model_in g a : has_model g a = true -> In a (map g_name g).
Proof. unfold has_model. destruct (lookup g a) eqn:E; [intros _; eapply lookup_in; eauto|discriminate]. Qed.

Theorem path_correct g a b p : find_relationship_path g a b = Path p ->
  gchain g a p b /\ forall p', gchain g a p' b -> length p <= length p'.
Proof.
  unfold find_relationship_path.
  destruct (String.eqb_spec a b) as [->|Hne].
  - intros H. injection H as <-. split; [constructor|intros; cbn; lia].
  - destruct (has_model g a); cbn [negb]; [|discriminate]. destruct (has_model g b); cbn [negb]; [|discriminate].
    pose proof (find_path_correct string String.eqb string_eqb_spec edge (succ_of g) (S (length g)) a b) as HC.
    destruct (find_path string String.eqb edge (succ_of g) (S (length g)) a b) as [q| |]; try discriminate.
    intros H. injection H as <-. exact HC.
Qed.

Theorem nopath_sound g a b : NoDup (map g_name g) -> find_relationship_path g a b = NoJoinPath -> forall p', ~ gchain g a p' b.
Proof.
  intros Hnd. unfold find_relationship_path.
  destruct (String.eqb_spec a b) as [->|Hne]; [discriminate|].
  destruct (has_model g a) eqn:Ha; cbn [negb]; [|discriminate]. destruct (has_model g b); cbn [negb]; [|discriminate].
  pose proof (find_path_correct string String.eqb string_eqb_spec edge (succ_of g) (S (length g)) a b) as HC.
  pose proof (find_path_total string String.eqb string_eqb_spec edge (succ_of g) (map g_name g) (succ_registered g Hnd) a b (has_model_in _ _ Ha)) as HT.
  rewrite map_length in HT.
  destruct (find_path string String.eqb edge (succ_of g) (S (length g)) a b) as [q| |]; try discriminate.
  - intros _. exact HC.
  - congruence.
Qed.

(* complete: a registered pair connected by some chain always gets a path (fuel never runs out) *)
Theorem path_complete g a b p' : NoDup (map g_name g) -> has_model g a = true -> has_model g b = true -> gchain g a p' b ->
  exists p, find_relationship_path g a b = Path p.
Proof.
  intros Hnd Ha Hb Hc. destruct (find_relationship_path g a b) as [p| |] eqn:E.
  - eauto.
  - exfalso. eapply nopath_sound; eauto.
  - exfalso. unfold find_relationship_path in E. destruct (String.eqb a b); [discriminate|].
    rewrite Ha, Hb in E. cbn in E. destruct (find_path _ _ _ _ _ _ _); discriminate.
Qed.

(* chains reverse: existence of a path is symmetric *)
Lemma chain_cons g a l y p b : In (l, y) (succ_of g a) -> gchain g y p b -> gchain g a ((a, l, y) :: p) b.
Proof.
  intros Hs Hc. induction Hc as [x|x p0 x0 l0 y0 Hc IH Hin].
  - change [(a, l, x)] with (([] ++ [(a, l, x)])%list). econstructor; [constructor|exact Hs].
  - change ((a, l, x) :: (p0 ++ [(x0, l0, y0)])%list) with ((((a, l, x) :: p0) ++ [(x0, l0, y0)])%list). econstructor; eauto.
Qed.

Lemma succ_rev g x l y : In (l, y) (succ_of g x) -> exists l', In (l', x) (succ_of g y).
Proof.
  unfold succ_of. intros H. apply in_map_iff in H. destruct H as (e & E & He). injection E as <- <-.
  apply adj_symmetric' in He. eexists. apply in_map_iff. eexists. split; [|exact He]. reflexivity.
Qed.

Theorem chain_symmetric g a b p : gchain g a p b -> exists p', gchain g b p' a /\ length p' = length p.
Proof.
  intros H. induction H as [x|x p0 x0 l0 y0 Hc IH Hin].
  - exists []. split; [constructor|reflexivity].
  - destruct IH as (q & Hq & Hl). destruct (succ_rev _ _ _ _ Hin) as (l' & Hl').
    exists ((y0, l', x0) :: q). split; [apply chain_cons; assumption|]. rewrite app_length. cbn. lia.
Qed.

Theorem path_exists_symmetric g a b : NoDup (map g_name g) -> has_model g a = true -> has_model g b = true ->
  (exists p, find_relationship_path g a b = Path p) <-> (exists p, find_relationship_path g b a = Path p).
Proof.
  intros Hnd Ha Hb. split; intros [p Hp].
  - apply path_correct in Hp. destruct Hp as [Hc _]. destruct (chain_symmetric _ _ _ _ Hc) as (q & Hq & _). eapply path_complete; eauto.
  - apply path_correct in Hp. destruct Hp as [Hc _]. destruct (chain_symmetric _ _ _ _ Hc) as (q & Hq & _). eapply path_complete; eauto.
Qed.

(* both directions have the same (minimal) number of hops *)
Theorem path_length_symmetric g a b p q : find_relationship_path g a b = Path p -> find_relationship_path g b a = Path q -> length p = length q.
Proof.
  intros Hp Hq. apply path_correct in Hp. apply path_correct in Hq. destruct Hp as [Cp Mp], Hq as [Cq Mq].
  destruct (chain_symmetric _ _ _ _ Cp) as (p' & Hp' & Lp). destruct (chain_symmetric _ _ _ _ Cq) as (q' & Hq' & Lq).
  specialize (Mp _ Hq'). specialize (Mq _ Hp'). lia.
Qed.

(* rejection: validate_query's join-path check lists every pair of registered query models that has no chain *)
Theorem unjoinable_reported g ms a b : NoDup (map g_name g) ->
  In (a, b) (pairs_after (filter (has_model g) ms)) -> a <> b -> (forall p, ~ gchain g a p b) -> In (a, b) (unjoinable_pairs g ms).
Proof.
  intros Hnd Hin Hne Hno. unfold unjoinable_pairs. apply filter_In. split; [exact Hin|]. cbn.
  destruct (find_relationship_path g a b) as [p| |] eqn:E; auto.
  exfalso. apply path_correct in E. destruct E as [Hc _]. exact (Hno _ Hc).
Qed.
Theorem joinable_when_accepted g ms a b : unjoinable_pairs g ms = [] ->
  In (a, b) (pairs_after (filter (has_model g) ms)) -> exists p, gchain g a p b.
Proof.
  intros He Hin. unfold unjoinable_pairs in He.
  destruct (find_relationship_path g a b) as [p| |] eqn:E.
  - exists p. apply path_correct in E. tauto.
  - exfalso. assert (In (a, b) []) as []. rewrite <- He. apply filter_In. split; [exact Hin|]. cbn. rewrite E. reflexivity.
  - exfalso. assert (In (a, b) []) as []. rewrite <- He. apply filter_In. split; [exact Hin|]. cbn. rewrite E. reflexivity.
Qed.

(* non-vacuity: a three-model graph with a junction, where the path goes through the junction in both directions *)
Definition ex_graph : graph :=
  [ {| g_name := "orders"; g_pk := KStr "id"; g_rels := [ {| r_name := "customers"; r_type := "many_to_one"; r_fk := KNone; r_pk := KNone; r_through := None; r_tfk := None; r_rfk := None |};
                                                           {| r_name := "tags"; r_type := "many_to_many"; r_fk := KNone; r_pk := KNone; r_through := Some "order_tags"; r_tfk := Some "order_id"; r_rfk := Some "tag_id" |} ] |};
    {| g_name := "customers"; g_pk := KStr "id"; g_rels := [] |};
    {| g_name := "tags"; g_pk := KList ["k1"; "k2"]; g_rels := [] |};
    {| g_name := "order_tags"; g_pk := KStr "id"; g_rels := [] |} ].
Example ex_path : find_relationship_path ex_graph "customers" "tags" =
  Path [ ("customers", mk "orders" ["id"] ["customers_id"] "one_to_many", "orders");
         ("orders", mk "order_tags" ["id"] ["order_id"] "one_to_many", "order_tags");
         ("order_tags", mk "tags" ["tag_id"] ["k1"; "k2"] "many_to_one", "tags") ].
Proof. vm_compute. reflexivity. Qed.

(* declaring a relationship as many_to_one on the child, or as one_to_many on the parent with the same key, yields the same edges *)
Theorem side_invariant g a b f : lookup g (g_name a) = Some a -> lookup g (g_name b) = Some b ->
  let ra := {| r_name := g_name b; r_type := "many_to_one"; r_fk := KStr f; r_pk := KNone; r_through := None; r_tfk := None; r_rfk := None |} in
  let rb := {| r_name := g_name a; r_type := "one_to_many"; r_fk := KStr f; r_pk := KNone; r_through := None; r_tfk := None; r_rfk := None |} in
  forall e, In e (rel_edges g a ra) <-> In e (rel_edges g b rb).
Proof.
  intros Ha Hb ra rb e. unfold rel_edges. cbn [r_name r_type ra rb]. rewrite Ha, Hb. cbn [String.eqb Ascii.eqb Bool.eqb].
  unfold fkc, remote_pk. cbn [r_name r_type r_fk r_pk key_truthy]. cbn. tauto.
Qed.
