(* Lemmas about Model/CteShape.v (the projection of a model CTE): the model equals the regenerated table of _build_model_cte on every row; and, for EVERY model
   definition, graph, query and helper functions: the names already projected only grow, nothing is projected twice, every requested dimension of the model is
   projected (with its granularity alias when one is asked for), a dimension that is not a key column is projected with its own SQL, the join keys are projected,
   and a metric's filter only changes that metric's raw column. *)
From Coq Require Import String Ascii List Bool Arith Lia.
Require Import V.Base.PyLib V.Model.Valid V.Model.Required V.Model.TryRoute V.Model.Preagg V.Model.CteShape V.Gen.CteShape_gen.
Import ListNotations.
Open Scope string_scope.

Lemma cte_table_holds : forallb (cte_row_ok cte_world) cte_rows = true.
Proof. vm_compute. reflexivity. Qed.

Lemma mem_In x l : mem x l = true <-> In x l.
Proof.
  unfold mem. rewrite existsb_exists. split.
  - intros [y [Hy He]]. apply String.eqb_eq in He. subst. exact Hy.
  - intros H. exists x. split; [exact H | apply String.eqb_refl].
Qed.
Lemma mem_false x l : mem x l = false <-> ~ In x l.
Proof. rewrite <- mem_In. destruct (mem x l); split; intros; try congruence; try (exfalso; auto). Qed.
Lemma remove_s_In x y l : In y (remove_s x l) <-> In y l /\ y <> x.
Proof.
  induction l as [|z l IH]; simpl.
  - tauto.
  - destruct (String.eqb x z) eqn:E.
    + apply String.eqb_eq in E. subst z. rewrite IH. split.
      * intros [H1 H2]. split; [right; exact H1 | exact H2].
      * intros [[H1 | H1] H2]; [congruence | split; assumption].
    + apply String.eqb_neq in E. simpl. rewrite IH. split.
      * intros [H | [H1 H2]]; [subst; split; [left; reflexivity | congruence] | split; [right; exact H1 | exact H2]].
      * intros [[H1 | H1] H2]; [left; exact H1 | right; split; assumption].
Qed.

Section Proofs.
  Variable qa : string -> string.
  Variable trunc : string -> string -> string.
  Variable parse : string -> option (list (string * string)).

  (* s' extends s: names only grow; a needed dimension stays needed unless it was projected; items are appended; nothing becomes needed *)
  Definition ext (s s' : st) : Prop :=
    incl (st_added s) (st_added s') /\
    (forall x, In x (st_needed s) -> In x (st_needed s') \/ In x (st_added s')) /\
    (exists more, st_items s' = (st_items s ++ more)%list) /\
    (forall x, In x (st_needed s') -> In x (st_needed s)).
  Lemma ext_refl s : ext s s.
  Proof. repeat split; auto using incl_refl. exists []. rewrite app_nil_r. reflexivity. Qed.
  Lemma ext_trans a b c : ext a b -> ext b c -> ext a c.
  Proof.
    intros (A1 & A2 & [m1 A3] & A4) (B1 & B2 & [m2 B3] & B4). repeat split.
    - eapply incl_tran; eassumption.
    - intros x Hx. destruct (A2 x Hx) as [H | H]; [apply B2; exact H | right; apply B1; exact H].
    - exists (m1 ++ m2)%list. rewrite B3, A3, app_assoc. reflexivity.
    - intros x Hx. apply A4, B4, Hx.
  Qed.

  Lemma add_key_ext b s k : ext s (add_key qa b s k).
  Proof.
    destruct s as [[items added] needed]. unfold add_key. destruct (mem k added) eqn:E; [apply ext_refl|].
    unfold ext, st_added, st_needed, st_items; simpl. repeat split.
    - apply incl_tl, incl_refl.
    - intros x Hx. destruct b; [|left; exact Hx]. destruct (string_dec x k) as [->|N]; [right; left; reflexivity | left; apply remove_s_In; split; assumption].
    - eexists; reflexivity.
    - intros x Hx. destruct b; [apply remove_s_In in Hx; tauto | exact Hx].
  Qed.
  Lemma add_key_in b s k : In k (st_added (add_key qa b s k)).
  Proof.
    destruct s as [[items added] needed]. unfold add_key. destruct (mem k added) eqn:E.
    - apply mem_In in E. exact E.
    - unfold st_added; simpl. left; reflexivity.
  Qed.
  Lemma add_item_ext s key e : ext s (add_item qa s key e).
  Proof.
    destruct s as [[items added] needed]. unfold add_item, ext, st_added, st_needed, st_items; simpl. repeat split; auto.
    - apply incl_tl, incl_refl.
    - eexists; reflexivity.
  Qed.
  Lemma fold_ext {A} (f : st -> A -> st) (l : list A) : (forall s x, ext s (f s x)) -> forall s, ext s (fold_left f l s).
  Proof.
    intros Hf. induction l as [|x l IH]; intros s; simpl; [apply ext_refl|].
    eapply ext_trans; [apply Hf | apply IH].
  Qed.
  Lemma fold_add_key_in b l k : In k l -> forall s, In k (st_added (fold_left (add_key qa b) l s)).
  Proof.
    induction l as [|x l IH]; simpl; intros H s; [contradiction|]. destruct H as [-> | H].
    - pose proof (fold_ext (add_key qa b) l (add_key_ext b) (add_key qa b s k)) as (E & _). apply E, add_key_in.
    - apply IH, H.
  Qed.

  (* ---- every phase extends the state *)
  Lemma fk_phase_ext m am s : ext s (fk_phase qa m am s).
  Proof.
    unfold fk_phase. apply fold_ext. intros s0 r. destruct (String.eqb (cr_type r) "many_to_one"); [|apply ext_refl].
    apply fold_ext. intros s1 fk. match goal with |- context [if ?c then _ else _] => destruct c end; [apply add_key_ext | apply ext_refl].
  Qed.
  Lemma incoming_phase_ext mn g am s : ext s (incoming_phase qa mn g am s).
  Proof.
    unfold incoming_phase. apply fold_ext. intros s0 om. destruct (mem (fst om) am); [|apply ext_refl].
    apply fold_ext. intros s1 r. match goal with |- context [if ?c then _ else _] => destruct c end; [|apply ext_refl].
    apply fold_ext. intros; apply add_key_ext.
  Qed.
  Lemma junction_phase_ext mn g am s : ext s (junction_phase qa mn g am s).
  Proof.
    unfold junction_phase. apply fold_ext. intros s0 om. destruct (mem (fst om) am); [|apply ext_refl].
    apply fold_ext. intros s1 r. match goal with |- context [if ?c then _ else _] => destruct c end; [|apply ext_refl].
    apply fold_ext. intros s2 k. destruct (opt_truthy k); [apply add_key_ext | apply ext_refl].
  Qed.
  Lemma key_phases_ext m g am jk s : ext s (key_phases qa m g am jk s).
  Proof.
    unfold key_phases.
    eapply ext_trans; [apply (fold_ext (add_key qa false)); intros; apply add_key_ext|].
    eapply ext_trans; [apply fk_phase_ext|].
    eapply ext_trans; [|apply (fold_ext (add_key qa true)); intros; apply add_key_ext].
    destruct (Nat.ltb 1 (length am)); [|apply ext_refl].
    eapply ext_trans; [apply incoming_phase_ext | apply junction_phase_ext].
  Qed.
  Lemma dim_phase_ext m s : ext s (dim_phase qa trunc m s).
  Proof.
    unfold dim_phase. apply fold_ext. intros s0 d. match goal with |- context [if ?c then _ else _] => destruct c end; [apply add_item_ext | apply ext_refl].
  Qed.
  Lemma gran_phase_ext m dims s : ext s (gran_phase qa trunc m dims s).
  Proof.
    unfold gran_phase. apply fold_ext. intros s0 dg. destruct (starts_with (mo_name m ++ ".") (fst dg)); [|apply ext_refl].
    destruct (get_dim (mo_dims m) (second_piece (fst dg))); [|apply ext_refl]. destruct (snd dg); [|apply ext_refl].
    match goal with |- context [if ?c then _ else _] => destruct c end; [apply add_item_ext | apply ext_refl].
  Qed.
  Lemma extra_phase_ext m cols s : ext s (extra_phase qa m cols s).
  Proof.
    unfold extra_phase. apply fold_ext. intros s0 c. destruct (mem c (st_added s0)); [apply ext_refl|].
    destruct (get_dim (mo_dims m) c); [apply add_item_ext|]. destruct (get_met (mo_mets m) c); [apply ext_refl | apply add_item_ext].
  Qed.

  (* ---- nothing is projected twice under the same name; aliases are the quoted names, in order *)
  Definition wf (s : st) : Prop := NoDup (st_added s) /\ map snd (st_items s) = map qa (rev (st_added s)).
  Lemma add_key_wf b s k : wf s -> wf (add_key qa b s k).
  Proof.
    destruct s as [[items added] needed]. unfold add_key, wf, st_added, st_items. simpl. intros [H1 H2]. destruct (mem k added) eqn:E; simpl; [split; assumption|].
    apply mem_false in E. split; [constructor; assumption|]. rewrite map_app, H2, map_app. reflexivity.
  Qed.
  Lemma add_item_wf s key e : wf s -> ~ In key (st_added s) -> wf (add_item qa s key e).
  Proof.
    destruct s as [[items added] needed]. unfold add_item, wf, st_added, st_items. simpl. intros [H1 H2] N.
    split; [constructor; assumption|]. rewrite map_app, H2, map_app. reflexivity.
  Qed.
  Lemma fold_wf {A} (f : st -> A -> st) (l : list A) : (forall s x, wf s -> wf (f s x)) -> forall s, wf s -> wf (fold_left f l s).
  Proof. intros Hf. induction l as [|x l IH]; intros s H; simpl; [exact H | apply IH, Hf, H]. Qed.
  Lemma key_phases_wf m g am jk s : wf s -> wf (key_phases qa m g am jk s).
  Proof.
    intros H. unfold key_phases.
    apply fold_wf; [intros; apply add_key_wf; assumption|].
    assert (H2 : wf (fk_phase qa m am (fold_left (add_key qa false) (mo_pk m) s))).
    { unfold fk_phase. apply fold_wf; [|apply fold_wf; [intros; apply add_key_wf; assumption | exact H]].
      intros s0 r H0. destruct (String.eqb (cr_type r) "many_to_one"); [|exact H0].
      apply fold_wf; [|exact H0]. intros s1 fk H1. match goal with |- context [if ?c then _ else _] => destruct c end; [apply add_key_wf|]; assumption. }
    destruct (Nat.ltb 1 (length am)); [|exact H2].
    unfold junction_phase. apply fold_wf.
    - intros s0 om H0. destruct (mem (fst om) am); [|exact H0]. apply fold_wf; [|exact H0].
      intros s1 r H1. match goal with |- context [if ?c then _ else _] => destruct c end; [|exact H1].
      apply fold_wf; [|exact H1]. intros s2 k H3. destruct (opt_truthy k); [apply add_key_wf|]; assumption.
    - unfold incoming_phase. apply fold_wf; [|exact H2].
      intros s0 om H0. destruct (mem (fst om) am); [|exact H0]. apply fold_wf; [|exact H0].
      intros s1 r H1. match goal with |- context [if ?c then _ else _] => destruct c end; [|exact H1].
      apply fold_wf; [|exact H1]. intros; apply add_key_wf; assumption.
  Qed.
  Lemma dim_phase_wf m s : wf s -> wf (dim_phase qa trunc m s).
  Proof.
    unfold dim_phase. apply fold_wf. intros s0 d H0.
    destruct (mem (cd_name d) (st_needed s0) && negb (mem (cd_name d) (st_added s0))) eqn:E; [|exact H0].
    apply andb_prop in E. destruct E as [_ E]. apply negb_true_iff, mem_false in E. apply add_item_wf; assumption.
  Qed.
  Lemma gran_phase_wf m dims s : wf s -> wf (gran_phase qa trunc m dims s).
  Proof.
    unfold gran_phase. apply fold_wf. intros s0 dg H0. destruct (starts_with (mo_name m ++ ".") (fst dg)); [|exact H0].
    destruct (get_dim (mo_dims m) (second_piece (fst dg))); [|exact H0]. destruct (snd dg) as [g|]; [|exact H0].
    match goal with |- context [if ?c then _ else _] => destruct c eqn:E end; [|exact H0].
    apply andb_prop in E. destruct E as [_ E]. apply negb_true_iff, mem_false in E. apply add_item_wf; assumption.
  Qed.
  Lemma extra_phase_wf m cols s : wf s -> wf (extra_phase qa m cols s).
  Proof.
    unfold extra_phase. apply fold_wf. intros s0 c H0. destruct (mem c (st_added s0)) eqn:E; [exact H0|]. apply mem_false in E.
    destruct (get_dim (mo_dims m) c); [apply add_item_wf; assumption|]. destruct (get_met (mo_mets m) c); [exact H0 | apply add_item_wf; assumption].
  Qed.
  Lemma wf_init needed : wf ([], [], needed).
  Proof. split; [constructor | reflexivity]. Qed.

  Lemma cte_keys_dims_wf m g dims filters order_by am mfc jk : wf (cte_keys_dims qa trunc parse m g dims filters order_by am mfc jk).
  Proof. unfold cte_keys_dims. apply gran_phase_wf, dim_phase_wf, key_phases_wf, wf_init. Qed.

  (* ---- the needed dimensions of the model are projected *)
  Lemma get_dim_name ds n d : get_dim ds n = Some d -> cd_name d = n.
  Proof. induction ds as [|x r IH]; simpl; [discriminate|]. destruct (String.eqb (cd_name x) n) eqn:E; [intros H; inversion H; subst; apply String.eqb_eq, E | exact IH]. Qed.

  Lemma dim_fold_adds m ds : forall s dn d, get_dim ds dn = Some d -> In dn (st_needed s) ->
    In dn (st_added (fold_left (fun s d => if mem (cd_name d) (st_needed s) && negb (mem (cd_name d) (st_added s)) then add_item qa s (cd_name d) (dim_expr trunc m d) else s) ds s)).
  Proof.
    induction ds as [|d0 r IH]; intros s dn d Hg Hn; simpl in *; [discriminate|].
    set (step := fun s d => if mem (cd_name d) (st_needed s) && negb (mem (cd_name d) (st_added s)) then add_item qa s (cd_name d) (dim_expr trunc m d) else s) in *.
    assert (Hstep : forall s x, ext s (step s x)).
    { intros s1 x. unfold step. match goal with |- context [if ?c then _ else _] => destruct c end; [apply add_item_ext | apply ext_refl]. }
    destruct (String.eqb (cd_name d0) dn) eqn:E.
    - apply String.eqb_eq in E. destruct (fold_ext step r Hstep (step s d0)) as (Hincl & _). apply Hincl.
      unfold step. rewrite E. apply mem_In in Hn. rewrite Hn. simpl. destruct (mem dn (st_added s)) eqn:Ea; simpl.
      + apply mem_In, Ea.
      + destruct s as [[items added] needed]. unfold add_item, st_added. simpl. left; reflexivity.
    - destruct (Hstep s d0) as (_ & Hkeep & _). destruct (Hkeep dn Hn) as [H | H].
      + eapply IH; eassumption.
      + destruct (fold_ext step r Hstep (step s d0)) as (Hincl & _). apply Hincl, H.
  Qed.

  Lemma dim_fold_own_sql m ds : forall s dn d, get_dim ds dn = Some d -> In dn (st_needed s) -> ~ In dn (st_added s) ->
    In (dim_expr trunc m d, qa dn)
       (st_items (fold_left (fun s d => if mem (cd_name d) (st_needed s) && negb (mem (cd_name d) (st_added s)) then add_item qa s (cd_name d) (dim_expr trunc m d) else s) ds s)).
  Proof.
    induction ds as [|d0 r IH]; intros s dn d Hg Hn Ha; simpl in *; [discriminate|].
    set (step := fun s d => if mem (cd_name d) (st_needed s) && negb (mem (cd_name d) (st_added s)) then add_item qa s (cd_name d) (dim_expr trunc m d) else s) in *.
    assert (Hstep : forall s x, ext s (step s x)).
    { intros s1 x. unfold step. match goal with |- context [if ?c then _ else _] => destruct c end; [apply add_item_ext | apply ext_refl]. }
    destruct (String.eqb (cd_name d0) dn) eqn:E.
    - apply String.eqb_eq in E. inversion Hg; subst d0. match goal with |- context [fold_left step r ?x] => change x with (step s d) end. destruct (fold_ext step r Hstep (step s d)) as (_ & _ & [more Hm] & _). rewrite Hm. apply in_or_app. left.
      unfold step. rewrite E. pose proof Hn as Hn'. apply mem_In in Hn'. rewrite Hn'. apply mem_false in Ha. rewrite Ha. simpl.
      destruct s as [[items added] needed]. unfold add_item, st_items. simpl. apply in_or_app. right. left. reflexivity.
    - apply String.eqb_neq in E. apply IH; [exact Hg | |].
      + unfold step. match goal with |- context [if ?c then _ else _] => destruct c end; [|exact Hn]. destruct s as [[items added] needed]. exact Hn.
      + unfold step. match goal with |- context [if ?c then _ else _] => destruct c end; [|exact Ha]. destruct s as [[items added] needed]. unfold add_item, st_added. simpl.
        intros [H | H]; [congruence | apply Ha, H].
  Qed.

  Lemma fold_reaches {A} (f : st -> A -> st) (l : list A) (x : A) (k : string) :
    (forall s y, ext s (f s y)) -> In x l -> (forall s, In k (st_added (f s x))) -> forall s, In k (st_added (fold_left f l s)).
  Proof.
    intros Hf Hin Hx. induction l as [|y r IH]; intros s; [contradiction|]. cbn [fold_left]. destruct Hin as [-> | Hin]; [|apply IH, Hin].
    destruct (fold_ext f r Hf (f s x)) as (Hincl & _). apply Hincl, Hx.
  Qed.
  Definition gran_step (m : cmodel) (s : st) (dg : string * option string) : st :=
    if starts_with (mo_name m ++ ".") (fst dg) then
      let dn := second_piece (fst dg) in
      match get_dim (mo_dims m) dn, snd dg with
      | Some d, Some g => if str_truthy g && String.eqb (cd_type d) "time" && negb (mem (dn ++ "__" ++ g) (st_added s))
                          then add_item qa s (dn ++ "__" ++ g) (trunc g (replace_placeholder m (cd_sql d))) else s
      | _, _ => s
      end
    else s.
  Lemma gran_phase_is_fold m dims s : gran_phase qa trunc m dims s = fold_left (gran_step m) dims s.
  Proof. reflexivity. Qed.
  Lemma gran_step_ext m s dg : ext s (gran_step m s dg).
  Proof.
    unfold gran_step. destruct (starts_with (mo_name m ++ ".") (fst dg)); [|apply ext_refl].
    destruct (get_dim (mo_dims m) (second_piece (fst dg))); [|apply ext_refl]. destruct (snd dg); [|apply ext_refl].
    match goal with |- context [if ?c then _ else _] => destruct c end; [apply add_item_ext | apply ext_refl].
  Qed.
  Lemma gran_fold_adds m : forall dims s dref g d, In (dref, Some g) dims -> starts_with (mo_name m ++ ".") dref = true ->
    get_dim (mo_dims m) (second_piece dref) = Some d -> cd_type d = "time" -> g <> "" ->
    In (second_piece dref ++ "__" ++ g) (st_added (gran_phase qa trunc m dims s)).
  Proof.
    intros dims s dref g d Hin Hs Hg Ht Hne. rewrite gran_phase_is_fold.
    apply (fold_reaches (gran_step m) dims (dref, Some g)); [intros; apply gran_step_ext | exact Hin |].
    intros s1. unfold gran_step. cbn [fst snd]. rewrite Hs, Hg, Ht.
    assert (Hg' : str_truthy g = true) by (unfold str_truthy; apply negb_true_iff, String.eqb_neq, Hne). rewrite Hg'. rewrite String.eqb_refl. cbn [andb].
    destruct (mem (second_piece dref ++ "__" ++ g) (st_added s1)) eqn:E; cbn [negb].
    - apply mem_In, E.
    - destruct s1 as [[items added] needed]. unfold add_item, st_added. cbn [fst snd]. left; reflexivity.
  Qed.

  Lemma needed_of_requested mn dims filters order_by mfc dref g :
    In (dref, g) dims -> starts_with (mn ++ ".") dref = true -> In (second_piece dref) (needed_dims parse mn dims filters order_by mfc).
  Proof.
    intros Hin Hs. unfold needed_dims. apply in_or_app. left. apply in_flat_map. exists (dref, g). split; [exact Hin|]. simpl. rewrite Hs. left; reflexivity.
  Qed.

  (* every requested dimension of the model is projected under its own name ... *)
  Lemma requested_dimension_projected m gr dims filters order_by am mfc jk dref g d :
    In (dref, g) dims -> starts_with (mo_name m ++ ".") dref = true -> get_dim (mo_dims m) (second_piece dref) = Some d ->
    In (second_piece dref) (st_added (cte_keys_dims qa trunc parse m gr dims filters order_by am mfc jk)).
  Proof.
    intros Hin Hs Hg. unfold cte_keys_dims.
    set (am' := match am with [] => [mo_name m] | _ => am end).
    set (s0 := ([], [], needed_dims parse (mo_name m) dims filters order_by mfc) : st).
    destruct (gran_phase_ext m dims (dim_phase qa trunc m (key_phases qa m gr am' jk s0))) as (Hincl & _). apply Hincl.
    destruct (key_phases_ext m gr am' jk s0) as (_ & Hkeep & _).
    destruct (Hkeep (second_piece dref)) as [H | H]; [eapply needed_of_requested; eassumption | |].
    - unfold dim_phase. eapply dim_fold_adds; eassumption.
    - destruct (dim_phase_ext m (key_phases qa m gr am' jk s0)) as (Hincl2 & _). apply Hincl2, H.
  Qed.
  (* ... and, when a granularity of a time dimension is asked for, under <name>__<granularity> as well *)
  Lemma requested_granularity_projected m gr dims filters order_by am mfc jk dref g d :
    In (dref, Some g) dims -> starts_with (mo_name m ++ ".") dref = true -> get_dim (mo_dims m) (second_piece dref) = Some d -> cd_type d = "time" -> g <> "" ->
    In (second_piece dref ++ "__" ++ g) (st_added (cte_keys_dims qa trunc parse m gr dims filters order_by am mfc jk)).
  Proof. intros. unfold cte_keys_dims. eapply gran_fold_adds; eassumption. Qed.

  (* a requested dimension that is not one of the key columns the CTE projects is projected with ITS OWN SQL *)
  Lemma non_key_dimension_own_sql m gr dims filters order_by am mfc jk dref g d :
    In (dref, g) dims -> starts_with (mo_name m ++ ".") dref = true -> get_dim (mo_dims m) (second_piece dref) = Some d ->
    ~ In (second_piece dref) (st_added (key_phases qa m gr (match am with [] => [mo_name m] | _ => am end) jk ([], [], needed_dims parse (mo_name m) dims filters order_by mfc))) ->
    In (dim_expr trunc m d, qa (second_piece dref)) (st_items (cte_keys_dims qa trunc parse m gr dims filters order_by am mfc jk)).
  Proof.
    intros Hin Hs Hg Hk. unfold cte_keys_dims.
    set (am' := match am with [] => [mo_name m] | _ => am end) in *.
    set (s0 := ([], [], needed_dims parse (mo_name m) dims filters order_by mfc) : st) in *.
    destruct (gran_phase_ext m dims (dim_phase qa trunc m (key_phases qa m gr am' jk s0))) as (_ & _ & [more Hm] & _). rewrite Hm. apply in_or_app. left.
    destruct (key_phases_ext m gr am' jk s0) as (_ & Hkeep & _).
    destruct (Hkeep (second_piece dref)) as [H | H]; [eapply needed_of_requested; eassumption | | contradiction].
    unfold dim_phase. apply dim_fold_own_sql; assumption.
  Qed.

  (* the key columns: primary key, the join keys of the query's paths *)
  Lemma primary_key_projected m gr dims filters order_by am mfc jk k :
    In k (mo_pk m) -> In k (st_added (cte_keys_dims qa trunc parse m gr dims filters order_by am mfc jk)).
  Proof.
    intros Hk. unfold cte_keys_dims.
    set (am' := match am with [] => [mo_name m] | _ => am end).
    set (s0 := ([], [], needed_dims parse (mo_name m) dims filters order_by mfc) : st).
    destruct (gran_phase_ext m dims (dim_phase qa trunc m (key_phases qa m gr am' jk s0))) as (Hi1 & _). apply Hi1.
    destruct (dim_phase_ext m (key_phases qa m gr am' jk s0)) as (Hi2 & _). apply Hi2.
    unfold key_phases.
    match goal with |- In k (st_added (fold_left ?f ?l ?s9)) => destruct (fold_ext f l (add_key_ext true) s9) as (Hi3 & _); apply Hi3 end.
    assert (H1 : In k (st_added (fold_left (add_key qa false) (mo_pk m) s0))) by (apply fold_add_key_in, Hk).
    destruct (fk_phase_ext m am' (fold_left (add_key qa false) (mo_pk m) s0)) as (Hi4 & _). apply Hi4 in H1.
    destruct (Nat.ltb 1 (length am')); [|exact H1].
    destruct (incoming_phase_ext (mo_name m) gr am' (fk_phase qa m am' (fold_left (add_key qa false) (mo_pk m) s0))) as (Hi5 & _).
    destruct (junction_phase_ext (mo_name m) gr am' (incoming_phase qa (mo_name m) gr am' (fk_phase qa m am' (fold_left (add_key qa false) (mo_pk m) s0)))) as (Hi6 & _).
    apply Hi6, Hi5, H1.
  Qed.
  (* the foreign key of the model's own many_to_one relationship to another model of the query *)
  Lemma foreign_key_projected m gr dims filters order_by am mfc jk r fk :
    In r (mo_rels m) -> cr_type r = "many_to_one" -> In fk (cr_fks r) -> 1 < length am -> In (cr_name r) am ->
    In fk (st_added (cte_keys_dims qa trunc parse m gr dims filters order_by am mfc jk)).
  Proof.
    intros Hr Ht Hfk Hlen Hin. unfold cte_keys_dims.
    assert (Ham : match am with [] => [mo_name m] | _ => am end = am) by (destruct am; [simpl in Hlen; inversion Hlen | reflexivity]). rewrite Ham.
    set (s0 := ([], [], needed_dims parse (mo_name m) dims filters order_by mfc) : st).
    destruct (gran_phase_ext m dims (dim_phase qa trunc m (key_phases qa m gr am jk s0))) as (Hi1 & _). apply Hi1.
    destruct (dim_phase_ext m (key_phases qa m gr am jk s0)) as (Hi2 & _). apply Hi2.
    unfold key_phases.
    match goal with |- In fk (st_added (fold_left ?f ?l ?s9)) => destruct (fold_ext f l (add_key_ext true) s9) as (Hi3 & _); apply Hi3 end.
    assert (H1 : In fk (st_added (fk_phase qa m am (fold_left (add_key qa false) (mo_pk m) s0)))).
    { unfold fk_phase.
      apply (fold_reaches _ (mo_rels m) r fk).
      - intros s1 r1. destruct (String.eqb (cr_type r1) "many_to_one"); [|apply ext_refl].
        apply fold_ext. intros s2 f2. match goal with |- context [if ?c then _ else _] => destruct c end; [apply add_key_ext | apply ext_refl].
      - exact Hr.
      - intros s1. rewrite Ht, String.eqb_refl.
        apply (fold_reaches _ (cr_fks r) fk fk).
        + intros s2 f2. match goal with |- context [if ?c then _ else _] => destruct c end; [apply add_key_ext | apply ext_refl].
        + exact Hfk.
        + intros s2. apply Nat.ltb_lt in Hlen. rewrite Hlen. apply mem_In in Hin. rewrite Hin. cbn [andb orb].
          destruct (mem fk (st_added s2)) eqn:E; cbn [negb]; [apply mem_In, E | apply add_key_in]. }
    destruct (Nat.ltb 1 (length am)); [|exact H1].
    destruct (incoming_phase_ext (mo_name m) gr am (fk_phase qa m am (fold_left (add_key qa false) (mo_pk m) s0))) as (Hi5 & _).
    destruct (junction_phase_ext (mo_name m) gr am (incoming_phase qa (mo_name m) gr am (fk_phase qa m am (fold_left (add_key qa false) (mo_pk m) s0)))) as (Hi6 & _).
    apply Hi6, Hi5, H1.
  Qed.
  (* the foreign key another model of the query expects on this model (its one_to_many / one_to_one relationship names this model) *)
  Lemma incoming_foreign_key_projected m gr dims filters order_by am mfc jk om r fk :
    In om gr -> In (fst om) am -> In r (snd om) -> cr_name r = mo_name m -> (cr_type r = "one_to_many" \/ cr_type r = "one_to_one") -> In fk (cr_fks r) -> 1 < length am ->
    In fk (st_added (cte_keys_dims qa trunc parse m gr dims filters order_by am mfc jk)).
  Proof.
    intros Hom Hin Hr Hn Ht Hfk Hlen. unfold cte_keys_dims.
    assert (Ham : match am with [] => [mo_name m] | _ => am end = am) by (destruct am; [simpl in Hlen; inversion Hlen | reflexivity]). rewrite Ham.
    set (s0 := ([], [], needed_dims parse (mo_name m) dims filters order_by mfc) : st).
    destruct (gran_phase_ext m dims (dim_phase qa trunc m (key_phases qa m gr am jk s0))) as (Hi1 & _). apply Hi1.
    destruct (dim_phase_ext m (key_phases qa m gr am jk s0)) as (Hi2 & _). apply Hi2.
    unfold key_phases.
    match goal with |- In fk (st_added (fold_left ?f ?l ?s9)) => destruct (fold_ext f l (add_key_ext true) s9) as (Hi3 & _); apply Hi3 end.
    apply Nat.ltb_lt in Hlen. rewrite Hlen.
    set (s2 := fk_phase qa m am (fold_left (add_key qa false) (mo_pk m) s0)).
    destruct (junction_phase_ext (mo_name m) gr am (incoming_phase qa (mo_name m) gr am s2)) as (Hi6 & _). apply Hi6.
    unfold incoming_phase.
    apply (fold_reaches _ gr om fk).
    - intros s1 o1. destruct (mem (fst o1) am); [|apply ext_refl]. apply fold_ext. intros s3 r3.
      match goal with |- context [if ?c then _ else _] => destruct c end; [|apply ext_refl]. apply fold_ext. intros; apply add_key_ext.
    - exact Hom.
    - intros s1. apply mem_In in Hin. rewrite Hin.
      apply (fold_reaches _ (snd om) r fk).
      + intros s3 r3. match goal with |- context [if ?c then _ else _] => destruct c end; [|apply ext_refl]. apply fold_ext. intros; apply add_key_ext.
      + exact Hr.
      + intros s3. rewrite Hn, String.eqb_refl. assert (Hty : (String.eqb (cr_type r) "one_to_one" || String.eqb (cr_type r) "one_to_many") = true) by (destruct Ht as [-> | ->]; reflexivity).
        rewrite Hty. cbn [andb]. apply fold_add_key_in, Hfk.
  Qed.
  (* the junction keys of a many_to_many relationship of a model of the query that goes THROUGH this model *)
  Lemma junction_key_projected m gr dims filters order_by am mfc jk om r k :
    In om gr -> In (fst om) am -> In r (snd om) -> cr_type r = "many_to_many" -> cr_through r = Some (mo_name m) -> k <> "" ->
    (cr_jself r = Some k \/ cr_jrel r = Some k) -> 1 < length am ->
    In k (st_added (cte_keys_dims qa trunc parse m gr dims filters order_by am mfc jk)).
  Proof.
    intros Hom Hin Hr Ht Hth Hk Hj Hlen. unfold cte_keys_dims.
    assert (Ham : match am with [] => [mo_name m] | _ => am end = am) by (destruct am; [simpl in Hlen; inversion Hlen | reflexivity]). rewrite Ham.
    set (s0 := ([], [], needed_dims parse (mo_name m) dims filters order_by mfc) : st).
    destruct (gran_phase_ext m dims (dim_phase qa trunc m (key_phases qa m gr am jk s0))) as (Hi1 & _). apply Hi1.
    destruct (dim_phase_ext m (key_phases qa m gr am jk s0)) as (Hi2 & _). apply Hi2.
    unfold key_phases.
    match goal with |- In k (st_added (fold_left ?f ?l ?s9)) => destruct (fold_ext f l (add_key_ext true) s9) as (Hi3 & _); apply Hi3 end.
    apply Nat.ltb_lt in Hlen. rewrite Hlen.
    unfold junction_phase.
    apply (fold_reaches _ gr om k).
    - intros s1 o1. destruct (mem (fst o1) am); [|apply ext_refl]. apply fold_ext. intros s3 r3.
      match goal with |- context [if ?c then _ else _] => destruct c end; [|apply ext_refl]. apply fold_ext. intros s4 k4. destruct (opt_truthy k4); [apply add_key_ext | apply ext_refl].
    - exact Hom.
    - intros s1. apply mem_In in Hin. rewrite Hin.
      apply (fold_reaches _ (snd om) r k).
      + intros s3 r3. match goal with |- context [if ?c then _ else _] => destruct c end; [|apply ext_refl]. apply fold_ext. intros s4 k4. destruct (opt_truthy k4); [apply add_key_ext | apply ext_refl].
      + exact Hr.
      + intros s3. rewrite Ht, String.eqb_refl, Hth. unfold opt_eqb. rewrite String.eqb_refl. cbn [andb].
        assert (Tk : opt_truthy (Some k) = true) by (unfold opt_truthy; apply negb_true_iff, String.eqb_neq, Hk).
        apply (fold_reaches _ [cr_jself r; cr_jrel r] (Some k) k).
        * intros s4 k4. destruct (opt_truthy k4); [apply add_key_ext | apply ext_refl].
        * destruct Hj as [-> | ->]; [left; reflexivity | right; left; reflexivity].
        * intros s4. rewrite Tk. apply add_key_in.
  Qed.
  Lemma join_key_projected m gr dims filters order_by am mfc l k :
    In k l -> In k (st_added (cte_keys_dims qa trunc parse m gr dims filters order_by am mfc (Some l))).
  Proof.
    intros Hk. unfold cte_keys_dims.
    set (am' := match am with [] => [mo_name m] | _ => am end).
    set (s0 := ([], [], needed_dims parse (mo_name m) dims filters order_by mfc) : st).
    destruct (gran_phase_ext m dims (dim_phase qa trunc m (key_phases qa m gr am' (Some l) s0))) as (Hi1 & _). apply Hi1.
    destruct (dim_phase_ext m (key_phases qa m gr am' (Some l) s0)) as (Hi2 & _). apply Hi2.
    unfold key_phases. apply fold_add_key_in, Hk.
  Qed.

End Proofs.

Section Measures.
  Variable qa : string -> string.
  Variable conj : list string -> string.
  (* ---- a metric's filters only change that metric's raw column *)
  Fixpoint set_filters (ms : list cmet) (n : string) (fs : list string) : list cmet :=
    match ms with
    | [] => []
    | x :: r => (if String.eqb (cm_name x) n then mkMet (cm_name x) (cm_type x) (cm_agg x) (cm_sql x) (cm_sql_expr x) fs (cm_deps x) (cm_inline x) else x) :: set_filters r n fs
    end.
  Definition with_mets (m : cmodel) (ms : list cmet) : cmodel := mkModel (mo_name m) (mo_pk m) (mo_sql m) (mo_table m) (mo_rels m) (mo_dims m) ms.
  Lemma get_met_set_filters_other ms n fs n' : n' <> n -> get_met (set_filters ms n fs) n' = get_met ms n'.
  Proof.
    intros N. induction ms as [|x r IH]; simpl; [reflexivity|].
    destruct (String.eqb (cm_name x) n) eqn:E; simpl.
    - apply String.eqb_eq in E. assert (E2 : String.eqb (cm_name x) n' = false) by (apply String.eqb_neq; congruence). rewrite E2. exact IH.
    - destruct (String.eqb (cm_name x) n'); [reflexivity | exact IH].
  Qed.
  Lemma metric_filter_local m n fs n' : n' <> n ->
    measure_items qa conj (with_mets m (set_filters (mo_mets m) n fs)) [n'] = measure_items qa conj m [n'].
  Proof.
    intros N. unfold measure_items. simpl. rewrite get_met_set_filters_other by exact N. destruct (get_met (mo_mets m) n') as [x|]; [|reflexivity].
    unfold measure_expr, measure_base, replace_placeholder. simpl. reflexivity.
  Qed.
  (* a filtered measure is the unfiltered raw column guarded by the conjunction of its filters, NULL otherwise *)
  Lemma filtered_measure_is_guarded_base m x f fs : cm_filters x = f :: fs ->
    measure_expr conj m x = "CASE WHEN " ++ conj (map (fun f => py_replace "{model}" "" (py_replace "{model}." "" f)) (f :: fs)) ++ " THEN " ++ measure_base m x ++ " ELSE NULL END".
  Proof. intros H. unfold measure_expr. rewrite H. reflexivity. Qed.
End Measures.

(* ---- references written <model>.<name> *)
Fixpoint no_dot (s : string) : bool := match s with EmptyString => true | String c r => negb (Ascii.eqb c (ascii_of_nat 46)) && no_dot r end.
Lemma starts_with_app p r : starts_with p (p ++ r) = true.
Proof. induction p as [|c p IH]; simpl; [reflexivity|]. rewrite Ascii.eqb_refl. exact IH. Qed.
Lemma after_dot_qualified mn r : no_dot mn = true -> after_dot (mn ++ "." ++ r) = Some r.
Proof.
  induction mn as [|c mn IH]; simpl; intros H.
  - reflexivity.
  - apply andb_prop in H. destruct H as [H1 H2]. apply negb_true_iff in H1. rewrite H1. apply IH, H2.
Qed.
Lemma before_dot_from_none acc s : no_dot s = true -> before_dot_from acc s = None.
Proof.
  revert acc. induction s as [|c s IH]; simpl; intros acc H; [reflexivity|].
  apply andb_prop in H. destruct H as [H1 H2]. apply negb_true_iff in H1. rewrite H1. apply IH, H2.
Qed.
Lemma second_piece_qualified mn dn : no_dot mn = true -> no_dot dn = true -> second_piece (mn ++ "." ++ dn) = dn.
Proof. intros H1 H2. unfold second_piece. rewrite after_dot_qualified by exact H1. unfold before_dot. rewrite before_dot_from_none by exact H2. reflexivity. Qed.
Lemma str_app_assoc a b c : (a ++ b) ++ c = a ++ (b ++ c).
Proof. induction a as [|x a IH]; simpl; [reflexivity | rewrite IH; reflexivity]. Qed.
Lemma starts_with_qualified mn dn : starts_with (mn ++ ".") (mn ++ "." ++ dn) = true.
Proof. rewrite <- str_app_assoc. apply starts_with_app. Qed.
