(* Proofs for C05: every rendering of a structured query as a SELECT is rewritten back to that structured query; SQL that names
   no model passes through; JOINs, function calls, literals and unknown fields are rejected.  Any number of fields / filters. *)
From Coq Require Import String List Bool Lia.
Require Import V.Model.Rewriter.
Import ListNotations.
Open Scope string_scope.
Open Scope list_scope.

(* ---------- WHERE: a conjunction of atoms is split back into the list of atoms ---------- *)
Lemma and_tree_cons f r : and_tree (f :: r) = Some (match and_tree r with Some w => WAnd (WAtom f) w | None => WAtom f end).
Proof. reflexivity. Qed.
Lemma and_tree_nil_iff fs : and_tree fs = None <-> fs = [].
Proof. split; [|intros ->; reflexivity]. destruct fs as [|f r]; [reflexivity|]. rewrite and_tree_cons. discriminate. Qed.
Theorem filters_of_and_tree fs : forall w, and_tree fs = Some w -> extract_filters w = fs.
Proof.
  induction fs as [|f r IH]; intros w H; [discriminate|].
  rewrite and_tree_cons in H. injection H as H. subst w.
  destruct (and_tree r) as [w'|] eqn:E.
  - cbn [extract_filters]. rewrite (IH w' eq_refl). reflexivity.
  - apply and_tree_nil_iff in E. subst r. reflexivity.
Qed.
Theorem where_roundtrip fs : match and_tree fs with Some w => extract_filters w | None => [] end = fs.
Proof.
  destruct (and_tree fs) as [w|] eqn:E; [apply filters_of_and_tree, E|]. apply and_tree_nil_iff in E. subst. reflexivity.
Qed.
(* an OR stays one filter *)
Theorem or_kept a b : extract_filters (WOr a b) = [wtext (WOr a b)].
Proof. reflexivity. Qed.

(* ---------- projections ---------- *)
Section Fields.
Variable g : rgraph.
Definition kind_of (f : fieldref) : option field_kind := classify_ref g (f_model f) (f_field f).
Definition well_formed (fields : list fieldref) : Prop := forall f, In f fields -> kind_of f <> None.
Definition metrics_of (fields : list fieldref) : list string :=
  flat_map (fun f => match kind_of f with Some KMetric => [fref f] | _ => [] end) fields.
Definition dims_of (fields : list fieldref) : list string :=
  flat_map (fun f => match kind_of f with Some KDim => [fref f] | _ => [] end) fields.
Definition aliases_of (fields : list fieldref) : list (string * string) :=
  flat_map (fun f => match f_alias f with Some a => [(fref f, a)] | None => [] end) fields.

Lemma extract_qualified inf fields : well_formed fields ->
  extract_projs g inf (map (fun f => PCol (Some (f_model f)) (f_field f) (f_alias f)) fields) = Some (metrics_of fields, dims_of fields, aliases_of fields).
Proof.
  induction fields as [|f r IH]; intros Hwf; [reflexivity|].
  cbn [map extract_projs]. rewrite IH by (intros x Hx; apply Hwf; right; exact Hx).
  specialize (Hwf f (or_introl eq_refl)). unfold kind_of in Hwf.
  cbn [extract_proj metrics_of dims_of aliases_of flat_map]. fold (fref f). unfold kind_of.
  destruct (classify_ref g (f_model f) (f_field f)) as [[|]|]; [| |contradiction]; destruct (f_alias f); reflexivity.
Qed.

Lemma extract_unqualified model fields : well_formed fields -> (forall f, In f fields -> f_model f = model) -> model <> "metrics" ->
  extract_projs g (Some model) (map (fun f => PCol None (f_field f) (f_alias f)) fields) = Some (metrics_of fields, dims_of fields, aliases_of fields).
Proof.
  intros Hwf Hm Hne. rewrite <- (extract_qualified (Some model) fields Hwf).
  induction fields as [|f r IH]; [reflexivity|]. cbn [map extract_projs].
  rewrite IH; [|intros x Hx; apply Hwf; right; exact Hx|intros x Hx; apply Hm; right; exact Hx].
  f_equal. cbn [extract_proj]. rewrite (Hm f (or_introl eq_refl)). destruct (String.eqb_spec model "metrics"); [contradiction|reflexivity].
Qed.

Definition structured (fields : list fieldref) (filters order : list string) (limit offset : option nat) : squery :=
  {| q_metrics := metrics_of fields; q_dims := dims_of fields; q_filters := filters; q_order := order; q_limit := limit; q_offset := offset; q_aliases := aliases_of fields |}.

Lemma some_field fields : well_formed fields -> fields <> [] -> metrics_of fields <> [] \/ dims_of fields <> [].
Proof.
  intros Hwf Hne. destruct fields as [|f r]; [contradiction|]. specialize (Hwf f (or_introl eq_refl)). unfold metrics_of, dims_of. cbn [flat_map].
  destruct (kind_of f) as [[|]|]; [left|right|contradiction]; discriminate.
Qed.

Definition registered_table (t : string) : Prop := t = "metrics" \/ find_rm (rg_models g) t <> None.

(* FROM <model> or FROM metrics with model-qualified names *)
Theorem rewrite_qualified table fields filters order limit offset : well_formed fields -> fields <> [] -> registered_table table ->
  rewrite g (render_qualified table fields filters order limit offset) = Rewritten (structured fields filters order limit offset).
Proof.
  intros Hwf Hne Ht. unfold rewrite, render_qualified. cbn [s_from s_with s_proj s_joins s_where s_order s_limit s_offset orb].
  assert (Hr : references_model g {| s_proj := map (fun f => PCol (Some (f_model f)) (f_field f) (f_alias f)) fields; s_from := FromTable table; s_joins := false;
               s_where := and_tree filters; s_order := order; s_limit := limit; s_offset := offset; s_with := false |} = true).
  { unfold references_model. cbn [s_from]. destruct Ht as [->|Ht]; [reflexivity|]. destruct (find_rm (rg_models g) table); [apply orb_true_r|contradiction]. }
  rewrite Hr. cbn [negb]. unfold rewrite_simple, inferred. cbn [s_from s_joins s_proj s_where s_order s_limit s_offset].
  rewrite (extract_qualified _ fields Hwf). rewrite where_roundtrip.
  destruct (some_field fields Hwf Hne) as [H|H]; destruct (metrics_of fields) eqn:Em, (dims_of fields) eqn:Ed; try contradiction; unfold structured; rewrite ?Em, ?Ed; reflexivity.
Qed.
(* FROM <model> with unqualified names (single-model queries) gives the same structured query *)
Theorem rewrite_unqualified model fields filters order limit offset : well_formed fields -> fields <> [] ->
  (forall f, In f fields -> f_model f = model) -> model <> "metrics" -> find_rm (rg_models g) model <> None ->
  rewrite g (render_unqualified model fields filters order limit offset) = Rewritten (structured fields filters order limit offset).
Proof.
  intros Hwf Hne Hm Hnm Hreg. unfold rewrite, render_unqualified. cbn [s_from s_with s_proj s_joins s_where s_order s_limit s_offset orb].
  assert (Hr : references_model g {| s_proj := map (fun f => PCol None (f_field f) (f_alias f)) fields; s_from := FromTable model; s_joins := false;
               s_where := and_tree filters; s_order := order; s_limit := limit; s_offset := offset; s_with := false |} = true).
  { unfold references_model. cbn [s_from]. destruct (find_rm (rg_models g) model); [apply orb_true_r|contradiction]. }
  rewrite Hr. cbn [negb]. unfold rewrite_simple, inferred. cbn [s_from s_joins s_proj s_where s_order s_limit s_offset].
  rewrite (extract_unqualified model fields Hwf Hm Hnm). rewrite where_roundtrip.
  destruct (some_field fields Hwf Hne) as [H|H]; destruct (metrics_of fields) eqn:Em, (dims_of fields) eqn:Ed; try contradiction; unfold structured; rewrite ?Em, ?Ed; reflexivity.
Qed.

(* SQL that names no model (and is not FROM metrics) is passed through untouched *)
Theorem passthrough_foreign_table s n : s_from s = FromTable n -> s_with s = false -> n <> "metrics" -> find_rm (rg_models g) n = None -> rewrite g s = Passthrough.
Proof.
  intros Hf Hw Hn Hr. unfold rewrite. rewrite Hf, Hw. cbn [orb]. unfold references_model. rewrite Hf, Hr.
  destruct (String.eqb_spec n "metrics"); [contradiction|reflexivity].
Qed.
Theorem passthrough_no_from s : s_from s = FromNone -> s_with s = false -> existsb (fun p => match p with PStar => true | _ => false end) (s_proj s) = false -> rewrite g s = Passthrough.
Proof. intros Hf Hw Hs. unfold rewrite. rewrite Hf, Hw, Hs. reflexivity. Qed.

(* what the layer cannot express is rejected: explicit JOINs, function calls, literals, fields that do not exist *)
Lemma simple_when_model s : s_with s = false -> (exists n, s_from s = FromTable n) -> references_model g s = true -> rewrite g s = rewrite_simple g s.
Proof. intros Hw [n Hf] Hr. unfold rewrite. rewrite Hf, Hw, Hr. reflexivity. Qed.
Theorem reject_join s : s_joins s = true -> rewrite_simple g s = Rejected.
Proof. intros H. unfold rewrite_simple. rewrite H. reflexivity. Qed.
Lemma extract_none_in inf ps p : In p ps -> extract_proj g inf p = None -> extract_projs g inf ps = None.
Proof.
  induction ps as [|x r IH]; intros Hin Hp; [destruct Hin|]. cbn [extract_projs]. destruct Hin as [->|Hin].
  - rewrite Hp. reflexivity.
  - rewrite (IH Hin Hp). destruct (extract_proj g inf x) as [[[? ?] ?]|]; reflexivity.
Qed.
Theorem reject_bad_projection s p : In p (s_proj s) -> extract_proj g (inferred s) p = None -> rewrite_simple g s = Rejected.
Proof. intros Hin Hp. unfold rewrite_simple. destruct (s_joins s); [reflexivity|]. rewrite (extract_none_in _ _ _ Hin Hp). reflexivity. Qed.
Theorem function_call_rejected inf : extract_proj g inf PFunc = None.
Proof. reflexivity. Qed.
Theorem literal_rejected inf : extract_proj g inf PLiteral = None.
Proof. reflexivity. Qed.
Theorem unknown_field_rejected inf t n a : classify_ref g t n = None -> extract_proj g inf (PCol (Some t) n a) = None.
Proof. intros H. cbn. rewrite H. reflexivity. Qed.
End Fields.

(* ---------- a concrete graph and query ---------- *)
Definition ex_g : rgraph := {| rg_models := [ {| rm_name := "orders"; rm_dims := ["status"; "created"]; rm_metrics := ["revenue"; "n"] |};
                                               {| rm_name := "customers"; rm_dims := ["region"]; rm_metrics := ["cnt"] |} ]; rg_metrics := ["total"] |}.
Definition ex_fields : list fieldref := [ {| f_model := "orders"; f_field := "created__month"; f_alias := Some "m" |}; {| f_model := "orders"; f_field := "revenue"; f_alias := None |};
                                          {| f_model := "orders"; f_field := "status"; f_alias := None |} ].
Example ex_wf : well_formed ex_g ex_fields /\ ex_fields <> [] /\
  rewrite ex_g (render_unqualified "orders" ex_fields ["status = 'a'"; "revenue > 1"] ["m"] (Some 5) None) =
  Rewritten {| q_metrics := ["orders.revenue"]; q_dims := ["orders.created__month"; "orders.status"]; q_filters := ["status = 'a'"; "revenue > 1"]; q_order := ["m"];
               q_limit := Some 5; q_offset := None; q_aliases := [("orders.created__month", "m")] |}.
Proof.
  split; [|split; [discriminate|vm_compute; reflexivity]].
  intros f [<-|[<-|[<-|[]]]]; vm_compute; discriminate.
Qed.
