(* Proofs for C11: a field that passes the table criterion `field_ok` survives export -> parse, for EVERY object; the tables
   regenerated from the adapter's source pass it for every result-affecting field (up to the listed losses). *)
From Coq Require Import ZArith String List Bool Lia.
Require Import V.Model.Native V.Gen.NativeFields_gen.
Import ListNotations.
Open Scope string_scope.
Open Scope list_scope.

Lemma pyv_eqb_refl v : pyv_eqb v v = true.
Proof. unfold pyv_eqb. destruct (pyv_eq_dec v v); [reflexivity|contradiction]. Qed.
Lemma pyv_eqb_eq a b : pyv_eqb a b = true -> a = b.
Proof. unfold pyv_eqb. destruct (pyv_eq_dec a b); [auto|discriminate]. Qed.

Lemma aget_app l1 l2 k : aget (l1 ++ l2) k = match aget l1 k with Some v => Some v | None => aget l2 k end.
Proof. induction l1 as [|[k' v] r IH]; [reflexivity|]. cbn. destruct (k =? k'); [reflexivity|exact IH]. Qed.

Definition same_cond (a b : cond) : bool :=
  match a, b with Always, Always | Truthy, Truthy | Falsy, Falsy => true | NeConst x, NeConst y => pyv_eqb x y | _, _ => false end.
Lemma same_cond_holds a b v : same_cond a b = true -> holds a v = holds b v.
Proof. destruct a, b; cbn; try discriminate; try reflexivity. intros H. apply pyv_eqb_eq in H. subst. reflexivity. Qed.

(* what the exported document holds under the field's key *)
Lemma aget_export et o e :
  forallb (fun r => negb (e_key r =? e_key e) || ((e_attr r =? e_attr e) && same_cond (e_cond r) (e_cond e))) et = true -> In e et ->
  aget (export_obj et o) (e_key e) = if holds (e_cond e) (oget o (e_attr e)) then Some (oget o (e_attr e)) else None.
Proof.
  induction et as [|r et IH]; intros Hc Hin; [destruct Hin|].
  cbn [forallb] in Hc. apply andb_true_iff in Hc as [Hr Hc]. unfold export_obj. cbn [flat_map]. fold (export_obj et o). rewrite aget_app.
  destruct (String.eqb_spec (e_key r) (e_key e)) as [Ek|Nk].
  - cbn [negb orb] in Hr. apply andb_true_iff in Hr as [Ha Hs]. apply String.eqb_eq in Ha. rewrite Ha, (same_cond_holds _ _ _ Hs).
    destruct (holds (e_cond e) (oget o (e_attr e))) eqn:Hh.
    + cbn. rewrite Ek, String.eqb_refl. reflexivity.
    + cbn [aget]. destruct Hin as [<-|Hin].
      * (* the field's own row is r: later copies, if any, behave the same *)
        clear IH. induction et as [|r2 et IH2]; [reflexivity|]. cbn [forallb] in Hc. apply andb_true_iff in Hc as [Hr2 Hc2].
        unfold export_obj. cbn [flat_map]. fold (export_obj et o). rewrite aget_app.
        destruct (String.eqb_spec (e_key r2) (e_key r)) as [E2|N2].
        -- cbn [negb orb] in Hr2. apply andb_true_iff in Hr2 as [Ha2 Hs2]. apply String.eqb_eq in Ha2. rewrite Ha2, (same_cond_holds _ _ _ Hs2), Hh. cbn [aget]. apply IH2, Hc2.
        -- destruct (holds (e_cond r2) (oget o (e_attr r2))); [cbn; destruct (String.eqb_spec (e_key r) (e_key r2)); [congruence|]|cbn [aget]]; apply IH2, Hc2.
      * rewrite (IH Hc Hin). reflexivity.
  - destruct Hin as [<-|Hin]; [contradiction|].
    destruct (holds (e_cond r) (oget o (e_attr r))); [cbn; destruct (String.eqb_spec (e_key e) (e_key r)); [congruence|]|cbn [aget]]; apply IH; assumption.
Qed.

Lemma aget_absent et o k : existsb (fun r => e_key r =? k) et = false -> aget (export_obj et o) k = None.
Proof.
  induction et as [|r et IH]; intros H; [reflexivity|]. cbn [existsb] in H. apply orb_false_iff in H as [H1 H2].
  unfold export_obj. cbn [flat_map]. fold (export_obj et o). rewrite aget_app.
  destruct (holds (e_cond r) (oget o (e_attr r))); [cbn; rewrite String.eqb_sym, H1|cbn [aget]]; apply IH, H2.
Qed.
Lemma lookup_absent d ks dv : (forall k, In k ks -> aget d k = None) -> lookup_keys d ks dv = dv.
Proof.
  induction ks as [|k r IH]; intros H; [reflexivity|]. cbn [lookup_keys]. rewrite (H k (or_introl eq_refl)).
  destruct r; [reflexivity|]. apply IH. intros k' Hk'. apply H. right. exact Hk'.
Qed.

Lemma oget_parse pt d f p : find_p pt f = Some p -> oget (parse_obj pt d) f = lookup_keys d (p_keys p) (p_default p).
Proof.
  unfold find_p, oget. induction pt as [|r pt IH]; [discriminate|]. cbn [find parse_obj map aget].
  destruct (String.eqb_spec (p_field r) f) as [E|N].
  - intros H. injection H as <-. rewrite <- E, String.eqb_refl. reflexivity.
  - intros H. destruct (String.eqb_spec f (p_field r)); [congruence|]. apply IH, H.
Qed.

(* the round trip of one field, for every object: the parsed value is the original one up to the falsy identification the
   guards rely on (exact for strict fields).  Hypothesis on the OBJECT: a field guarded by `if not x` is a boolean-like flag,
   i.e. its truthy value is the parser's default (True) *)
Theorem field_roundtrip et pt f o e p :
  field_ok et pt f = true -> key_consistent et f = true -> find_e et f = Some e -> find_p pt f = Some p ->
  (e_cond e = Falsy -> truthy (oget o f) = true -> oget o f = p_default p) ->
  equiv f (oget (parse_obj pt (export_obj et o)) f) (oget o f) = true.
Proof.
  intros Hok Hkc He Hp Hflag. unfold field_ok in Hok. rewrite He, Hp in Hok. unfold key_consistent in Hkc. rewrite He in Hkc.
  assert (Hin : In e et /\ e_attr e = f).
  { unfold find_e in He. apply find_some in He as [H1 H2]. apply String.eqb_eq in H2. tauto. }
  destruct Hin as [Hin Ha].
  rewrite (oget_parse pt _ f p Hp).
  destruct (p_keys p) as [|k more] eqn:Ek; [discriminate|]. apply andb_true_iff in Hok as [Hk Hok]. apply String.eqb_eq in Hk. subst k.
  assert (Hget := aget_export et o e Hkc Hin). rewrite Ha in Hget.
  unfold equiv. destruct (e_cond e) eqn:Ec; cbn [holds] in Hget.
  - destruct more; [|discriminate]. cbn [lookup_keys]. rewrite Hget, pyv_eqb_refl. reflexivity.
  - apply andb_true_iff in Hok as [Hok Hal]. apply andb_true_iff in Hok as [Hd Hs]. destruct (truthy (oget o f)) eqn:Ht.
    + assert (lookup_keys (export_obj et o) (e_key e :: more) (p_default p) = oget o f) as ->; [|rewrite pyv_eqb_refl; reflexivity].
      destruct more as [|k2 more2]; [cbn [lookup_keys]; rewrite Hget; reflexivity|].
      change (lookup_keys (export_obj et o) (e_key e :: k2 :: more2) (p_default p))
        with (match aget (export_obj et o) (e_key e) with
              | Some v => if truthy v then v else lookup_keys (export_obj et o) (k2 :: more2) (p_default p)
              | None => lookup_keys (export_obj et o) (k2 :: more2) (p_default p) end).
      rewrite Hget, Ht. reflexivity.
    + apply orb_true_iff. right. rewrite Hs. cbn [andb negb]. rewrite andb_true_r.
      assert (lookup_keys (export_obj et o) (e_key e :: more) (p_default p) = p_default p) as ->; [|exact Hd].
      destruct more as [|k2 more2]; [cbn [lookup_keys]; rewrite Hget; reflexivity|].
      change (lookup_keys (export_obj et o) (e_key e :: k2 :: more2) (p_default p))
        with (match aget (export_obj et o) (e_key e) with
              | Some v => if truthy v then v else lookup_keys (export_obj et o) (k2 :: more2) (p_default p)
              | None => lookup_keys (export_obj et o) (k2 :: more2) (p_default p) end).
      rewrite Hget. apply lookup_absent. intros k Hk. apply aget_absent. rewrite forallb_forall in Hal. apply negb_true_iff. apply Hal. exact Hk.
  - apply andb_true_iff in Hok as [Hd Hm]. destruct more; [|discriminate]. apply pyv_eqb_eq in Hd. cbn [lookup_keys]. rewrite Hget.
    destruct (pyv_eqb (oget o f) c) eqn:Eq; cbn [negb].
    + apply pyv_eqb_eq in Eq. rewrite Hd, Eq, pyv_eqb_refl. reflexivity.
    + rewrite pyv_eqb_refl. reflexivity.
  - apply andb_true_iff in Hok as [Hd Hm]. destruct more; [|discriminate]. cbn [lookup_keys]. rewrite Hget.
    destruct (truthy (oget o f)) eqn:Ht; cbn [negb].
    + rewrite (Hflag eq_refl eq_refl), pyv_eqb_refl. reflexivity.
    + rewrite pyv_eqb_refl. reflexivity.
Qed.
