(* Proofs for C17: window frames of the outer query = the period definitions (any series length, any number of groups). *)
From Coq Require Import ZArith String List Bool Lia Permutation Sorting.Sorted.
Require Import V.Base.PyLib V.Base.Calendar V.Base.CalendarFacts V.Model.Sem V.Model.Window V.Proofs.C01_proofs V.Gen.LagOffset_gen.
Import ListNotations.
Open Scope list_scope.
Open Scope Z_scope.

(* ---------- permutations: filter, flat_map, aggregates ---------- *)
Lemma perm_filter {A} (f : A -> bool) l l' : Permutation l l' -> Permutation (filter f l) (filter f l').
Proof.
  induction 1 as [|x l l' P IH|x y l|l l' l'' P1 IH1 P2 IH2]; cbn.
  - constructor.
  - destruct (f x); auto.
  - destruct (f x), (f y); auto using perm_swap.
  - eapply Permutation_trans; eauto.
Qed.
Lemma perm_flat_map {A B} (f : A -> list B) l l' : Permutation l l' -> Permutation (flat_map f l) (flat_map f l').
Proof.
  induction 1 as [|x l l' P IH|x y l|l l' l'' P1 IH1 P2 IH2]; cbn.
  - constructor.
  - apply Permutation_app_head, IH.
  - rewrite !app_assoc. apply Permutation_app_tail, Permutation_app_comm.
  - eapply Permutation_trans; eauto.
Qed.
Lemma zsum_perm l l' : Permutation l l' -> zsum l = zsum l'.
Proof. unfold zsum. induction 1; cbn [fold_right]; lia. Qed.

Lemma fold_min_char z zs : In (fold_right Z.min z zs) (z :: zs) /\ forall y, In y (z :: zs) -> fold_right Z.min z zs <= y.
Proof.
  induction zs as [|a zs [Hin Hle]]; cbn [fold_right].
  - split; [left; reflexivity | intros y [<-|[]]; lia].
  - split.
    + destruct (Z.min_spec a (fold_right Z.min z zs)) as [[_ E]|[_ E]]; rewrite E.
      * right; left; reflexivity.
      * destruct Hin as [Hin|Hin]; [left; exact Hin | right; right; exact Hin].
    + intros y [<-|[<-|Hy]].
      * specialize (Hle z (or_introl eq_refl)). lia.
      * lia.
      * specialize (Hle y (or_intror Hy)). lia.
Qed.
Lemma fold_max_char z zs : In (fold_right Z.max z zs) (z :: zs) /\ forall y, In y (z :: zs) -> y <= fold_right Z.max z zs.
Proof.
  induction zs as [|a zs [Hin Hle]]; cbn [fold_right].
  - split; [left; reflexivity | intros y [<-|[]]; lia].
  - split.
    + destruct (Z.max_spec a (fold_right Z.max z zs)) as [[_ E]|[_ E]]; rewrite E.
      * destruct Hin as [Hin|Hin]; [left; exact Hin | right; right; exact Hin].
      * right; left; reflexivity.
    + intros y [<-|[<-|Hy]].
      * specialize (Hle z (or_introl eq_refl)). lia.
      * lia.
      * specialize (Hle y (or_intror Hy)). lia.
Qed.
Lemma fold_min_perm z zs z' zs' : Permutation (z :: zs) (z' :: zs') -> fold_right Z.min z zs = fold_right Z.min z' zs'.
Proof.
  intros P. destruct (fold_min_char z zs) as [I1 L1], (fold_min_char z' zs') as [I2 L2].
  apply Z.le_antisymm; [apply L1, (Permutation_in _ (Permutation_sym P)), I2 | apply L2, (Permutation_in _ P), I1].
Qed.
Lemma fold_max_perm z zs z' zs' : Permutation (z :: zs) (z' :: zs') -> fold_right Z.max z zs = fold_right Z.max z' zs'.
Proof.
  intros P. destruct (fold_max_char z zs) as [I1 L1], (fold_max_char z' zs') as [I2 L2].
  apply Z.le_antisymm; [apply L2, (Permutation_in _ P), I1 | apply L1, (Permutation_in _ (Permutation_sym P)), I2].
Qed.
Lemma nodup_length_perm (l l' : list val) : Permutation l l' -> length (nodup_vals l) = length (nodup_vals l').
Proof.
  intros P. apply Permutation_length, NoDup_Permutation; try apply NoDup_nodup.
  intros x. unfold nodup_vals. rewrite !nodup_In. split; intros H; [apply (Permutation_in _ P) | apply (Permutation_in _ (Permutation_sym P))]; exact H.
Qed.

Definition interpreted (a : agg) : Prop := match a with AOther _ => False | _ => True end.

(* every interpreted aggregate is a function of the BAG of its inputs *)
Theorem apply_agg_perm a l l' : interpreted a -> Permutation l l' -> apply_agg a l = apply_agg a l'.
Proof.
  intros Ha P. assert (Pn : Permutation (non_null l) (non_null l')) by (apply perm_filter, P).
  assert (Pi : Permutation (ints (non_null l)) (ints (non_null l'))) by (apply perm_flat_map, Pn).
  pose proof (Permutation_length Pn) as Ln.
  unfold apply_agg. destruct a; cbn in Ha; try contradiction.
  - destruct (non_null l) eqn:E1, (non_null l') eqn:E2; cbn in Ln; try discriminate; [reflexivity|].
    rewrite (zsum_perm _ _ Pi). reflexivity.
  - rewrite Ln. reflexivity.
  - rewrite (nodup_length_perm _ _ Pn). reflexivity.
  - destruct (non_null l) eqn:E1, (non_null l') eqn:E2; cbn in Ln; try discriminate; [reflexivity|].
    rewrite (zsum_perm _ _ Pi). cbn [length]. injection Ln as Ln. rewrite Ln. reflexivity.
  - destruct (ints (non_null l)) as [|z zs] eqn:E1, (ints (non_null l')) as [|z' zs'] eqn:E2.
    + reflexivity.
    + apply Permutation_length in Pi. discriminate.
    + apply Permutation_length in Pi. discriminate.
    + rewrite (fold_min_perm _ _ _ _ Pi). reflexivity.
  - destruct (ints (non_null l)) as [|z zs] eqn:E1, (ints (non_null l')) as [|z' zs'] eqn:E2.
    + reflexivity.
    + apply Permutation_length in Pi. discriminate.
    + apply Permutation_length in Pi. discriminate.
    + rewrite (fold_max_perm _ _ _ _ Pi). reflexivity.
Qed.

(* ---------- ORDER BY t: a sorted permutation ---------- *)
Definition le_t (a b : srow) : Prop := s_t a <= s_t b.
Lemma insert_t_perm x l : Permutation (x :: l) (insert_t x l).
Proof.
  induction l as [|y r IH]; cbn; [reflexivity|]. destruct (s_t x <=? s_t y); [reflexivity|].
  rewrite perm_swap. constructor. exact IH.
Qed.
Lemma sort_t_perm l : Permutation l (sort_t l).
Proof. induction l as [|x l IH]; cbn; [reflexivity|]. rewrite <- insert_t_perm. constructor. exact IH. Qed.
Lemma insert_t_sorted x l : StronglySorted le_t l -> StronglySorted le_t (insert_t x l).
Proof.
  induction l as [|y r IH]; intros H; cbn; [repeat constructor|].
  inversion H as [|? ? Hr Hy]; subst. destruct (Z.leb_spec (s_t x) (s_t y)) as [E|E].
  - constructor; [exact H|]. constructor; [exact E|]. rewrite Forall_forall in *. intros z Hz. specialize (Hy z Hz). unfold le_t in *. lia.
  - constructor; [apply IH, Hr|]. rewrite Forall_forall in *. intros z Hz.
    apply (Permutation_in _ (Permutation_sym (insert_t_perm x r))) in Hz. destruct Hz as [<-|Hz]; [unfold le_t; lia|apply Hy, Hz].
Qed.
Lemma sort_t_sorted l : StronglySorted le_t (sort_t l).
Proof. induction l as [|x l IH]; cbn; [constructor|apply insert_t_sorted, IH]. Qed.

(* ---------- small list facts ---------- *)
Lemma filter_filter {A} (f g : A -> bool) l : filter f (filter g l) = filter (fun x => g x && f x) l.
Proof. induction l as [|x l IH]; cbn; [reflexivity|]. destruct (g x); cbn; [destruct (f x)|]; rewrite ?IH; reflexivity. Qed.
Lemma filter_all {A} (f : A -> bool) l : (forall x, In x l -> f x = true) -> filter f l = l.
Proof. induction l as [|x l IH]; intros H; cbn; [reflexivity|]. rewrite (H x (or_introl eq_refl)), IH; [reflexivity|]. intros y Hy. apply H. right. exact Hy. Qed.
Lemma filter_none {A} (f : A -> bool) l : (forall x, In x l -> f x = false) -> filter f l = [].
Proof. induction l as [|x l IH]; intros H; cbn; [reflexivity|]. rewrite (H x (or_introl eq_refl)), IH; [reflexivity|]. intros y Hy. apply H. right. exact Hy. Qed.
Lemma NoDup_map_filter {A B} (F : A -> B) (p : A -> bool) l : NoDup (map F l) -> NoDup (map F (filter p l)).
Proof.
  induction l as [|x l IH]; cbn; intros H; [constructor|]. inversion H as [|? ? Hx Hl]; subst.
  destruct (p x); cbn; [constructor|]; auto. intros Hin. apply Hx. apply in_map_iff in Hin as [y [E Hy]]. apply in_map_iff. exists y. split; [exact E|].
  apply filter_In in Hy. apply Hy.
Qed.
Lemma NoDup_pair_snd {A B C} (f : A -> B) (h : A -> C) (k : B) l :
  NoDup (map (fun r => (f r, h r)) l) -> (forall r, In r l -> f r = k) -> NoDup (map h l).
Proof.
  intros H Hk. apply (NoDup_map_inv (pair k)). rewrite map_map.
  replace (map (fun r => (k, h r)) l) with (map (fun r => (f r, h r)) l); [exact H|].
  apply map_ext_in. intros r Hr. rewrite (Hk r Hr). reflexivity.
Qed.

Lemma sorted_app_left (l1 : list srow) x l2 : StronglySorted le_t (l1 ++ x :: l2) -> forall a, In a l1 -> le_t a x.
Proof.
  induction l1 as [|b l1 IH]; cbn; intros H a Ha; [contradiction|]. inversion H as [|? ? Hr Hb]; subst.
  destruct Ha as [<-|Ha]; [|apply IH; assumption]. rewrite Forall_forall in Hb. apply Hb, in_or_app. right. left. reflexivity.
Qed.
Lemma sorted_app_right (l1 : list srow) x l2 : StronglySorted le_t (l1 ++ x :: l2) -> forall b, In b l2 -> le_t x b.
Proof.
  induction l1 as [|c l1 IH]; cbn; intros H b Hb.
  - inversion H as [|? ? Hr Hx]; subst. rewrite Forall_forall in Hx. apply Hx, Hb.
  - inversion H; subst. apply IH; assumption.
Qed.
(* with distinct ORDER BY keys the positional prefix is the value-based one *)
Lemma sorted_prefix l1 x l2 : StronglySorted le_t (l1 ++ x :: l2) -> NoDup (map s_t (l1 ++ x :: l2)) ->
  l1 ++ [x] = filter (fun r => s_t r <=? s_t x) (l1 ++ x :: l2).
Proof.
  intros S U. rewrite filter_app. cbn [filter]. rewrite Z.leb_refl.
  rewrite (filter_all _ l1), (filter_none _ l2); [reflexivity| |].
  - intros b Hb. pose proof (sorted_app_right _ _ _ S b Hb) as Hle. unfold le_t in Hle.
    rewrite map_app in U. cbn [map] in U. apply NoDup_remove_2 in U.
    destruct (Z.leb_spec (s_t b) (s_t x)) as [E|E]; [|reflexivity]. exfalso. apply U.
    assert (s_t b = s_t x) as <- by lia. apply in_or_app. right. apply in_map. exact Hb.
  - intros a Ha. apply Z.leb_le. apply (sorted_app_left _ _ _ S a Ha).
Qed.

Lemma prefixes_spec acc l x fr : In (x, fr) (prefixes acc l) -> exists l1 l2, l = l1 ++ x :: l2 /\ fr = acc ++ l1 ++ [x].
Proof.
  revert acc. induction l as [|y l IH]; cbn; intros acc H; [contradiction|]. destruct H as [H|H].
  - injection H as -> <-. exists [], l. split; reflexivity.
  - apply IH in H as [l1 [l2 [-> ->]]]. exists (y :: l1), l2. split; [reflexivity|]. rewrite <- !app_assoc. reflexivity.
Qed.
Lemma prefixes_complete acc l x : In x l -> exists fr, In (x, fr) (prefixes acc l).
Proof.
  revert acc. induction l as [|y l IH]; cbn; intros acc H; [contradiction|]. destruct H as [<-|H].
  - eexists. left. reflexivity.
  - destruct (IH (acc ++ [y]) H) as [fr Hfr]. exists fr. right. exact Hfr.
Qed.

Lemma in_partitions g rows P : In P (partitions g rows) ->
  exists k, In k (map (pkey g) rows) /\ P = sort_t (filter (fun r => key_eqb (pkey g r) k) rows).
Proof. unfold partitions. intros H. apply in_map_iff in H as [k [<- Hk]]. exists k. split; [apply first_occ_In, Hk|reflexivity]. Qed.

(* ---------- ROWS UNBOUNDED PRECEDING .. CURRENT ROW ---------- *)
Definition unique_periods (g : option gran) (rows : list srow) : Prop := NoDup (map (fun r => (pkey g r, s_t r)) rows).

Theorem rows_frames_spec g rows : unique_periods g rows -> forall x fr, In (x, fr) (rows_frames g rows) ->
  In x rows /\ Permutation fr (filter (fun r => key_eqb (pkey g r) (pkey g x) && (s_t r <=? s_t x)) rows).
Proof.
  intros U x fr H. unfold rows_frames in H. apply in_flat_map in H as [P [HP H]].
  apply in_partitions in HP as [k [_ ->]]. apply prefixes_spec in H as [l1 [l2 [E ->]]]. cbn [app].
  set (Pk := filter (fun r => key_eqb (pkey g r) k) rows) in *.
  assert (Hx : In x Pk).
  { apply (Permutation_in _ (Permutation_sym (sort_t_perm Pk))). rewrite E. apply in_or_app. right. left. reflexivity. }
  apply filter_In in Hx as [Hx Hk]. apply key_eqb_true in Hk. split; [exact Hx|].
  assert (S : StronglySorted le_t (l1 ++ x :: l2)) by (rewrite <- E; apply sort_t_sorted).
  assert (N : NoDup (map s_t (l1 ++ x :: l2))).
  { rewrite <- E. apply (Permutation_NoDup (Permutation_map s_t (sort_t_perm Pk))).
    apply (NoDup_pair_snd (pkey g) s_t k).
    - apply NoDup_map_filter, U.
    - intros r Hr. apply filter_In in Hr as [_ Hr]. apply key_eqb_true, Hr. }
  rewrite (sorted_prefix _ _ _ S N), <- E.
  eapply Permutation_trans; [apply perm_filter, Permutation_sym, sort_t_perm|].
  unfold Pk. rewrite filter_filter, Hk. apply Permutation_refl.
Qed.

Theorem rows_frames_complete g rows x : In x rows -> exists fr, In (x, fr) (rows_frames g rows).
Proof.
  intros Hx. set (k := pkey g x). set (P := sort_t (filter (fun r => key_eqb (pkey g r) k) rows)).
  assert (HP : In P (partitions g rows)).
  { unfold partitions. apply in_map_iff. exists k. split; [reflexivity|]. apply first_occ_In, in_map, Hx. }
  assert (HxP : In x P).
  { apply (Permutation_in _ (sort_t_perm _)). apply filter_In. split; [exact Hx|apply key_eqb_refl]. }
  destruct (prefixes_complete [] P x HxP) as [fr Hfr]. exists fr. unfold rows_frames. apply in_flat_map. exists P. split; assumption.
Qed.

(* ---------- RANGE n PRECEDING .. CURRENT ROW ---------- *)
Theorem range_frames_spec n rows x fr : In (x, fr) (range_frames n rows) ->
  In x rows /\ Permutation fr (filter (fun r => key_eqb (s_key r) (s_key x) && ((s_t x - n <=? s_t r) && (s_t r <=? s_t x))) rows).
Proof.
  intros H. unfold range_frames in H. apply in_flat_map in H as [P [HP H]].
  apply in_partitions in HP as [k [_ ->]]. apply in_map_iff in H as [y [E Hy]]. injection E as -> <-.
  set (Pk := filter (fun r => key_eqb (pkey None r) k) rows) in *.
  apply (Permutation_in _ (Permutation_sym (sort_t_perm Pk))) in Hy. apply filter_In in Hy as [Hy Hk]. apply key_eqb_true in Hk.
  split; [exact Hy|]. eapply Permutation_trans; [apply perm_filter, Permutation_sym, sort_t_perm|].
  unfold Pk. rewrite filter_filter. cbn [pkey] in *. rewrite Hk. apply Permutation_refl.
Qed.

(* ---------- cumulative metrics = aggregate over the periods in scope ---------- *)
Lemma key_eqb_cons a k b k' : key_eqb (a :: k) (b :: k') = val_eqb a b && key_eqb k k'.
Proof.
  unfold key_eqb, val_eqb. destruct (key_eq_dec (a :: k) (b :: k')) as [E|E], (val_eq_dec a b) as [E1|E1], (key_eq_dec k k') as [E2|E2];
    cbn; try reflexivity; try (injection E as ? ?; contradiction). subst. contradiction.
Qed.
Lemma val_eqb_int x y : val_eqb (VInt x) (VInt y) = (x =? y).
Proof. unfold val_eqb. destruct (val_eq_dec (VInt x) (VInt y)) as [E|E], (Z.eqb_spec x y) as [E'|E']; try reflexivity; [injection E as E; contradiction | subst; contradiction]. Qed.

Definition frame_kind_ok (k : cum_kind) (rows : list srow) : Prop :=
  match k with CRunning => unique_periods None rows | CGrain g => unique_periods (Some g) rows | CRange _ => True end.

Theorem cumulative_spec k a rows : interpreted a -> frame_kind_ok k rows ->
  forall x v, In (x, v) (cumulative k a rows) -> In x rows /\ v = spec_cumulative k a rows x.
Proof.
  intros Ha Hk x v H. unfold cumulative in H. apply in_map_iff in H as [[y fr] [E H]]. injection E as <- <-.
  unfold spec_cumulative. destruct k as [|n|g]; cbn [frames frame_kind_ok] in *.
  - apply (rows_frames_spec None rows Hk) in H as [Hx P]. split; [exact Hx|]. apply apply_agg_perm; [exact Ha|]. apply Permutation_map.
    eapply Permutation_trans; [exact P|]. erewrite filter_ext; [apply Permutation_refl|].
    intros r. unfold in_scope. cbn [pkey]. rewrite andb_true_r. reflexivity.
  - apply range_frames_spec in H as [Hx P]. split; [exact Hx|]. apply apply_agg_perm; [exact Ha|]. apply Permutation_map.
    eapply Permutation_trans; [exact P|]. erewrite filter_ext; [apply Permutation_refl|].
    intros r. unfold in_scope. destruct (key_eqb (s_key r) (s_key y)), (s_t y - n <=? s_t r), (s_t r <=? s_t y); reflexivity.
  - apply (rows_frames_spec (Some g) rows Hk) in H as [Hx P]. split; [exact Hx|]. apply apply_agg_perm; [exact Ha|]. apply Permutation_map.
    eapply Permutation_trans; [exact P|]. erewrite filter_ext; [apply Permutation_refl|].
    intros r. unfold in_scope. cbn [pkey]. rewrite key_eqb_cons, val_eqb_int.
    destruct (trunc g (s_t r) =? trunc g (s_t y)), (key_eqb (s_key r) (s_key y)), (s_t r <=? s_t y); reflexivity.
Qed.

Theorem cumulative_complete k a rows x : In x rows -> exists v, In (x, v) (cumulative k a rows).
Proof.
  intros Hx. assert (exists fr, In (x, fr) (frames k rows)) as [fr Hfr].
  { destruct k as [|n|g]; cbn [frames]; try apply rows_frames_complete, Hx.
    unfold range_frames. set (kk := pkey None x). set (P := sort_t (filter (fun r => key_eqb (pkey None r) kk) rows)).
    eexists. apply in_flat_map. exists P. split.
    - unfold partitions. apply in_map_iff. exists kk. split; [reflexivity|]. apply first_occ_In, in_map, Hx.
    - apply in_map_iff. exists x. split; [reflexivity|]. apply (Permutation_in _ (sort_t_perm _)). apply filter_In. split; [exact Hx|apply key_eqb_refl]. }
  eexists. unfold cumulative. apply in_map_iff. exists (x, fr). split; [reflexivity|exact Hfr].
Qed.

(* ---------- LAG ---------- *)
(* a sorted partition is gap-free when consecutive rows are consecutive periods *)
Inductive consecutive (idx : Z -> Z) : list srow -> Prop :=
| cons_nil : consecutive idx []
| cons_one x : consecutive idx [x]
| cons_two x y l : idx (s_t y) = idx (s_t x) + 1 -> consecutive idx (y :: l) -> consecutive idx (x :: y :: l).

Lemma consecutive_nth idx l : consecutive idx l -> forall i x y, nth_error l 0%nat = Some x -> nth_error l i = Some y ->
  idx (s_t y) = idx (s_t x) + Z.of_nat i.
Proof.
  induction 1 as [|a|a b l E C IH]; intros i x y H0 Hi.
  - discriminate.
  - destruct i as [|[|i]]; cbn in *; try discriminate. injection H0 as <-. injection Hi as <-. lia.
  - destruct i as [|i]; cbn in H0, Hi.
    + injection H0 as <-. injection Hi as <-. lia.
    + injection H0 as <-. specialize (IH i b y eq_refl Hi). lia.
Qed.
Lemma consecutive_app idx l1 l2 : consecutive idx (l1 ++ l2) -> consecutive idx l2.
Proof.
  induction l1 as [|a l1 IH]; cbn; intros H; [exact H|]. apply IH. inversion H as [| |? ? ? E C]; subst.
  - destruct l1; [constructor|discriminate].
  - exact C.
Qed.
(* position i of l1 ++ x :: l2 counted backwards from x *)
Lemma nth_back {A} (l1 : list A) x k y : nth_error (x :: rev l1) k = Some y -> nth_error (l1 ++ [x]) (length l1 - k) = Some y /\ (k <= length l1)%nat.
Proof.
  intros H. assert (Hk : (k < length (x :: rev l1))%nat) by (apply nth_error_Some; congruence). cbn [length] in Hk. rewrite rev_length in Hk.
  split; [|lia]. replace (l1 ++ [x]) with (rev (x :: rev l1)) by (cbn; rewrite rev_involutive; reflexivity).
  rewrite nth_error_nth' with (d := x) by (rewrite rev_length; cbn; rewrite rev_length; lia).
  rewrite rev_nth by (cbn; rewrite rev_length; lia). cbn [length]. rewrite rev_length.
  replace (S (length l1) - S (length l1 - k))%nat with k by lia. apply nth_error_nth with (d := x) in H. rewrite H. reflexivity.
Qed.

Lemma lags_spec k before l x v : In (x, v) (lags k before l) ->
  exists l1 l2, l = l1 ++ x :: l2 /\ v = match nth_error (x :: rev l1 ++ before) k with Some y => s_val y | None => VNull end.
Proof.
  revert before. induction l as [|y l IH]; cbn [lags]; intros before H; [contradiction|]. destruct H as [H|H].
  - injection H as -> <-. exists [], l. split; reflexivity.
  - apply IH in H as [l1 [l2 [-> ->]]]. exists (y :: l1), l2. split; [reflexivity|]. cbn [rev]. rewrite <- app_assoc. reflexivity.
Qed.

Lemma consecutive_inj idx l : consecutive idx l -> forall i j a b, nth_error l i = Some a -> nth_error l j = Some b ->
  idx (s_t a) = idx (s_t b) -> i = j.
Proof.
  intros C i j a b Hi Hj E. destruct l as [|x l]; [destruct i; discriminate|].
  pose proof (consecutive_nth idx _ C i x a eq_refl Hi). pose proof (consecutive_nth idx _ C j x b eq_refl Hj). lia.
Qed.

(* on a gap-free sorted partition LAG k is the value of the period k earlier, NULL when the series starts later *)
Theorem lags_gap_free idx k P : consecutive idx P -> forall x v, In (x, v) (lags k [] P) ->
  (forall r, In r P -> idx (s_t r) = idx (s_t x) - Z.of_nat k -> v = s_val r) /\
  ((forall r, In r P -> idx (s_t r) <> idx (s_t x) - Z.of_nat k) -> v = VNull).
Proof.
  intros C x v H. apply lags_spec in H as [l1 [l2 [E ->]]]. rewrite app_nil_r.
  assert (Hpos : nth_error P (length l1) = Some x) by (rewrite E, nth_error_app2, Nat.sub_diag by lia; reflexivity).
  destruct (nth_error (x :: rev l1) k) as [y|] eqn:Hn.
  - apply nth_back in Hn as [Hn Hk].
    assert (Hy : nth_error P (length l1 - k) = Some y).
    { rewrite E. replace (l1 ++ x :: l2) with ((l1 ++ [x]) ++ l2) by (rewrite <- app_assoc; reflexivity).
      rewrite nth_error_app1; [exact Hn|]. rewrite app_length. cbn. lia. }
    assert (Hidx : idx (s_t y) = idx (s_t x) - Z.of_nat k).
    { destruct P as [|p0 P']; [destruct l1; discriminate|].
      pose proof (consecutive_nth idx _ C _ p0 x eq_refl Hpos). pose proof (consecutive_nth idx _ C _ p0 y eq_refl Hy). lia. }
    split.
    + intros r Hr Er. apply In_nth_error in Hr as [j Hj]. rewrite <- Hidx in Er.
      rewrite (consecutive_inj idx P C j _ r y Hj Hy Er) in Hj. congruence.
    + intros Hnone. exfalso. apply (Hnone y); [eapply nth_error_In; exact Hy|exact Hidx].
  - split; [|reflexivity]. intros r Hr Er. exfalso.
    apply nth_error_None in Hn. cbn [length] in Hn. rewrite rev_length in Hn.
    apply In_nth_error in Hr as [j Hj].
    destruct P as [|p0 P']; [destruct l1; discriminate|].
    pose proof (consecutive_nth idx _ C _ p0 x eq_refl Hpos). pose proof (consecutive_nth idx _ C _ p0 r eq_refl Hj). lia.
Qed.

Lemma find_filter {A} (f g : A -> bool) l : find f (filter g l) = find (fun x => g x && f x) l.
Proof. induction l as [|x l IH]; cbn; [reflexivity|]. destruct (g x); cbn; [destruct (f x); [reflexivity|exact IH]|exact IH]. Qed.

Definition gap_free (idx : Z -> Z) (rows : list srow) : Prop := forall P, In P (partitions None rows) -> consecutive idx P.

Theorem lag_spec idx k rows : gap_free idx rows -> forall x v, In (x, v) (lag k rows) -> In x rows /\ v = spec_prev idx k rows x.
Proof.
  intros G x v H. unfold lag in H. apply in_flat_map in H as [P [HP H]]. pose proof (G P HP) as C.
  apply in_partitions in HP as [kk [_ EP]]. cbn [pkey] in EP.
  set (Pk := filter (fun r => key_eqb (s_key r) kk) rows) in *.
  assert (Hx : In x P) by (apply lags_spec in H as [l1 [l2 [E _]]]; rewrite E; apply in_or_app; right; left; reflexivity).
  assert (HxP : In x Pk) by (apply (Permutation_in _ (Permutation_sym (sort_t_perm Pk))); rewrite <- EP; exact Hx).
  apply filter_In in HxP as [Hxr Hk]. apply key_eqb_true in Hk. split; [exact Hxr|].
  destruct (lags_gap_free idx k P C x v H) as [Hsome Hnone].
  unfold spec_prev. rewrite <- find_filter with (g := fun r => key_eqb (s_key r) (s_key x)). rewrite Hk. fold Pk.
  destruct (find (fun r => idx (s_t r) =? idx (s_t x) - Z.of_nat k) Pk) as [r|] eqn:F.
  - apply find_some in F as [Hr Er]. apply Z.eqb_eq in Er. apply Hsome; [|exact Er]. rewrite EP. apply (Permutation_in _ (sort_t_perm Pk)), Hr.
  - apply Hnone. intros r Hr Er. rewrite EP in Hr. apply (Permutation_in _ (Permutation_sym (sort_t_perm Pk))) in Hr.
    pose proof (find_none _ _ F r Hr) as Hf. cbn in Hf. apply Z.eqb_neq in Hf. contradiction.
Qed.

Theorem time_comparison_spec idx c k rows : gap_free idx rows -> forall x v, In (x, v) (time_comparison c k rows) ->
  In x rows /\ v = compare_calc c (s_val x) (spec_prev idx k rows x).
Proof.
  intros G x v H. unfold time_comparison in H. apply in_map_iff in H as [[y p] [E H]]. injection E as <- <-.
  destruct (lag_spec idx k rows G y p H) as [Hy ->]. split; [exact Hy|reflexivity].
Qed.

(* ---------- the offset table regenerated from the code ---------- *)
(* (comparison type, granularity, number of periods of that granularity per comparison period) for the calendar-exact entries *)
Definition exact_entries : list (string * string * Z) :=
  [("dod", "day", 1); ("wow", "day", 7); ("wow", "week", 1); ("mom", "month", 1); ("qoq", "month", 3); ("qoq", "quarter", 1);
   ("yoy", "month", 12); ("yoy", "quarter", 4); ("yoy", "year", 1);
   ("prior_period", "day", 1); ("prior_period", "week", 1); ("prior_period", "month", 1); ("prior_period", "quarter", 1); ("prior_period", "year", 1)]%string.
Lemma offsets_exact_table : forallb (fun '(c, g, n) => lag_offset (Some c) (Some g) =? n) exact_entries = true.
Proof. vm_compute. reflexivity. Qed.
Theorem offsets_exact c g n : In (c, g, n) exact_entries -> lag_offset (Some c) (Some g) = n.
Proof. intros H. pose proof offsets_exact_table as T. rewrite forallb_forall in T. apply Z.eqb_eq. exact (T _ H). Qed.
(* n fine periods per coarse period: going back n fine periods is exactly one coarse period back, same position inside it *)
Theorem period_shift n i : 0 < n -> (i - n) / n = i / n - 1 /\ (i - n) mod n = i mod n.
Proof.
  intros Hn. replace (i - n) with (i + (-1) * n) by lia. rewrite Z.div_add, Z.mod_add by lia. lia.
Qed.
Theorem offsets_positive c g : 1 <= lag_offset c g.
Proof.
  unfold lag_offset. destruct (negb (truthy c)); [lia|]. destruct (negb (truthy g)).
  - unfold assoc_get_default. destruct (assoc_get default_offsets (opt_str c)) as [v|] eqn:E; [|lia].
    apply assoc_get_in in E. cbn in E. repeat (destruct E as [E|E]; [injection E as _ <-; lia|]). contradiction.
  - destruct (assoc_get offset_map (opt_str c)) as [row|] eqn:E; [|lia]. unfold assoc_get_default.
    destruct (assoc_get row (opt_str g)) as [v|] eqn:E2; [|lia].
    apply assoc_get_in in E. apply assoc_get_in in E2. cbn in E.
    repeat (destruct E as [E|E]; [injection E as _ <-; cbn in E2; repeat (destruct E2 as [E2|E2]; [injection E2 as _ <-; lia|]); contradiction|]). contradiction.
Qed.

(* ---------- a concrete series: hypotheses are satisfiable, values as expected ---------- *)
Definition D (n : Z) : Z := n * UD.
Definition ex_rows : list srow :=
  [ {| s_t := D 2; s_key := [VStr "a"]; s_val := VInt 5 |}; {| s_t := D 1; s_key := [VStr "a"]; s_val := VInt 3 |};
    {| s_t := D 1; s_key := [VStr "b"]; s_val := VInt 10 |}; {| s_t := D 3; s_key := [VStr "a"]; s_val := VNull |};
    {| s_t := D 2; s_key := [VStr "b"]; s_val := VInt 0 |} ].
Lemma ex_unique : unique_periods None ex_rows.
Proof. unfold unique_periods. cbn. repeat constructor; cbn; intuition discriminate. Qed.
Lemma ex_gap_free : gap_free day_idx ex_rows.
Proof. intros P HP. vm_compute in HP. destruct HP as [<-|[<-|[]]]; repeat constructor. Qed.
Lemma ex_values :
  map (fun '(x, v) => (s_t x / UD, s_key x, v)) (cumulative CRunning ASum ex_rows) =
    [(1, [VStr "a"], RVal (VInt 3)); (2, [VStr "a"], RVal (VInt 8)); (3, [VStr "a"], RVal (VInt 8)); (1, [VStr "b"], RVal (VInt 10)); (2, [VStr "b"], RVal (VInt 10))] /\
  map (fun '(x, v) => (s_t x / UD, s_key x, v)) (time_comparison PercentChange 1 ex_rows) =
    [(1, [VStr "a"], VNull); (2, [VStr "a"], VRat 200 3); (3, [VStr "a"], VNull); (1, [VStr "b"], VNull); (2, [VStr "b"], VRat (-1000) 10)].
Proof. vm_compute. split; reflexivity. Qed.

(* without the partition by the other dimensions (the generator before the repair) the running total mixes groups *)
Definition unpartitioned_running (a : agg) (rows : list srow) : list (srow * result) :=
  map (fun '(x, fr) => (x, apply_agg a (map s_val fr))) (prefixes [] (sort_t rows)).
Lemma unpartitioned_refuted : exists x v, In (x, v) (unpartitioned_running ASum ex_rows) /\ v <> spec_cumulative CRunning ASum ex_rows x.
Proof.
  exists {| s_t := D 2; s_key := [VStr "a"]; s_val := VInt 5 |}, (RVal (VInt 18)). split; [vm_compute; tauto|vm_compute; discriminate].
Qed.
