(* C03: the FULL OUTER JOIN of two key-unique sub-query results is the union of their groups, each group once, with every
   sub-query's metric columns unchanged (NULL where the group is absent).  Three or more sub-queries: refuted. *)
From Coq Require Import ZArith String List Bool Lia.
Require Import V.Model.Sem V.Model.Single V.Model.Join V.Model.MultiFact V.Proofs.C01_proofs.
Import ListNotations.

Definition nulls (w : nat) : list result := repeat (RVal VNull) w.
Definition wf_sub (nd : nat) (s : list out_row) : Prop := forall o, In o s -> length (fst o) = nd.

Lemma nth_seq_id (k : list val) : map (fun i => nth i k VNull) (seq 0 (length k)) = k.
Proof.
  induction k as [|x k IH]; [reflexivity|]. cbn [length seq map nth]. f_equal.
  rewrite <- seq_shift, map_map. exact IH.
Qed.

Lemma coalesce_left nd k ms : length k = nd -> coalesce_keys nd [Some (k, ms); None] = k.
Proof.
  intros <-. unfold coalesce_keys. cbn [fold_right]. transitivity (map (fun i => nth i k VNull) (seq 0 (length k))); [|apply nth_seq_id]. apply map_ext. intros i. destruct (nth i k VNull); reflexivity.
Qed.
Lemma coalesce_right nd k ms : length k = nd -> coalesce_keys nd [None; Some (k, ms)] = k.
Proof.
  intros <-. unfold coalesce_keys. cbn [fold_right]. transitivity (map (fun i => nth i k VNull) (seq 0 (length k))); [|apply nth_seq_id]. apply map_ext. intros i. destruct (nth i k VNull); reflexivity.
Qed.
Lemma coalesce_both nd k ms1 ms2 : length k = nd -> coalesce_keys nd [Some (k, ms1); Some (k, ms2)] = k.
Proof.
  intros <-. unfold coalesce_keys. cbn [fold_right]. transitivity (map (fun i => nth i k VNull) (seq 0 (length k))); [|apply nth_seq_id]. apply map_ext. intros i. destruct (nth i k VNull); reflexivity.
Qed.

Definition matches (o1 : out_row) (s2 : list out_row) : list out_row := filter (fun c => key_eqb (fst o1) (fst c)) s2.
Definition unmatched (s1 s2 : list out_row) : list out_row := filter (fun c => negb (existsb (fun o1 => key_eqb (fst o1) (fst c)) s1)) s2.

(* exact shape of the two-way outer join *)
Theorem outer2_exact nd w1 w2 s1 s2 : wf_sub nd s1 -> wf_sub nd s2 ->
  (forall o, In o s1 -> length (snd o) = w1) ->
  outer_rows nd [w1; w2] [s1; s2] =
    flat_map (fun o1 => match matches o1 s2 with
                        | [] => [(fst o1, snd o1 ++ nulls w2)]
                        | cs => map (fun c => (fst o1, snd o1 ++ snd c)) cs end) s1
    ++ map (fun c => (fst c, nulls w1 ++ snd c)) (unmatched s1 s2).
Proof.
  intros W1 W2 L1. unfold outer_rows. cbn [join_all]. unfold join_next. rewrite map_app. f_equal.
  - rewrite flat_map_concat_map, map_map, <- flat_map_concat_map. rewrite flat_map_concat_map, concat_map, map_map, <- flat_map_concat_map.
    induction s1 as [|o1 s1 IH]; [reflexivity|]. cbn [flat_map]. f_equal.
    + cbn [first_key]. unfold nullsafe_eq, matches.
      assert (Hk : length (fst o1) = nd) by (apply W1; left; reflexivity). destruct o1 as [k1 m1]. cbn [fst snd] in *.
      destruct (filter (fun c => key_eqb k1 (fst c)) s2) as [|c cs] eqn:E.
      * cbn [map app]. rewrite coalesce_left by assumption. unfold metrics_of. cbn. rewrite app_nil_r. reflexivity.
      * assert (Hall : forall c0, In c0 (c :: cs) -> fst c0 = k1 /\ In c0 s2).
        { intros c0 H0. rewrite <- E in H0. apply filter_In in H0. destruct H0 as [H0 H1]. split; [symmetry; apply key_eqb_true; exact H1|exact H0]. }
        rewrite map_map. apply map_ext_in. intros [k2 m2] Hc. destruct (Hall _ Hc) as [Hk2 _]. cbn [fst] in Hk2. subst k2.
        cbn [app]. rewrite coalesce_both by assumption. unfold metrics_of. cbn. rewrite app_nil_r. reflexivity.
    + apply IH; [intros o Ho; apply W1; right; exact Ho | intros o Ho; apply L1; right; exact Ho].
  - rewrite map_map. unfold unmatched.
    assert (Hf : forall c : out_row, existsb (fun r : mrow => nullsafe_eq (first_key nd r) (fst c)) (map (fun o => [Some o]) s1) = existsb (fun o1 : out_row => key_eqb (fst o1) (fst c)) s1).
    { intros c. clear. induction s1 as [|o s1 IH]; [reflexivity|]. cbn [map existsb first_key]. unfold nullsafe_eq at 1. rewrite IH. reflexivity. }
    rewrite (filter_ext _ _ (fun c => f_equal negb (Hf c))).
    apply map_ext_in. intros [k2 m2] Hc. apply filter_In in Hc. destruct Hc as [Hc _]. cbn [repeat app fst snd].
    rewrite coalesce_right by (apply (W2 (k2, m2)); exact Hc). unfold metrics_of. cbn. rewrite app_nil_r. reflexivity.
Qed.

Definition keys (s : list out_row) : list (list val) := map fst s.

Lemma matches_le1 o1 s2 : NoDup (keys s2) -> length (matches o1 s2) <= 1.
Proof.
  unfold matches, keys. induction s2 as [|c s2 IH]; intros Hnd; [cbn; lia|]. cbn [map] in Hnd. inversion Hnd as [|? ? Hn Hnd']; subst.
  cbn [filter]. destruct (key_eqb (fst o1) (fst c)) eqn:E; [|apply IH, Hnd'].
  cbn [length]. assert (filter (fun c0 => key_eqb (fst o1) (fst c0)) s2 = []) as ->; [|cbn; lia].
  apply key_eqb_true in E. clear IH Hnd Hnd'. induction s2 as [|c2 s2 IH2]; [reflexivity|]. cbn [filter].
  destruct (key_eqb (fst o1) (fst c2)) eqn:E2.
  - exfalso. apply Hn. apply key_eqb_true in E2. left. congruence.
  - apply IH2. intros H. apply Hn. right. exact H.
Qed.

Lemma left_keys w2 s1 s2 : NoDup (keys s2) ->
  map fst (flat_map (fun o1 : out_row => match matches o1 s2 with
                                         | [] => [(fst o1, snd o1 ++ nulls w2)]
                                         | cs => map (fun c : out_row => (fst o1, snd o1 ++ snd c)) cs end) s1) = map fst s1.
Proof.
  intros Hnd. induction s1 as [|o1 s1 IH]; [reflexivity|]. cbn [flat_map]. rewrite map_app, IH.
  pose proof (matches_le1 o1 s2 Hnd) as Hle. destruct (matches o1 s2) as [|c [|c2 cs]]; cbn in Hle; try lia; reflexivity.
Qed.

(* groups of the joint result = groups of the first sub-query, then the groups only the second one has: the union, each once *)
Theorem outer2_keys nd w1 w2 s1 s2 : wf_sub nd s1 -> wf_sub nd s2 -> (forall o, In o s1 -> length (snd o) = w1) -> NoDup (keys s2) ->
  keys (outer_rows nd [w1; w2] [s1; s2]) = keys s1 ++ keys (unmatched s1 s2).
Proof.
  intros W1 W2 L1 Hnd. rewrite (outer2_exact nd w1 w2 s1 s2 W1 W2 L1). unfold keys. rewrite map_app. f_equal; [apply (left_keys w2 s1 s2 Hnd)|rewrite map_map; reflexivity].
Qed.

Lemma unmatched_disjoint s1 s2 k : In k (keys (unmatched s1 s2)) -> ~ In k (keys s1).
Proof.
  unfold keys, unmatched. intros H Hk. apply in_map_iff in H. destruct H as (c & <- & Hc). apply filter_In in Hc. destruct Hc as [_ Hc].
  apply in_map_iff in Hk. destruct Hk as (o1 & E & Ho1).
  assert (existsb (fun o1 => key_eqb (fst o1) (fst c)) s1 = true) as Hx.
  { apply existsb_exists. exists o1. split; [exact Ho1|]. rewrite E. apply key_eqb_refl. }
  rewrite Hx in Hc. discriminate.
Qed.

Lemma NoDup_app' {A} (l1 l2 : list A) : NoDup l1 -> NoDup l2 -> (forall x, In x l1 -> In x l2 -> False) -> NoDup (l1 ++ l2).
Proof.
  induction l1 as [|a l1 IH]; intros H1 H2 Hd; [exact H2|]. inversion H1 as [|? ? Ha H1']; subst. cbn. constructor.
  - intros H. apply in_app_or in H. destruct H as [H|H]; [contradiction|]. apply (Hd a); [left; reflexivity|exact H].
  - apply IH; auto. intros x Hx. apply Hd. right. exact Hx.
Qed.

Theorem outer2_nodup nd w1 w2 s1 s2 : wf_sub nd s1 -> wf_sub nd s2 -> (forall o, In o s1 -> length (snd o) = w1) ->
  NoDup (keys s1) -> NoDup (keys s2) -> NoDup (keys (outer_rows nd [w1; w2] [s1; s2])).
Proof.
  intros W1 W2 L1 N1 N2. rewrite (outer2_keys nd w1 w2 s1 s2 W1 W2 L1 N2).
  apply NoDup_app'; [exact N1| |].
  - unfold keys, unmatched. clear -N2. induction s2 as [|c s2 IH]; [constructor|]. cbn [map] in N2. inversion N2 as [|? ? Hn N2']; subst.
    cbn [filter]. destruct (negb _); [|apply IH, N2']. cbn [map]. constructor; [|apply IH, N2'].
    intros H. apply Hn. apply in_map_iff in H. destruct H as (x & E & Hx). apply filter_In in Hx. apply in_map_iff. exists x. tauto.
  - intros k H1 H2. exact (unmatched_disjoint s1 s2 k H2 H1).
Qed.

(* every sub-query's values survive unchanged, for every one of its groups *)
Theorem outer2_values_left nd w1 w2 s1 s2 o1 : wf_sub nd s1 -> wf_sub nd s2 -> (forall o, In o s1 -> length (snd o) = w1) -> In o1 s1 ->
  exists m2, In (fst o1, snd o1 ++ m2) (outer_rows nd [w1; w2] [s1; s2]) /\ (m2 = nulls w2 /\ ~ In (fst o1) (keys s2) \/ In (fst o1, m2) s2).
Proof.
  intros W1 W2 L1 Hin. rewrite (outer2_exact nd w1 w2 s1 s2 W1 W2 L1).
  destruct (matches o1 s2) as [|c cs] eqn:E.
  - exists (nulls w2). split.
    + apply in_or_app. left. apply in_flat_map. exists o1. split; [exact Hin|]. rewrite E. left. reflexivity.
    + left. split; [reflexivity|]. intros Hk. unfold keys in Hk. apply in_map_iff in Hk. destruct Hk as (c & Ec & Hc).
      assert (In c (matches o1 s2)) as Hm by (apply filter_In; split; [exact Hc|rewrite Ec; apply key_eqb_refl]). rewrite E in Hm. destruct Hm.
  - exists (snd c). assert (Hc : In c (matches o1 s2)) by (rewrite E; left; reflexivity). apply filter_In in Hc. destruct Hc as [Hc Hk]. apply key_eqb_true in Hk. split.
    + apply in_or_app. left. apply in_flat_map. exists o1. split; [exact Hin|]. rewrite E. apply in_map_iff. exists c. split; [reflexivity|left; reflexivity].
    + right. rewrite Hk. destruct c; exact Hc.
Qed.

Theorem outer2_values_right nd w1 w2 s1 s2 c : wf_sub nd s1 -> wf_sub nd s2 -> (forall o, In o s1 -> length (snd o) = w1) -> In c s2 ->
  exists m1, In (fst c, m1 ++ snd c) (outer_rows nd [w1; w2] [s1; s2]) /\ (m1 = nulls w1 /\ ~ In (fst c) (keys s1) \/ In (fst c, m1) s1).
Proof.
  intros W1 W2 L1 Hin. rewrite (outer2_exact nd w1 w2 s1 s2 W1 W2 L1).
  destruct (existsb (fun o1 => key_eqb (fst o1) (fst c)) s1) eqn:E.
  - apply existsb_exists in E. destruct E as (o1 & Ho1 & Hk). exists (snd o1). pose proof (key_eqb_true _ _ Hk) as Hk'. split.
    + apply in_or_app. left. apply in_flat_map. exists o1. split; [exact Ho1|].
      assert (Hm : In c (matches o1 s2)) by (apply filter_In; split; assumption).
      destruct (matches o1 s2) as [|c0 cs]; [destruct Hm|]. apply in_map_iff. exists c. split; [rewrite Hk'; reflexivity|exact Hm].
    + right. rewrite <- Hk'. destruct o1; exact Ho1.
  - exists (nulls w1). split.
    + apply in_or_app. right. apply in_map_iff. exists c. split; [reflexivity|]. apply filter_In. split; [exact Hin|rewrite E; reflexivity].
    + left. split; [reflexivity|]. intros Hk. unfold keys in Hk. apply in_map_iff in Hk. destruct Hk as (o1 & Eo & Ho1).
      assert (existsb (fun o1 => key_eqb (fst o1) (fst c)) s1 = true) as Hx by (apply existsb_exists; exists o1; split; [exact Ho1|rewrite Eo; apply key_eqb_refl]).
      congruence.
Qed.

(* ---------- three sub-queries: a group missing from the FIRST one is returned twice ---------- *)
Definition sA : list out_row := [ ([VStr "x"], [RVal (VInt 1)]) ].
Definition sB : list out_row := [ ([VStr "x"], [RVal (VInt 2)]); ([VStr "y"], [RVal (VInt 3)]) ].
Definition sC : list out_row := [ ([VStr "y"], [RVal (VInt 4)]) ].
Example three_way_refuted :
  outer_rows 1 [1; 1; 1] [sA; sB; sC] =
    [ ([VStr "x"], [RVal (VInt 1); RVal (VInt 2); RVal VNull]);
      ([VStr "y"], [RVal VNull; RVal (VInt 3); RVal VNull]);
      ([VStr "y"], [RVal VNull; RVal VNull; RVal (VInt 4)]) ].
Proof. vm_compute. reflexivity. Qed.
(* ... and a real NULL group of a later sub-query is glued to a row whose first side is merely missing *)
Definition sC' : list out_row := [ ([VNull], [RVal (VInt 9)]) ].
Example three_way_null_refuted :
  outer_rows 1 [1; 1; 1] [sA; sB; sC'] =
    [ ([VStr "x"], [RVal (VInt 1); RVal (VInt 2); RVal VNull]);
      ([VStr "y"], [RVal VNull; RVal (VInt 3); RVal (VInt 9)]) ].
Proof. vm_compute. reflexivity. Qed.
Example two_way_example :
  outer_rows 1 [1; 1] [sB; [ ([VNull], [RVal (VInt 9)]); ([VStr "y"], [RVal (VInt 4)]) ]] =
    [ ([VStr "x"], [RVal (VInt 2); RVal VNull]); ([VStr "y"], [RVal (VInt 3); RVal (VInt 4)]); ([VNull], [RVal VNull; RVal (VInt 9)]) ].
Proof. vm_compute. reflexivity. Qed.
