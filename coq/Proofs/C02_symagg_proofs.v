(* The shapes extracted from symmetric_aggregate.py mean exactly Join.sym_agg, and the decision table extracted from _has_fanout_joins is
   exactly the `fanout` flag Model/Plan.v computes. *)
From Coq Require Import ZArith String List Bool.
Require Import V.Base.PyLib V.Gen.RelKeys_gen V.Model.Graph V.Model.Sem V.Model.Single V.Model.Mult V.Model.Join V.Model.Plan V.Model.SymShape V.Gen.SymAgg_gen.
Import ListNotations.
Open Scope string_scope.

Lemma sym_sum_m_HM h pairs : sym_sum_m HM h pairs = sym_sum_z h pairs.
Proof. reflexivity. Qed.

Theorem shapes_mean_sym_agg h pairs :
  Forall (fun la => interp_shape h (shape_for sym_shapes (fst la)) pairs = sym_agg h (snd la) pairs) core_aggs.
Proof. repeat constructor. Qed.

Definition path_types (g : graph) (a b : string) : option (list string) :=
  match find_relationship_path g a b with Path p => Some (map (fun h => e_type (snd (fst h))) p) | _ => None end.

Theorem plan_fanout_is_model_fanout g base others :
  existsb (fun o => path_has g base o "one_to_many") others = model_fanout (map (path_types g base) others).
Proof.
  unfold model_fanout. induction others as [|o r IH]; [reflexivity|]. cbn [existsb map]. rewrite IH. f_equal.
  unfold path_has, path_types. destruct (find_relationship_path g base o) as [p| |]; try reflexivity.
  induction p as [|x p IHp]; [reflexivity|]. cbn [existsb map]. rewrite IHp. reflexivity.
Qed.
