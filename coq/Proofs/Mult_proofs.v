(* C02 core: a slot whose computed `safe` flag is true has multiplicity <= 1 in the final wide-row bag, for ANY list of join steps. *)
From Coq Require Import List Arith Bool Lia PeanoNat.
Require Import V.Model.Mult.
Import ListNotations.

Lemma count_app {A} (f : A -> bool) l1 l2 : count f (l1 ++ l2) = count f l1 + count f l2.
Proof. unfold count. rewrite filter_app, app_length. reflexivity. Qed.

Lemma count_flat_map {A B} (f : B -> bool) (g : A -> list B) l :
  count f (flat_map g l) = list_sum (map (fun x => count f (g x)) l).
Proof. induction l as [|x l IH]; cbn [flat_map map list_sum]; [reflexivity|]. rewrite count_app, IH. reflexivity. Qed.

Lemma list_sum_le {A} (f g : A -> nat) l : (forall x, In x l -> f x <= g x) ->
  list_sum (map f l) <= list_sum (map g l).
Proof.
  induction l as [|x l IH]; intros H; [cbn; lia|].
  pose proof (H x (or_introl eq_refl)) as Hx.
  assert (list_sum (map f l) <= list_sum (map g l)) as Hl by (apply IH; intros; apply H; right; assumption).
  unfold list_sum in *. cbn [map fold_right]. lia.
Qed.

Lemma list_sum_count {A} (f : A -> bool) l : list_sum (map (fun x => if f x then 1 else 0) l) = count f l.
Proof. unfold count. induction l as [|x l IH]; [reflexivity|]. cbn [map filter]. change (list_sum (?a :: ?r)) with (a + list_sum r). rewrite IH. destruct (f x); cbn [length]; lia. Qed.

Lemma slot_app_lt s w x : s < length w -> slot s (w ++ [x]) = slot s w.
Proof. intros H. unfold slot. apply app_nth1. exact H. Qed.
Lemma slot_app_eq w x : slot (length w) (w ++ [x]) = x.
Proof. unfold slot. rewrite app_nth2 by lia. rewrite Nat.sub_diag. reflexivity. Qed.

Definition to_one (st : step) : Prop := forall p, length (s_match st p) <= 1.
(* each child has at most one parent, and match lists have no duplicates *)
Definition to_many_ok (st : step) : Prop :=
  (forall p, NoDup (s_match st p)) /\ (forall p c, In c (s_match st p) <-> s_pof st c = Some p).
Lemma to_many_uniq st : to_many_ok st -> forall p1 p2 c, In c (s_match st p1) -> In c (s_match st p2) -> p1 = p2.
Proof. intros [_ H] p1 p2 c H1 H2. apply H in H1, H2. congruence. Qed.
Lemma classic_parent st r : to_many_ok st -> {p0 | In r (s_match st p0)} + {forall p, ~ In r (s_match st p)}.
Proof. intros [_ H]. destruct (s_pof st r) as [p0|] eqn:E; [left; exists p0; apply H; exact E | right; intros p Hp; apply H in Hp; congruence]. Qed.

(* 1. a to-one step never increases the multiplicity of an existing slot *)
Lemma to_one_existing st J n s r :
  to_one st -> (forall w, In w J -> length w = n) -> s < n ->
  mult (join_step st J) s r <= mult J s r.
Proof.
  intros H1 Hlen Hs. unfold mult, join_step. rewrite count_flat_map, <- list_sum_count.
  apply list_sum_le. intros w Hw. specialize (Hlen w Hw).
  unfold extend. destruct (slot (s_parent st) w) as [p|].
  - specialize (H1 p). destruct (s_match st p) as [|c [|c' cs]]; cbn in H1; try lia.
    + destruct (s_left st); cbn; [|destruct (has s r w); lia].
      unfold has. rewrite slot_app_lt by lia. destruct (slot s w) as [x|]; [destruct (x =? r)|]; cbn; lia.
    + cbn. unfold has. rewrite slot_app_lt by lia. destruct (slot s w) as [x|]; [destruct (x =? r)|]; cbn; lia.
  - destruct (s_left st); cbn; [|destruct (has s r w); lia].
    unfold has. rewrite slot_app_lt by lia. destruct (slot s w) as [x|]; [destruct (x =? r)|]; cbn; lia.
Qed.

Lemma count_map_new (w : wrow) c cs : NoDup cs ->
  count (has (length w) c) (map (fun c0 => w ++ [Some c0]) cs) = if in_dec Nat.eq_dec c cs then 1 else 0.
Proof.
  induction cs as [|x cs IH]; intros Hnd; [reflexivity|].
  inversion Hnd as [|? ? Hx Hnd']; subst. unfold count in *. cbn [map filter].
  unfold has at 1. rewrite slot_app_eq.
  destruct (Nat.eqb_spec x c) as [->|Hne].
  - cbn [length]. rewrite (IH Hnd'). destruct (in_dec Nat.eq_dec c cs); [contradiction|].
    destruct (in_dec Nat.eq_dec c (c :: cs)) as [|n0]; [reflexivity| exfalso; apply n0; left; reflexivity].
  - rewrite (IH Hnd'). destruct (in_dec Nat.eq_dec c cs) as [i1|n1], (in_dec Nat.eq_dec c (x :: cs)) as [i2|n2]; try reflexivity.
    + exfalso; apply n2; right; assumption.
    + destruct i2; [congruence|contradiction].
Qed.

(* 2. a to-many step: multiplicity of a child row = multiplicity of its (unique) parent row *)
Lemma to_many_child st J n c p0 :
  to_many_ok st -> (forall w, In w J -> length w = n) -> In c (s_match st p0) ->
  mult (join_step st J) n c <= mult J (s_parent st) p0.
Proof.
  intros Hok Hlen Hc. pose proof (to_many_uniq st Hok) as Huniq. destruct Hok as [Hnd _]. unfold mult, join_step. rewrite count_flat_map, <- list_sum_count.
  apply list_sum_le. intros w Hw. rewrite <- (Hlen w Hw).
  unfold extend, has at 2. destruct (slot (s_parent st) w) as [p|].
  - destruct (s_match st p) as [|c1 cs] eqn:E.
    + destruct (s_left st); cbn; [|lia]. unfold has. rewrite slot_app_eq. cbn. lia.
    + rewrite <- E. rewrite count_map_new by apply Hnd.
      destruct (in_dec Nat.eq_dec c (s_match st p)) as [i|]; [|lia].
      rewrite (Huniq _ _ _ i Hc). rewrite Nat.eqb_refl. lia.
  - destruct (s_left st); cbn; [|lia]. unfold has. rewrite slot_app_eq. cbn. lia.
Qed.

Lemma to_many_child_none st J n c :
  to_many_ok st -> (forall w, In w J -> length w = n) -> (forall p, ~ In c (s_match st p)) ->
  mult (join_step st J) n c = 0.
Proof.
  intros [Hnd _] Hlen Hc. unfold mult, join_step. rewrite count_flat_map.
  assert (forall l, (forall w, In w l -> length w = n) -> list_sum (map (fun x => count (has n c) (extend st x)) l) = 0) as H.
  { induction l as [|w l IH]; intros Hl; [reflexivity|]. cbn [map]. change (list_sum (?a :: ?r)) with (a + list_sum r). rewrite IH by (intros; apply Hl; right; assumption). rewrite Nat.add_0_r.
    rewrite <- (Hl w (or_introl eq_refl)). unfold extend. destruct (slot (s_parent st) w) as [p|].
    - destruct (s_match st p) as [|c1 cs] eqn:E.
      + destruct (s_left st); cbn; [|reflexivity]. unfold has. rewrite slot_app_eq. reflexivity.
      + rewrite <- E, count_map_new by apply Hnd. destruct (in_dec Nat.eq_dec c (s_match st p)); [exfalso; eapply Hc; eauto|reflexivity].
    - destruct (s_left st); cbn; [|reflexivity]. unfold has. rewrite slot_app_eq. reflexivity. }
  apply H, Hlen.
Qed.

Lemma join_step_length st J n : (forall w, In w J -> length w = n) -> forall w, In w (join_step st J) -> length w = S n.
Proof.
  intros Hlen w Hw. unfold join_step in Hw. apply in_flat_map in Hw. destruct Hw as (w0 & Hw0 & Hin).
  specialize (Hlen _ Hw0). unfold extend in Hin.
  destruct (slot (s_parent st) w0) as [p|].
  - destruct (s_match st p) as [|c1 cs].
    + destruct (s_left st); [destruct Hin as [<-|[]]; rewrite app_length; cbn; lia | destruct Hin].
    + apply in_map_iff in Hin. destruct Hin as (c & <- & _). rewrite app_length; cbn; lia.
  - destruct (s_left st); [destruct Hin as [<-|[]]; rewrite app_length; cbn; lia | destruct Hin].
Qed.

Definition step_ok (k : kind) (st : step) : Prop :=
  match k with ToOne => to_one st | ToMany => to_many_ok st | OneOne => to_one st /\ to_many_ok st end.

Lemma nth_map_false (l : list bool) s : nth s (map (fun _ => false) l) false = false.
Proof. revert s; induction l as [|x l IH]; intros [|s]; cbn; auto. Qed.

Definition inv (J : list wrow) (safe : list bool) (n : nat) : Prop :=
  length safe = n /\ (forall w, In w J -> length w = n) /\
  forall s, nth s safe false = true -> forall r, mult J s r <= 1.

Lemma inv_step k st J safe n : step_ok k st -> s_parent st < n -> inv J safe n ->
  inv (join_step st J) (safe_step k (s_parent st) safe) (S n).
Proof.
  intros Hok Hp (Hls & Hlen & Hm). split; [|split].
  - destruct k; cbn; rewrite app_length, ?map_length; cbn; lia.
  - apply join_step_length, Hlen.
  - intros s Hs r.
    assert (s < S n) as Hlt.
    { destruct (Nat.lt_ge_cases s (S n)) as [|Hge]; [assumption|]. exfalso.
      rewrite nth_overflow in Hs; [discriminate|].
      destruct k; cbn; rewrite app_length, ?map_length; cbn; lia. }
    destruct (Nat.eq_dec s n) as [->|Hne].
    + (* the new child slot *)
      destruct k; cbn [safe_step] in Hs.
      * rewrite app_nth2, Hls, Nat.sub_diag in Hs by lia. discriminate.
      * rewrite app_nth2, map_length, Hls, Nat.sub_diag in Hs by (rewrite map_length; lia). cbn in Hs.
        destruct (classic_parent st r Hok) as [[p0 Hp0]|Hnone].
        -- etransitivity; [apply (to_many_child st J n r p0 Hok Hlen Hp0)| apply Hm, Hs].
        -- rewrite (to_many_child_none st J n r Hok Hlen Hnone). lia.
      * rewrite app_nth2, Hls, Nat.sub_diag in Hs by lia. cbn in Hs. destruct Hok as [_ Hok].
        destruct (classic_parent st r Hok) as [[p0 Hp0]|Hnone].
        -- etransitivity; [apply (to_many_child st J n r p0 Hok Hlen Hp0)| apply Hm, Hs].
        -- rewrite (to_many_child_none st J n r Hok Hlen Hnone). lia.
    + (* an existing slot *)
      assert (s < n) by lia.
      destruct k; cbn [safe_step] in Hs.
      * rewrite app_nth1 in Hs by lia. etransitivity; [apply (to_one_existing st J n s r Hok Hlen); lia | apply Hm, Hs].
      * rewrite app_nth1 in Hs by (rewrite map_length; lia).
        rewrite nth_map_false in Hs. discriminate.
      * rewrite app_nth1 in Hs by lia. destruct Hok as [Hok _].
        etransitivity; [apply (to_one_existing st J n s r Hok Hlen); lia | apply Hm, Hs].
Qed.

Theorem safe_mult steps : forall J safe n,
  inv J safe n ->
  (fix ok (ss : list (kind * step)) (n : nat) : Prop :=
     match ss with [] => True | (k, st) :: r => step_ok k st /\ s_parent st < n /\ ok r (S n) end) steps n ->
  let '(J', safe') := run J safe steps in
  forall s, nth s safe' false = true -> forall r, mult J' s r <= 1.
Proof.
  induction steps as [|[k st] r IH]; intros J safe n Hinv Hok; cbn [run].
  - destruct Hinv as (_ & _ & H). exact H.
  - destruct Hok as (H1 & H2 & H3). apply (IH _ _ (S n)); [apply inv_step; assumption | exact H3].
Qed.

