(* The whole joined query: when every metric of the query meets one of the three conditions of metric_correct, the rows of the generated query
   are exactly the reference rows (no metric is multiplied, in any group), and the query is not rejected. *)
From Coq Require Import ZArith String List Bool.
Require Import V.Model.Sem V.Model.Single V.Model.Mult V.Model.Join V.Proofs.C02_proofs.
Import ListNotations.

Definition metric_ok (h : val -> Z) (q : jquery) (m : jmetric) : Prop :=
  let a := ms_agg (jm_measure m) in
  (jm_sym m = false /\ metric_safe q m = true)
  \/ (a = ACountDistinct \/ a = AMin \/ a = AMax)
  \/ (jm_sym m = true /\ (a = ASum \/ a = AAvg \/ a = ACount) /\ sym_ok h (nth (jm_slot m) (jq_tables q) []) (jm_pk m) (jm_measure m)).

Lemma all_some_map {A B} (f : A -> option B) (g : A -> B) l : (forall x, In x l -> f x = Some (g x)) -> all_some (map f l) = Some (map g l).
Proof.
  induction l as [|x l IH]; intros H; [reflexivity|]. cbn [map all_some]. rewrite (H x (or_introl eq_refl)), IH; [reflexivity|].
  intros y Hy. apply H. right. exact Hy.
Qed.

Lemma ok_not_rejected h q : (forall m, In m (jq_metrics q) -> metric_ok h q m) -> rejected q = false.
Proof.
  intros H. unfold rejected. destruct (existsb _ (jq_metrics q)) eqn:E; [|reflexivity]. exfalso.
  apply existsb_exists in E. destruct E as (m & Hm & E). apply andb_true_iff in E. destruct E as [Es Ea].
  destruct (H m Hm) as [[Hs _]|[Hset|(_ & Hagg & _)]].
  - congruence.
  - destruct (ms_agg (jm_measure m)); try discriminate. destruct Hset as [X|[X|X]]; discriminate.
  - destruct (ms_agg (jm_measure m)); try discriminate. destruct Hagg as [X|[X|X]]; discriminate.
Qed.

Theorem query_correct h q : card_truthful (jq_tables q) 0 (jq_steps q) -> (forall m, In m (jq_metrics q) -> metric_ok h q m) ->
  run_join h q = Some (spec_join q).
Proof.
  intros Hc Hok. unfold run_join. rewrite (ok_not_rejected h q Hok). unfold spec_join. fold (the_groups q).
  apply all_some_map. intros [k g] Hin.
  rewrite (all_some_map (fun m => metric_val h (jq_tables q) m g) (fun m => spec_metric_join (jq_tables q) m g)); [reflexivity|].
  intros m Hm. apply (metric_correct h q m k g Hc Hin). exact (Hok m Hm).
Qed.
