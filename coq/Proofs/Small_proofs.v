From Coq Require Import String Ascii List Bool Arith Lia.
Require Import V.Model.Valid V.Model.Required V.Model.SmallFns V.Gen.Small_gen.
Import ListNotations.
Open Scope string_scope.

Lemma conj_table_ok : forallb conj_row_ok conj_rows = true. Proof. vm_compute. reflexivity. Qed.
Lemma fill_table_ok : forallb fill_row_ok fill_rows = true. Proof. vm_compute. reflexivity. Qed.
Lemma dimref_table_ok : forallb dimref_row_ok dimref_rows = true. Proof. vm_compute. reflexivity. Qed.
Lemma aggsql_table_ok : forallb aggsql_row_ok aggsql_rows = true. Proof. vm_compute. reflexivity. Qed.

(* ---- conjunction: shape for any list *)
Lemma join_conjuncts_cons2 : forall a b l, join_conjuncts (a :: b :: l) = paren a ++ " AND " ++ join_conjuncts (b :: l).
Proof. intros. reflexivity. Qed.
Lemma join_conjuncts_single : forall a, join_conjuncts [a] = paren a.
Proof. intros. reflexivity. Qed.

(* ---- dimension references: `ref__gran` splits back into (ref, gran) for ANY reference text, when the granularity is a plain word *)
Definition is_letter (c : ascii) : bool := let n := nat_of_ascii c in (Nat.leb 65 n && Nat.leb n 90) || (Nat.leb 97 n && Nat.leb n 122).

Lemma letter_not_underscore : forall c, is_letter c = true -> Ascii.eqb "_"%char c = false.
Proof.
  intros c H. destruct (Ascii.eqb "_"%char c) eqn:E; [|reflexivity].
  apply Ascii.eqb_eq in E. subst c. vm_compute in H. discriminate.
Qed.

Lemma starts_dunder_letter : forall c r, is_letter c = true -> starts_with "__" (String c r) = false.
Proof. intros c r H. cbn [starts_with]. rewrite (letter_not_underscore c H). reflexivity. Qed.

Lemma no_dunder_in_word : forall g acc best, all_chars is_letter g = true -> last_dunder_prefix acc g best = best.
Proof.
  induction g as [|c g IH]; intros acc best H; cbn [last_dunder_prefix]; [reflexivity|].
  cbn [all_chars] in H. apply andb_true_iff in H. destruct H as [Hc Hg].
  rewrite (starts_dunder_letter c g Hc). apply IH. exact Hg.
Qed.

Lemma word_not_starting_underscore : forall g, all_chars is_letter g = true -> starts_with "__" (String "_"%char g) = false.
Proof.
  intros g H. destruct g as [|c g]; [reflexivity|].
  cbn [all_chars] in H. apply andb_true_iff in H. destruct H as [Hc _].
  cbn [starts_with]. rewrite (letter_not_underscore c Hc). rewrite andb_false_r. reflexivity.
Qed.

Lemma app_assoc_s : forall a b c : string, (a ++ b) ++ c = a ++ (b ++ c).
Proof. induction a as [|x a IH]; intros; cbn [append]; [reflexivity|]. rewrite IH. reflexivity. Qed.

Lemma last_dunder_split : forall p g acc best, all_chars is_letter g = true ->
  last_dunder_prefix acc (p ++ "__" ++ g) best = Some (acc ++ p).
Proof.
  induction p as [|c p IH]; intros g acc best Hg.
  - change ("" ++ "__" ++ g) with (String "_"%char (String "_"%char g)).
    cbn [last_dunder_prefix].
    replace (starts_with "__" (String "_"%char (String "_"%char g))) with true by reflexivity.
    rewrite (word_not_starting_underscore g Hg).
    rewrite no_dunder_in_word by exact Hg.
    f_equal. induction acc as [|x acc IHa]; cbn [append]; [reflexivity|]. rewrite <- IHa. reflexivity.
  - change (String c p ++ "__" ++ g) with (String c (p ++ "__" ++ g)).
    cbn [last_dunder_prefix]. rewrite IH by exact Hg. f_equal. rewrite app_assoc_s. reflexivity.
Qed.

Lemma length_app_s : forall a b : string, String.length (a ++ b) = String.length a + String.length b.
Proof. induction a as [|x a IH]; intros; cbn [append String.length]; [reflexivity|]. rewrite IH. reflexivity. Qed.

Lemma substring_all : forall s, substring 0 (String.length s) s = s.
Proof. induction s as [|c s IH]; cbn [substring String.length]; [reflexivity|]. rewrite IH. reflexivity. Qed.

Lemma substring_skip : forall a b n, substring (String.length a) n (a ++ b) = substring 0 n b.
Proof. induction a as [|x a IH]; intros; cbn [append String.length]; [reflexivity|]. cbn [substring]. apply IH. Qed.

Theorem parse_dimref_roundtrip : forall p g, all_chars is_letter g = true -> parse_dimref (p ++ "__" ++ g) = (p, Some g).
Proof.
  intros p g Hg. unfold parse_dimref. rewrite (last_dunder_split p g "" None Hg). change ("" ++ p) with p.
  f_equal. f_equal.
  replace (p ++ "__" ++ g) with ((p ++ "__") ++ g) by apply app_assoc_s.
  replace (String.length p + 2) with (String.length (p ++ "__")) by (rewrite length_app_s; reflexivity).
  rewrite substring_skip.
  replace (String.length ((p ++ "__") ++ g) - String.length p - 2) with (String.length g)
    by (rewrite !length_app_s; cbn [String.length]; lia).
  apply substring_all.
Qed.

(* a reference without "__" has no granularity: in particular every plain `model.dimension` of letters, digits-free names and dots *)
Lemma no_dunder_none : forall d, last_dunder_prefix "" d None = None -> parse_dimref d = (d, None).
Proof. intros d H. unfold parse_dimref. rewrite H. reflexivity. Qed.

(* ---- fill_nulls: the text value never ends the literal early: every quote of the value is doubled *)
Fixpoint count_quotes (s : string) : nat :=
  match s with EmptyString => 0 | String c r => (if Ascii.eqb c "'"%char then 1 else 0) + count_quotes r end.
Lemma double_quotes_even : forall s, count_quotes (double_quotes s) = 2 * count_quotes s.
Proof.
  induction s as [|c s IH]; [reflexivity|]. cbn [double_quotes].
  destruct (Ascii.eqb c "'"%char) eqn:E; cbn [count_quotes]; rewrite ?E, IH; lia.
Qed.

(* ---- aggregation text: shape for every aggregation literal and every pair of names *)
Lemma agg_sql_shape : forall agg m n,
  agg_sql agg m n = (if String.eqb (upper agg) "COUNT_DISTINCT" then "COUNT(DISTINCT " ++ cte_ref m (n ++ "_raw") ++ ")"
                     else upper agg ++ "(" ++ cte_ref m (n ++ "_raw") ++ ")").
Proof. intros. reflexivity. Qed.
