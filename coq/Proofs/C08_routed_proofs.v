From Coq Require Import String List Bool Arith.
Require Import V.Model.Valid V.Model.TryRoute V.Model.MultiFactShape V.Model.Routed V.Gen.Routed_gen.
Import ListNotations.
Open Scope string_scope.

Lemma routed_table_ok : forallb routed_row_ok routed_rows = true.
Proof. vm_compute. reflexivity. Qed.

(* the statement groups by EVERY requested dimension (positions 1 .. n) and has one select item per requested dimension, in request order, before the metrics *)
Theorem routed_dimension_items : forall td gran dims mets filters order_by limit offset ac,
  let '(sel, _, grp, _, _, _) := routed_build (td, gran, dims, mets, filters, order_by, limit, offset, ac) in
  firstn (length dims) sel = map (dim_item td gran) dims /\
  grp = match dims with [] => None | _ => Some (String.concat ", " (map nat_s (seq 1 (length dims)))) end.
Proof.
  intros. cbn [routed_build]. split; [|reflexivity].
  rewrite <- (map_length (dim_item td gran) dims) at 1. rewrite firstn_app, Nat.sub_diag, firstn_all. cbn [firstn]. apply app_nil_r.
Qed.

(* a count is never NULL in the routed statement; a requested granularity always yields a column named <dimension>__<granularity> *)
Theorem routed_count_coalesced : forall ac ref, metric_item ac (ref, Some "count") = ["COALESCE(SUM(" ++ (strip_model ref ++ "_raw") ++ "), 0) as " ++ strip_model ref].
Proof. intros. reflexivity. Qed.
