(* Proofs for C20: query validation rejects every ill-formed reference and every disconnected pair of models (whatever form the
   references take), accepted queries only touch joinable models, and a model name is recovered from its CTE alias. *)
From Coq Require Import String Ascii List Bool Lia.
Require Import V.Base.PyLib V.Model.Graph V.Model.Valid V.Proofs.C10_proofs.
Import ListNotations.
Open Scope string_scope.
Open Scope list_scope.

Section Validate.
Variable ms : list vmodel.
Variable g : graph.
Variable gm : gmetrics.
Variable metrics : list mref.
Variable dims : list dref.
Notation errors := (validate_query ms g gm metrics dims).

Lemma in_metric_part r e : In r metrics -> In e (metric_errors ms gm r) -> In e errors.
Proof. intros Hr He. unfold validate_query. apply in_or_app. left. apply in_flat_map. exists r. split; assumption. Qed.
Lemma in_dim_part d e : In d dims -> In e (dim_errors ms d) -> In e errors.
Proof. intros Hd He. unfold validate_query. apply in_or_app. right. apply in_or_app. left. apply in_flat_map. exists d. split; assumption. Qed.

Theorem reject_unknown_metric_model m f : In (MQual m f) metrics -> find_vm ms m = None -> In (EModel m) errors.
Proof. intros H E. apply (in_metric_part _ _ H). cbn. rewrite E. left. reflexivity. Qed.
Theorem reject_unknown_metric m f vm : In (MQual m f) metrics -> find_vm ms m = Some vm -> mem f (vm_metrics vm) = false -> In (EMetric m f) errors.
Proof. intros H E Hm. apply (in_metric_part _ _ H). cbn. rewrite E, Hm. left. reflexivity. Qed.
Theorem reject_unknown_graph_metric n : In (MBare n) metrics -> find_gm gm n = None -> In (EBareMetric n) errors.
Proof. intros H E. apply (in_metric_part _ _ H). cbn. rewrite E. left. reflexivity. Qed.
Theorem reject_unknown_dim_model d m : In d dims -> dq_model d = Some m -> find_vm ms m = None -> In (EModel m) errors.
Proof. intros H Em E. apply (in_dim_part _ _ H). unfold dim_errors. apply in_or_app. right. rewrite Em, E. left. reflexivity. Qed.
Theorem reject_unknown_dim d m vm : In d dims -> dq_model d = Some m -> find_vm ms m = Some vm -> find_dim vm (dq_dim d) = None -> In (EDim m (dq_dim d)) errors.
Proof. intros H Em E Ed. apply (in_dim_part _ _ H). unfold dim_errors. apply in_or_app. right. rewrite Em, E, Ed. left. reflexivity. Qed.
Theorem reject_bad_granularity d gr : In d dims -> dq_gran d = Some gr -> mem gr gran_names = false -> In (EGran gr) errors.
Proof. intros H Eg Hm. apply (in_dim_part _ _ H). unfold dim_errors. apply in_or_app. left. rewrite Eg, Hm. left. reflexivity. Qed.
Theorem reject_granularity_on_non_time d m vm gr : In d dims -> dq_model d = Some m -> find_vm ms m = Some vm ->
  find_dim vm (dq_dim d) = Some false -> dq_gran d = Some gr -> In (ENonTime m (dq_dim d)) errors.
Proof. intros H Em E Ed Eg. apply (in_dim_part _ _ H). unfold dim_errors. apply in_or_app. right. rewrite Em, E, Ed, Eg. left. reflexivity. Qed.
Theorem reject_unqualified_dim d : In d dims -> dq_model d = None -> In (EFormat (dq_dim d)) errors.
Proof. intros H Em. apply (in_dim_part _ _ H). unfold dim_errors. apply in_or_app. right. rewrite Em. left. reflexivity. Qed.

(* every dimension reference contributes its model to the join check, with or without a granularity suffix *)
Theorem dims_count_for_joins d m : In d dims -> dq_model d = Some m -> In m (query_models gm metrics dims).
Proof.
  intros H Em. unfold query_models. apply in_or_app. right. apply in_flat_map. exists d. split; [exact H|]. rewrite Em. left. reflexivity.
Qed.
Theorem metrics_count_for_joins m f : In (MQual m f) metrics -> In m (query_models gm metrics dims).
Proof. intros H. unfold query_models. apply in_or_app. left. apply in_flat_map. exists (MQual m f). split; [exact H|left; reflexivity]. Qed.

Lemma pairs_after_complete {A} (l : list A) a b : NoDup l -> In a l -> In b l -> a <> b -> In (a, b) (pairs_after l) \/ In (b, a) (pairs_after l).
Proof.
  induction l as [|x l IH]; intros Hnd Ha Hb Hne; [destruct Ha|]. inversion Hnd as [|? ? Hx Hnd']; subst. cbn [pairs_after].
  destruct Ha as [<-|Ha], Hb as [<-|Hb].
  - contradiction.
  - left. apply in_or_app. left. apply in_map. exact Hb.
  - right. apply in_or_app. left. apply in_map. exact Ha.
  - destruct (IH Hnd' Ha Hb Hne) as [H|H]; [left|right]; apply in_or_app; right; exact H.
Qed.

(* two registered models touched by the query (through ANY reference) that no chain of relationships connects are reported *)
Theorem reject_disconnected a b : NoDup (map g_name g) ->
  In a (query_models gm metrics dims) -> In b (query_models gm metrics dims) -> has_model g a = true -> has_model g b = true -> a <> b ->
  (forall p, ~ gchain g a p b) -> (forall p, ~ gchain g b p a) -> In (ENoPath a b) errors \/ In (ENoPath b a) errors.
Proof.
  intros Hnd Ha Hb Ra Rb Hne Hab Hba.
  set (l := filter (has_model g) (nodup string_dec (query_models gm metrics dims))).
  assert (Hl : NoDup l) by (apply NoDup_filter, NoDup_nodup).
  assert (Ia : In a l) by (apply filter_In; split; [apply nodup_In, Ha|exact Ra]).
  assert (Ib : In b l) by (apply filter_In; split; [apply nodup_In, Hb|exact Rb]).
  destruct (pairs_after_complete l a b Hl Ia Ib Hne) as [H|H]; [left|right]; unfold validate_query; apply in_or_app; right; apply in_or_app; right.
  - apply in_map_iff. exists (a, b). split; [reflexivity|]. apply unjoinable_reported; try assumption.
  - apply in_map_iff. exists (b, a). split; [reflexivity|]. apply unjoinable_reported; try assumption. intros E. apply Hne. symmetry. exact E.
Qed.

(* an accepted query only touches registered-and-joinable models *)
Theorem accepted_joinable a b : errors = [] ->
  In (a, b) (pairs_after (filter (has_model g) (nodup string_dec (query_models gm metrics dims)))) -> exists p, gchain g a p b.
Proof.
  intros He Hin. apply (joinable_when_accepted g (nodup string_dec (query_models gm metrics dims))); [|exact Hin].
  unfold validate_query in He. apply app_eq_nil in He as [_ He]. apply app_eq_nil in He as [_ He]. apply map_eq_nil in He. exact He.
Qed.
Theorem accepted_refs_resolve : errors = [] -> (forall r, In r metrics -> metric_errors ms gm r = []) /\ (forall d, In d dims -> dim_errors ms d = []).
Proof.
  intros He. unfold validate_query in He. apply app_eq_nil in He as [H1 He]. apply app_eq_nil in He as [H2 _]. split.
  - intros r Hr. destruct (metric_errors ms gm r) as [|e l] eqn:E; [reflexivity|]. exfalso.
    assert (In e (flat_map (metric_errors ms gm) metrics)) by (apply in_flat_map; exists r; split; [exact Hr|rewrite E; left; reflexivity]). rewrite H1 in H. destruct H.
  - intros d Hd. destruct (dim_errors ms d) as [|e l] eqn:E; [reflexivity|]. exfalso.
    assert (In e (flat_map (dim_errors ms) dims)) by (apply in_flat_map; exists d; split; [exact Hd|rewrite E; left; reflexivity]). rewrite H2 in H. destruct H.
Qed.
End Validate.

(* ---------- the model name is recovered from its CTE alias ---------- *)
Lemma recover_cte_name_gen : forall fuel m,
  contains CTE m = false -> String.length m < fuel -> remove_all fuel CTE (m ++ CTE) = m.
Proof.
  induction fuel as [|fuel IH]; intros m Hc Hlen; [lia|].
  destruct m as [|c r].
  - cbn. destruct fuel; reflexivity.
  - cbn [append remove_all].
    cbn [contains] in Hc. apply orb_false_iff in Hc. destruct Hc as [Hs Hc].
    assert (starts_with CTE (String c (r ++ CTE)) = false) as Hs'.
    { unfold CTE in *. cbn [starts_with] in *.
      destruct (Ascii.eqb "_" c) eqn:E0; [|reflexivity]. cbn [andb] in *.
      destruct r as [|c1 r1]; cbn [append starts_with] in *; [reflexivity|].
      destruct (Ascii.eqb "c" c1) eqn:E1; [|reflexivity]. cbn [andb] in *.
      destruct r1 as [|c2 r2]; cbn [append starts_with] in *; [reflexivity|].
      destruct (Ascii.eqb "t" c2) eqn:E2; [|reflexivity]. cbn [andb] in *.
      destruct r2 as [|c3 r3]; cbn [append starts_with] in *; [reflexivity|].
      destruct (Ascii.eqb "e" c3) eqn:E3; [|reflexivity]. cbn [andb] in *. discriminate. }
    rewrite Hs'. f_equal. apply IH; [exact Hc|cbn in Hlen; lia].
Qed.
Theorem recover_cte_name m : contains CTE m = false -> recover (cte_name m) = m.
Proof.
  intros H. unfold recover, cte_name, py_remove. apply recover_cte_name_gen; [exact H|].
  assert (forall a b, String.length (a ++ b) = String.length a + String.length b) as L
    by (induction a; intros; cbn; [reflexivity|f_equal; auto]).
  rewrite L. cbn. lia.
Qed.
Example recover_refuted : recover (cte_name "x_cte_y") = "x_y".
Proof. reflexivity. Qed.

(* ---------- a concrete query: two disconnected models, one reached only through a granular time dimension ---------- *)
Definition ex_ms : list vmodel :=
  [ {| vm_name := "orders"; vm_dims := [("status", false); ("created", true)]; vm_metrics := ["revenue"] |};
    {| vm_name := "visits"; vm_dims := [("visited_at", true)]; vm_metrics := ["n"] |} ].
Definition ex_g : graph := [ {| g_name := "orders"; g_pk := KStr "id"; g_rels := [] |}; {| g_name := "visits"; g_pk := KStr "id"; g_rels := [] |} ].
Example ex_disconnected_granular :
  validate_query ex_ms ex_g [] [MQual "orders" "revenue"] [ {| dq_model := Some "visits"; dq_dim := "visited_at"; dq_gran := Some "month" |} ] = [ENoPath "orders" "visits"] /\
  validate_query ex_ms ex_g [] [MQual "orders" "revenue"] [ {| dq_model := Some "orders"; dq_dim := "status"; dq_gran := Some "month" |};
                                                            {| dq_model := Some "orders"; dq_dim := "created"; dq_gran := Some "decade" |} ] = [ENonTime "orders" "status"; EGran "decade"] /\
  validate_query ex_ms ex_g [] [MQual "orders" "revenue"] [ {| dq_model := Some "orders"; dq_dim := "created"; dq_gran := Some "week" |} ] = [].
Proof. vm_compute. repeat split; reflexivity. Qed.
