(* C04: filters restrict rows the same way wherever they are evaluated. *)
From Coq Require Import ZArith String List Bool Lia Permutation.
Require Import V.Model.Sem V.Model.Single V.Model.Mult V.Model.Join V.Proofs.Mult_proofs V.Proofs.C02_proofs.
Import ListNotations.
Open Scope nat_scope.

(* ---------- conjunctions, splitting and order (three-valued logic: WHERE keeps a row only when the predicate is TRUE) ---------- *)
Lemma is_true_and3 a b : is_true (and3 a b) = is_true a && is_true b.
Proof. destruct a as [| | | |[|]], b as [| | | |[|]]; reflexivity. Qed.

Theorem and_split r a b : holds r (And a b) = holds r a && holds r b.
Proof. unfold holds. cbn [eval]. apply is_true_and3. Qed.

Theorem conj_as_list fs a b r : all_hold (And a b :: fs) r = all_hold (a :: b :: fs) r.
Proof. unfold all_hold. cbn [forallb]. rewrite and_split, andb_assoc. reflexivity. Qed.

Theorem all_hold_app fs1 fs2 r : all_hold (fs1 ++ fs2) r = all_hold fs1 r && all_hold fs2 r.
Proof. unfold all_hold. apply forallb_app. Qed.

Theorem all_hold_perm fs1 fs2 r : Permutation fs1 fs2 -> all_hold fs1 r = all_hold fs2 r.
Proof.
  unfold all_hold. intros H. induction H; cbn [forallb]; try congruence.
  - destruct (holds r x), (holds r y); reflexivity.
Qed.

Theorem filter_order_free fs1 fs2 (rows : list row) : Permutation fs1 fs2 -> filter (all_hold fs1) rows = filter (all_hold fs2) rows.
Proof. intros H. apply filter_ext. intros r. apply all_hold_perm. exact H. Qed.

(* applying filters one after the other = applying them together *)
Theorem filter_sequential fs1 fs2 (rows : list row) : filter (all_hold fs2) (filter (all_hold fs1) rows) = filter (all_hold (fs1 ++ fs2)) rows.
Proof.
  induction rows as [|r rows IH]; [reflexivity|]. cbn [filter]. rewrite all_hold_app.
  destruct (all_hold fs1 r); cbn [filter andb]; [destruct (all_hold fs2 r); rewrite IH; reflexivity|exact IH].
Qed.

(* ---------- pushdown: filtering the child table before an INNER join = filtering the wide rows after a LEFT join ---------- *)
(* the last join step: INNER join against the child rows that satisfy q  ==  LEFT (or INNER) join against all child rows, then
   keep the wide rows whose new slot holds a row satisfying q *)
Theorem pushdown_last_step (st : step) (q : nat -> bool) (J : list wrow) n :
  (forall w, In w J -> length w = n) ->
  join_step {| s_parent := s_parent st; s_match := fun p => filter q (s_match st p); s_pof := s_pof st; s_left := false |} J =
  filter (fun w => match slot n w with Some c => q c | None => false end) (join_step st J).
Proof.
  intros Hlen. unfold join_step. induction J as [|w J IH]; [reflexivity|]. cbn [flat_map]. rewrite filter_app, <- IH by (intros; apply Hlen; right; assumption).
  f_equal. specialize (Hlen w (or_introl eq_refl)). unfold extend. cbn [s_parent s_match s_left].
  destruct (slot (s_parent st) w) as [p|].
  - assert (G : forall cs, filter (fun w0 => match slot n w0 with Some c => q c | None => false end) (map (fun c => w ++ [Some c]) cs) = map (fun c => w ++ [Some c]) (filter q cs)).
    { induction cs as [|c cs IHc]; [reflexivity|]. cbn [map filter]. rewrite <- Hlen at 1. rewrite slot_app_eq. destruct (q c); cbn [map]; rewrite IHc; reflexivity. }
    destruct (s_match st p) as [|c cs] eqn:E.
    + cbn [filter]. destruct (s_left st); cbn [filter]; [rewrite <- Hlen, slot_app_eq; reflexivity|reflexivity].
    + rewrite G. destruct (filter q (c :: cs)); reflexivity.
  - destruct (s_left st); cbn [filter]; [rewrite <- Hlen, slot_app_eq; reflexivity|reflexivity].
Qed.

(* ---------- semi-join reading: after an INNER step every wide row carries a child row ---------- *)
Theorem inner_step_some (st : step) (J : list wrow) n : s_left st = false -> (forall w, In w J -> length w = n) ->
  forall w, In w (join_step st J) -> exists c, slot n w = Some c.
Proof.
  intros Hl Hlen w Hw. unfold join_step in Hw. apply in_flat_map in Hw. destruct Hw as (w0 & Hw0 & Hin).
  specialize (Hlen w0 Hw0). unfold extend in Hin. rewrite Hl in Hin.
  destruct (slot (s_parent st) w0) as [p|]; [|destruct Hin].
  destruct (s_match st p) as [|c cs]; [destruct Hin|]. apply in_map_iff in Hin. destruct Hin as (c0 & <- & _).
  exists c0. rewrite <- Hlen. apply slot_app_eq.
Qed.
(* later steps never change an existing slot *)
Theorem later_steps_keep (st : step) (J : list wrow) n s : s < n -> (forall w, In w J -> length w = n) ->
  forall w, In w (join_step st J) -> exists w0, In w0 J /\ slot s w = slot s w0.
Proof.
  intros Hs Hlen w Hw. unfold join_step in Hw. apply in_flat_map in Hw. destruct Hw as (w0 & Hw0 & Hin). exists w0. split; [exact Hw0|].
  specialize (Hlen w0 Hw0). unfold extend in Hin.
  assert (G : forall x, slot s (w0 ++ [x]) = slot s w0) by (intros; apply slot_app_lt; lia).
  destruct (slot (s_parent st) w0) as [p|].
  - destruct (s_match st p) as [|c cs].
    + destruct (s_left st); [destruct Hin as [<-|[]]; apply G|destruct Hin].
    + apply in_map_iff in Hin. destruct Hin as (c0 & <- & _). apply G.
  - destruct (s_left st); [destruct Hin as [<-|[]]; apply G|destruct Hin].
Qed.

(* ---------- a metric's own filters touch only that metric's column ---------- *)
Theorem metric_filter_local h tables (ms1 ms2 : list jmetric) g j :
  nth_error ms1 j = nth_error ms2 j ->
  nth_error (map (fun m => metric_val h tables m g) ms1) j = nth_error (map (fun m => metric_val h tables m g) ms2) j.
Proof. intros H. rewrite !nth_error_map, H. reflexivity. Qed.

(* non-vacuity *)
Example and_split_example : all_hold [And (Cmp CGt (Col 0) (Lit (VInt 1%Z))) (IsNull (Col 1))] [VInt 5%Z; VNull] = true
  /\ all_hold [IsNull (Col 1); Cmp CGt (Col 0) (Lit (VInt 1%Z))] [VInt 5%Z; VNull] = true
  /\ all_hold [Cmp CGt (Col 0) (Lit (VInt 1%Z))] [VNull; VNull] = false.
Proof. repeat split; reflexivity. Qed.

(* ---------- pushdown classification (Model/Classify.v) ---------- *)
Require Import V.Model.Valid V.Model.Classify.
Lemma dedup_in x l : In x (dedup l) -> In x l.
Proof.
  induction l as [|y l IH]; cbn [dedup]; [auto|]. destruct (Classify.mem_s y l); intros H; [right; auto|].
  destruct H as [->|H]; [left; reflexivity|right; auto].
Qed.
Lemma in_dedup x l : In x l -> In x (dedup l).
Proof.
  induction l as [|y l IH]; intros H; [destruct H|]. cbn [dedup]. destruct (Classify.mem_s y l) eqn:E.
  - destruct H as [->|H]; [|auto]. apply IH. unfold Classify.mem_s in E. apply existsb_exists in E. destruct E as (z & Hz & Ez).
    apply String.eqb_eq in Ez. subst z. exact Hz.
  - destruct H as [->|H]; [left; reflexivity|right; auto].
Qed.
(* a conjunct is pushed into model M's CTE only if every table-qualified column of a model of the query that it mentions belongs to M,
   and none of them is a metric *)
Lemma classify_push_sound models is_metric cols m : classify models is_metric (Some cols) = Push m ->
  (forall tc m', In tc cols -> ref_model models tc = Some m' -> m' = m /\ is_metric m' (snd tc) = false) /\ In m models.
Proof.
  unfold classify. destruct (mentions_metric models is_metric cols) eqn:Em; [discriminate|].
  destruct (ref_models models cols) as [|m0 [|? ?]] eqn:Er; try discriminate. intros H. injection H as <-. split.
  - intros tc m' Hin Hr. split.
    + assert (Hm : In m' (ref_models models cols)).
      { unfold ref_models. apply in_dedup. apply in_flat_map. exists tc. split; [exact Hin|]. rewrite Hr. left. reflexivity. }
      rewrite Er in Hm. destruct Hm as [->|[]]. reflexivity.
    + destruct (is_metric m' (snd tc)) eqn:E; [|reflexivity]. exfalso.
      assert (mentions_metric models is_metric cols = true).
      { unfold mentions_metric. apply existsb_exists. exists tc. split; [exact Hin|]. rewrite Hr. exact E. }
      congruence.
  - assert (Hm : In m0 (ref_models models cols)) by (rewrite Er; left; reflexivity).
    unfold ref_models in Hm. apply dedup_in in Hm. apply in_flat_map in Hm. destruct Hm as (tc & _ & Hm).
    destruct (ref_model models tc) as [mm|] eqn:E; [|destruct Hm]. destruct Hm as [<-|[]].
    unfold ref_model in E. destruct (String.eqb (fst tc) ""); [discriminate|].
    destruct (Classify.mem_s (recover (fst tc)) models) eqn:E2; [|discriminate]. injection E as <-.
    unfold Classify.mem_s in E2. apply existsb_exists in E2. destruct E2 as (z & Hz & Ez). apply String.eqb_eq in Ez. subst z. exact Hz.
Qed.
