(* The model of merge_model equals the regenerated table on every row; and for EVERY parent, child and name: the merged model's item of that name is the child's
   (its last declaration of the name) when the child declares one, the parent's otherwise -- whole items, never a mixture -- and the same for the other fields. *)
From Coq Require Import String List Bool.
Require Import V.Model.Inherit V.Gen.Inherit_gen.
Import ListNotations.
Open Scope string_scope.

Lemma inherit_table_ok : forallb inherit_row_ok inherit_rows = true.
Proof. vm_compute. reflexivity. Qed.

Lemma assoc_dict_set d k v n : assoc (dict_set d k v) n = if String.eqb k n then Some v else assoc d n.
Proof.
  induction d as [|[k' v'] r IH]; simpl.
  - destruct (String.eqb k n); reflexivity.
  - destruct (String.eqb k' k) eqn:E; simpl.
    + apply String.eqb_eq in E. subst k'. destruct (String.eqb k n); reflexivity.
    + destruct (String.eqb k' n) eqn:E2.
      * apply String.eqb_eq in E2. subst k'. rewrite String.eqb_sym in E. rewrite E. reflexivity.
      * exact IH.
Qed.
Lemma assoc_app (a b : items) n : assoc (a ++ b)%list n = match assoc a n with Some v => Some v | None => assoc b n end.
Proof. induction a as [|[k v] r IH]; simpl; [reflexivity|]. destruct (String.eqb k n); [reflexivity | exact IH]. Qed.
Lemma assoc_dict_update l : forall d n, assoc (dict_update d l) n = match assoc (rev l) n with Some v => Some v | None => assoc d n end.
Proof.
  unfold dict_update. induction l as [|[k v] r IH]; intros d n; simpl; [reflexivity|].
  rewrite IH, assoc_app, assoc_dict_set. simpl. destruct (assoc (rev r) n); [reflexivity|]. destruct (String.eqb k n); reflexivity.
Qed.
Lemma assoc_dict_of l n : assoc (dict_of l) n = assoc (rev l) n.
Proof. unfold dict_of. rewrite assoc_dict_update. destruct (assoc (rev l) n); reflexivity. Qed.

(* the items of a list whose names are all different: the last declaration of a name is its only one *)
Lemma assoc_rev_nodup l n : NoDup (map fst l) -> assoc (rev l) n = assoc l n.
Proof.
  induction l as [|[k v] r IH]; intros H; simpl; [reflexivity|]. inversion H as [|? ? Hn Hr]; subst.
  rewrite assoc_app, IH by exact Hr. simpl. destruct (String.eqb k n) eqn:E.
  - apply String.eqb_eq in E. subst k. destruct (assoc r n) eqn:A; [|reflexivity].
    exfalso. apply Hn. clear - A. induction r as [|[k' v'] r IH]; simpl in *; [discriminate|]. destruct (String.eqb k' n) eqn:E; [left; apply String.eqb_eq, E | right; apply IH, A].
  - destruct (assoc r n); reflexivity.
Qed.

Theorem merged_item_lookup p c n :
  assoc (merge_items p (Some c)) n = match assoc (rev c) n with Some v => Some v | None => assoc (rev p) n end.
Proof.
  unfold merge_items. rewrite assoc_dict_update.
  assert (H : forall l, assoc (rev (dict_of l)) n = assoc (rev l) n).
  { intros l. (* names in a dict are all different: reversing it does not change a lookup *)
    assert (ND : forall l0 d, NoDup (map fst d) -> NoDup (map fst (dict_update d l0))).
    { induction l0 as [|[k v] r IH]; intros d Hd; [exact Hd|]. unfold dict_update in *. simpl. apply IH.
      clear - Hd. induction d as [|[k' v'] r' IHd]; simpl; [constructor; [intros []|constructor]|].
      inversion Hd as [|? ? Hn Hr]; subst. destruct (String.eqb k' k) eqn:E; simpl; [constructor; assumption|].
      constructor; [|apply IHd, Hr]. intros Hin. apply Hn. clear - Hin E.
      induction r' as [|[k2 v2] r2 IH2]; simpl in *; [destruct Hin as [H|[]]; subst; rewrite String.eqb_refl in E; discriminate|].
      destruct (String.eqb k2 k) eqn:E2; simpl in *; [exact Hin|]. destruct Hin as [H|H]; [left; exact H | right; apply IH2, H]. }
    rewrite assoc_rev_nodup.
    - apply assoc_dict_of.
    - unfold dict_of. apply ND. constructor. }
  rewrite H. rewrite assoc_dict_of. reflexivity.
Qed.
Theorem inherited_when_not_redeclared p n : assoc (merge_items p None) n = assoc (rev p) n.
Proof. unfold merge_items. rewrite assoc_dict_update. simpl. apply assoc_dict_of. Qed.
Theorem merged_field_lookup p c f : assoc (merge_fields p c) f = match assoc (rev c) f with Some v => Some v | None => assoc p f end.
Proof. unfold merge_fields. apply assoc_dict_update. Qed.
