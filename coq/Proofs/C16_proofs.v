(* C16: what the translated Parameter.format_value (Gen/Params_gen.v) produces, for EVERY value of the Python-value universe. *)
From Coq Require Import ZArith String Ascii List Bool Lia.
Require Import V.Base.PyVal V.Model.SqlLex V.Gen.Params_gen.
Import ListNotations.
Open Scope string_scope.

Lemma sapp_assoc (a b c : string) : (a ++ b) ++ c = a ++ (b ++ c).
Proof. induction a as [|x a IH]; cbn; [reflexivity|]. rewrite IH. reflexivity. Qed.

(* the lexer decodes an escaped body back to the original string and stops exactly at the closing quote *)
Lemma lex_body_escape s rest :
  (match rest with String c _ => Ascii.eqb c quote = false | EmptyString => True end) ->
  lex_body (replace_char quote "''" s ++ String quote rest) = Some (s, rest).
Proof.
  intros Hrest. induction s as [|c r IH]; cbn [replace_char append].
  - cbn. destruct rest as [|c2 r2]; [reflexivity|]. rewrite Hrest. reflexivity.
  - destruct (Ascii.eqb c quote) eqn:E.
    + apply Ascii.eqb_eq in E. subst c. cbn. rewrite IH. reflexivity.
    + cbn [append lex_body]. rewrite E. rewrite IH. reflexivity.
Qed.

Definition one_literal (s t rest : string) : Prop := lex_string_literal (t ++ rest) = Some (s, rest).

Lemma quoted_is_one_literal s rest :
  (match rest with String c _ => Ascii.eqb c quote = false | EmptyString => True end) ->
  one_literal s ("'" ++ replace_char quote "''" s ++ "'") rest.
Proof.
  intros H. unfold one_literal. rewrite !sapp_assoc. cbn [append lex_string_literal]. rewrite Ascii.eqb_refl.
  change ("'" ++ rest) with (String quote rest). apply lex_body_escape. exact H.
Qed.

Section C16.
Variable z_repr : Z -> string.
Variable float_parse : string -> option pyfloat.
Variable isalnum_char : ascii -> bool.
Notation fv := (format_value z_repr float_parse isalnum_char).
Notation pstr := (py_str z_repr).

(* values a caller can pass: everything in the universe except the internal exception marker *)
Definition is_value (v : pyval) : Prop := v <> PExn.
Definition text_of (v : pyval) : string := match pstr v with PStr s => s | _ => "" end.

Lemma pstr_is_str v : is_value v -> pstr v = PStr (text_of v).
Proof. unfold text_of, is_value. destruct v as [| [|] | | [r| | |] | |]; cbn; congruence. Qed.

(* ---- string ---- *)
Lemma format_string_eq dflt v : is_value v -> v <> PNone ->
  fv (PStr "string") dflt v = Ret (PStr ("'" ++ replace_char quote "''" (text_of v) ++ "'")).
Proof.
  intros Hv Hn. unfold format_value.
  destruct v as [| [|] | z | [r| | |] | s |]; try congruence; cbn; reflexivity.
Qed.

Lemma format_date_eq dflt v : is_value v -> v <> PNone ->
  fv (PStr "date") dflt v = Ret (PStr ("'" ++ replace_char quote "''" (text_of v) ++ "'")).
Proof.
  intros Hv Hn. unfold format_value.
  destruct v as [| [|] | z | [r| | |] | s |]; try congruence; cbn; reflexivity.
Qed.

(* ---- yesno ---- *)
Lemma format_yesno dflt v : is_value v -> v <> PNone ->
  fv (PStr "yesno") dflt v = Ret (PStr "TRUE") \/ fv (PStr "yesno") dflt v = Ret (PStr "FALSE").
Proof.
  intros Hv Hn. unfold format_value.
  destruct v as [| [|] | z | [r| | |] | s |]; try congruence; cbn.
  all: try (left; reflexivity); try (right; reflexivity).
  - destruct (Z.eqb z 0); cbn; auto.
  - destruct (String.eqb r "0.0" || String.eqb r "-0.0"); cbn; auto.
  - destruct (String.eqb s ""); cbn; auto.
Qed.

(* ---- number ---- *)
Hypothesis z_repr_numeric : forall z, numeric_literal (z_repr z) = true.
Hypothesis parse_numeric : forall s r, float_parse s = Some (FFinite r) -> numeric_literal r = true.
Definition wf_val (v : pyval) : Prop := match v with PFloat (FFinite r) => numeric_literal r = true | _ => True end.

Lemma format_number dflt v t : wf_val v -> v <> PNone ->
  fv (PStr "number") dflt v = Ret (PStr t) -> numeric_literal t = true \/ (exists b, v = PBool b).
Proof.
  intros Hw Hn. unfold format_value.
  destruct v as [| [|] | z | [r| | |] | s |]; try congruence; cbn.
  - intros _. right. eauto.
  - intros _. right. eauto.
  - intros H. injection H as <-. left. apply z_repr_numeric.
  - intros H. injection H as <-. left. exact Hw.
  - discriminate.
  - discriminate.
  - discriminate.
  - destruct (float_parse s) as [[r| | |]|] eqn:E; cbn; try discriminate.
    intros H. injection H as <-. left. eapply parse_numeric; eauto.
  - discriminate.
Qed.

(* ---- unquoted ---- *)
Definition ident_char (c : ascii) : bool := isalnum_char c || Ascii.eqb c "_" || Ascii.eqb c ".".
Lemma all_chars_app p a b : all_chars p (a ++ b) = all_chars p a && all_chars p b.
Proof. induction a as [|c a IH]; cbn; [reflexivity|]. rewrite IH. apply andb_assoc. Qed.
Lemma strip_ok (c1 c2 : ascii) s :
  all_chars isalnum_char (replace_char c2 "" (replace_char c1 "" s)) = true ->
  all_chars (fun c => isalnum_char c || Ascii.eqb c c1 || Ascii.eqb c c2) s = true.
Proof.
  induction s as [|c s IH]; cbn [replace_char all_chars]; [reflexivity|].
  destruct (Ascii.eqb c c1) eqn:E1.
  - cbn [append]. intros H. rewrite orb_true_r. cbn. apply IH. exact H.
  - cbn [append replace_char]. destruct (Ascii.eqb c c2) eqn:E2.
    + cbn [append]. intros H. rewrite orb_true_r. cbn. apply IH. exact H.
    + cbn [append all_chars]. intros H. apply andb_true_iff in H. destruct H as [Hc Hr].
      rewrite Hc. cbn. apply IH. exact Hr.
Qed.

Lemma format_unquoted dflt v t : is_value v -> v <> PNone ->
  fv (PStr "unquoted") dflt v = Ret (PStr t) -> t = text_of v /\ all_chars ident_char t = true.
Proof.
  intros Hv Hn. unfold format_value.
  assert (G : forall s, (if_truthy (py_not (py_isalnum isalnum_char (py_replace (py_replace (PStr s) (PStr "_") (PStr "")) (PStr ".") (PStr ""))))
                  Raise (ret_val (PStr s))) = Ret (PStr t) -> t = s /\ all_chars ident_char t = true).
  { intros s. cbn. destruct (String.eqb (replace_char "." "" (replace_char "_" "" s)) ""); cbn; [discriminate|].
    destruct (all_chars isalnum_char (replace_char "." "" (replace_char "_" "" s))) eqn:E; cbn; [|discriminate].
    intros H. injection H as <-. split; [reflexivity|]. apply (strip_ok "_" "." s) in E. exact E. }
  destruct v as [| [|] | z | [r| | |] | s |]; try congruence; cbn [py_is_none if_truthy py_truthy py_eq String.eqb Ascii.eqb Bool.eqb bind_val PyVal.py_str];
    intros H; apply G in H; exact H.
Qed.

End C16.

(* ---- refutation witnesses kept as regression anchors: what an unescaped date / a NaN float would look like ---- *)
Example unescaped_date_is_not_one_literal : lex_string_literal ("'" ++ "2024-02-01' OR '1'='1" ++ "'") <> Some ("2024-02-01' OR '1'='1", "").
Proof. cbn. discriminate. Qed.
Example nan_is_not_numeric : numeric_literal "nan" = false /\ numeric_literal "inf" = false /\ numeric_literal "-1.5e-07" = true /\ numeric_literal "12" = true.
Proof. repeat split; reflexivity. Qed.
