(* Re-aggregating rollup rows = aggregating the base rows (roll-up additivity): shared by C07 and C08. *)
From Coq Require Import ZArith List Bool Lia.
Require Import V.Model.Refresh V.Proofs.C18_proofs.
Import ListNotations.
Open Scope Z_scope.

Section Regroup.
Variable tr : Z -> Z.
Notation key := (Z * Z)%type.
Notation bkey := (bkey tr). Notation bsum := (bsum tr). Notation bcnt := (bcnt tr). Notation materialize := (materialize tr).

Lemma key_eqb_refl' (k : key) : key_eqb k k = true.
Proof. destruct (key_eqb_spec k k); congruence. Qed.

(* a per-key quantity f summed over a duplicate-free key list covering the table = the per-row quantity summed over the rows,
   for f = sum of values (val) or number of rows (val = 1) *)
Lemma over_keys (val : brow -> Z) (pk : key -> bool) (ks : list key) (b : list brow) :
  NoDup ks -> (forall y, In y b -> In (bkey y) ks) ->
  zsum (map (fun k => if pk k then zsum (map val (at_b tr b k)) else 0) ks)
  = zsum (map (fun y => if pk (bkey y) then val y else 0) b).
Proof.
  intros Hnd. induction b as [|y b IH]; intros Hcov.
  - cbn [map]. unfold at_b. cbn. clear Hnd Hcov. induction ks as [|k ks IHk]; [reflexivity|].
    cbn [map]. unfold zsum in *. cbn [fold_right]. rewrite IHk. destruct (pk k); reflexivity.
  - assert (Hin : In (bkey y) ks) by (apply Hcov; left; reflexivity).
    specialize (IH (fun z Hz => Hcov z (or_intror Hz))).
    cbn [map]. unfold zsum at 3. cbn [fold_right]. fold (zsum (map (fun y0 => if pk (bkey y0) then val y0 else 0) b)). rewrite <- IH. clear IH Hcov.
    induction ks as [|k ks IHk]; [destruct Hin|]. inversion Hnd as [|? ? Hk Hnd']; subst.
    cbn [map]. unfold zsum at 1 4. cbn [fold_right].
    fold (zsum (map (fun k0 => if pk k0 then zsum (map val (at_b tr (y :: b) k0)) else 0) ks)).
    fold (zsum (map (fun k0 => if pk k0 then zsum (map val (at_b tr b k0)) else 0) ks)).
    unfold at_b at 1. cbn [filter].
    destruct (key_eqb_spec (bkey y) k) as [E|NE].
    + assert (zsum (map (fun k0 => if pk k0 then zsum (map val (at_b tr (y :: b) k0)) else 0) ks) = zsum (map (fun k0 => if pk k0 then zsum (map val (at_b tr b k0)) else 0) ks)) as ->.
      { f_equal. apply map_ext_in. intros k0 Hk0. unfold at_b. cbn [filter].
        destruct (key_eqb_spec (bkey y) k0) as [E0|_]; [exfalso; apply Hk; congruence|reflexivity]. }
      cbn [map]. unfold zsum at 1. cbn [fold_right]. fold (zsum (map val (filter (fun x => key_eqb (bkey x) k) b))). fold (at_b tr b k).
      subst k. destruct (pk (bkey y)); lia.
    + destruct Hin as [Hin|Hin]; [congruence|]. fold (at_b tr b k). rewrite (IHk Hnd' Hin). destruct (pk k); lia.
Qed.

Lemma bcnt_as_sum b k : bcnt b k = zsum (map (fun _ => 1) (at_b tr b k)).
Proof. unfold Refresh.bcnt. induction (at_b tr b k) as [|x l IH]; [reflexivity|]. cbn [length map]. unfold zsum in *. cbn [fold_right]. rewrite <- IH. lia. Qed.

Lemma filtered_sum {A} (f : A -> Z) (p : A -> bool) (l : list A) : zsum (map f (filter p l)) = zsum (map (fun x => if p x then f x else 0) l).
Proof. induction l as [|x l IH]; [reflexivity|]. cbn [filter map]. destruct (p x); cbn [map]; unfold zsum in *; cbn [fold_right]; rewrite IH; reflexivity. Qed.

(* SUM: re-aggregating the rollup rows selected by any predicate on the key = aggregating the selected base rows *)
Theorem sum_regroup (pk : key -> bool) (b : list brow) :
  zsum (map r_sum (filter (fun x => pk (rkey x)) (materialize b))) = zsum (map b_v (filter (fun y => pk (bkey y)) b)).
Proof.
  rewrite !filtered_sum.
  transitivity (zsum (map (fun k => if pk k then zsum (map b_v (at_b tr b k)) else 0) (first_occ (map bkey b)))).
  - unfold Refresh.materialize. rewrite map_map. f_equal. apply map_ext. intros [k1 k2]. reflexivity.
  - apply over_keys; [apply first_occ_NoDup|]. intros y Hy. apply (proj2 (first_occ_In tr _ _)). apply in_map. exact Hy.
Qed.
(* COUNT is re-aggregated as the SUM of the stored counts *)
Theorem count_regroup (pk : key -> bool) (b : list brow) :
  zsum (map r_cnt (filter (fun x => pk (rkey x)) (materialize b))) = Z.of_nat (length (filter (fun y => pk (bkey y)) b)).
Proof.
  rewrite filtered_sum.
  transitivity (zsum (map (fun k => if pk k then zsum (map (fun _ => 1) (at_b tr b k)) else 0) (first_occ (map bkey b)))).
  - unfold Refresh.materialize. rewrite map_map. f_equal. apply map_ext. intros [k1 k2]. cbn [rkey r_bucket r_dim r_cnt fst snd]. rewrite bcnt_as_sum. reflexivity.
  - assert (Hcov : forall y, In y b -> In (bkey y) (first_occ (map bkey b))) by (intros y Hy; apply (proj2 (first_occ_In tr _ _)); apply in_map; exact Hy).
    rewrite (over_keys (fun _ => 1) pk _ b (first_occ_NoDup _) Hcov).
    rewrite <- filtered_sum. induction (filter (fun y => pk (bkey y)) b) as [|x l IH]; [reflexivity|]. cbn [map length]. unfold zsum in *. cbn [fold_right]. rewrite IH. lia.
Qed.
End Regroup.
