(* The planning DECISION behind C02 (Model/Plan.v: the model of _has_fanout_joins + the join loop): a metric of the BASE model that
   is not given the symmetric form sits on a safe slot.  Together with C02_metric_value this shows that every base-model metric is
   computed correctly (plain on a safe slot, or symmetric), so the only models whose metrics can be multiplied are the joined ones
   (known finding C02-K1). *)
From Coq Require Import ZArith String List Bool Arith Lia.
Require Import V.Base.PyLib V.Base.Bfs V.Gen.RelKeys_gen V.Model.Graph V.Model.Sem V.Model.Single V.Model.Mult V.Model.Join V.Model.Plan
               V.Proofs.C10_proofs.
Import ListNotations.
Open Scope string_scope.

Definition rel_type_ok (t : string) : bool :=
  String.eqb t "many_to_one" || String.eqb t "one_to_many" || String.eqb t "one_to_one" || String.eqb t "many_to_many".
(* the declared relationship types are the four literals pydantic admits *)
Definition rel_types_ok (g : graph) : bool := forallb (fun m => forallb (fun r => rel_type_ok (r_type r)) (g_rels m)) g.
Definition edge_type_ok (t : string) : Prop := t = "one_to_many" \/ t = "many_to_one" \/ t = "one_to_one".

Lemma rel_type_ok_cases t : rel_type_ok t = true -> t = "many_to_one" \/ t = "one_to_many" \/ t = "one_to_one" \/ t = "many_to_many".
Proof.
  unfold rel_type_ok. intros H. repeat (apply orb_true_iff in H; destruct H as [H|H]);
    apply String.eqb_eq in H; auto.
Qed.

Lemma adj_edge_type g a e : rel_types_ok g = true -> In e (adj g a) -> edge_type_ok (e_type e).
Proof.
  intros Hok He. destruct (edges_declared g a e He) as (m & r & Hm & Hr & Hs).
  assert (Ht : rel_type_ok (r_type r) = true).
  { unfold rel_types_ok in Hok. rewrite forallb_forall in Hok. specialize (Hok m Hm). rewrite forallb_forall in Hok. exact (Hok r Hr). }
  unfold declared_shape in Hs. destruct Hs as (related & _ & Hs). unfold edge_type_ok.
  destruct Hs as [(Hne & H)|[(Hm2m & _ & H)|(Hm2m & j & jm & sfk & rfk & _ & _ & _ & _ & _ & H)]].
  - cbv zeta in H. apply rel_type_ok_cases in Ht. destruct H as [(_ & ->)|(_ & ->)]; cbn [e_type mk];
      destruct Ht as [E|[E|[E|E]]]; rewrite E in *; try congruence; cbn; auto.
  - destruct H as [(_ & ->)|(_ & ->)]; cbn; auto.
  - destruct H as [(_ & ->)|[(_ & ->)|[(_ & ->)|(_ & ->)]]]; cbn; auto.
Qed.

Lemma chain_edges g a p b : gchain g a p b -> forall x l y, In (x, l, y) p -> In l (adj g x).
Proof.
  induction 1 as [a|a p x l y Hc IH Hs]; intros x' l' y' Hin; [destruct Hin|].
  apply in_app_or in Hin. destruct Hin as [Hin|[Heq|[]]]; [eapply IH; eauto|].
  injection Heq as <- <- <-. unfold succ_of in Hs. apply in_map_iff in Hs. destruct Hs as (e & He & Hin'). injection He as <- _. exact Hin'.
Qed.

Definition not_to_many (k : kind) : bool := match k with ToMany => false | _ => true end.

Lemma kind_of_not_many t : edge_type_ok t -> String.eqb t "one_to_many" = false -> not_to_many (kind_of t) = true.
Proof. intros [H|[H|H]]; subst t; cbn; congruence. Qed.

(* a path without a one_to_many hop only has to-one / one-to-one hops *)
Lemma path_kinds g a b p : rel_types_ok g = true -> find_relationship_path g a b = Path p -> path_has g a b "one_to_many" = false ->
  forall x e y, In (x, e, y) p -> not_to_many (kind_of (e_type e)) = true.
Proof.
  intros Hok Hp Hh x e y Hin. unfold path_has in Hh. rewrite Hp in Hh.
  destruct (path_correct g a b p Hp) as (Hc & _).
  pose proof (chain_edges g a p b Hc x e y Hin) as Hadj.
  apply kind_of_not_many; [eapply adj_edge_type; eauto|].
  destruct (String.eqb (e_type e) "one_to_many") eqn:E; [|reflexivity].
  exfalso. assert (existsb (fun h : string * edge * string => String.eqb (e_type (snd (fst h))) "one_to_many") p = true).
  { apply existsb_exists. exists (x, e, y). split; [exact Hin|exact E]. }
  congruence.
Qed.

Definition steps_calm (sts : list jstep) : Prop := Forall (fun s => not_to_many (js_kind s) = true) sts.

Lemma add_hops_calm ms filtered hops : forall joined steps joined' steps',
  (forall x e y, In (x, e, y) hops -> not_to_many (kind_of (e_type e)) = true) -> steps_calm steps ->
  add_hops ms filtered hops joined steps = Some (joined', steps') -> steps_calm steps'.
Proof.
  induction hops as [|[[from e] to] r IH]; intros joined steps joined' steps' Hk Hs H; cbn [add_hops] in H.
  - injection H as _ <-. exact Hs.
  - assert (Hr : forall x e0 y, In (x, e0, y) r -> not_to_many (kind_of (e_type e0)) = true) by (intros; eapply Hk; right; eauto).
    destruct (existsb (String.eqb to) joined); [eapply IH; eauto|].
    destruct (index_of from joined) as [ps|]; [|discriminate].
    destruct (find_pm ms from) as [pmf|]; [|discriminate]. destruct (find_pm ms to) as [pmt|]; [|discriminate].
    destruct (negb (Nat.eqb (length (e_from_keys e)) (length (e_to_keys e)))); [discriminate|].
    destruct (cols_idx (pm_cols pmf) (e_from_keys e)) as [fc|]; [|discriminate].
    destruct (cols_idx (pm_cols pmt) (e_to_keys e)) as [tc|]; [|discriminate].
    eapply IH; [exact Hr| |exact H].
    apply Forall_app. split; [exact Hs|]. constructor; [|constructor]. cbn [js_kind]. eapply Hk. left. reflexivity.
Qed.

Lemma add_others_calm ms g filtered base others : forall joined steps joined' steps',
  rel_types_ok g = true -> (forall o, In o others -> path_has g base o "one_to_many" = false) -> steps_calm steps ->
  add_others ms g filtered base others joined steps = Some (joined', steps') -> steps_calm steps'.
Proof.
  induction others as [|o r IH]; intros joined steps joined' steps' Hok Hno Hs H; cbn [add_others] in H.
  - injection H as _ <-. exact Hs.
  - destruct (find_relationship_path g base o) as [hops| |] eqn:Ep; try discriminate.
    destruct (add_hops ms filtered hops joined steps) as [[j' s']|] eqn:Eh; [|discriminate].
    eapply IH; [exact Hok|intros; apply Hno; right; assumption| |exact H].
    eapply add_hops_calm; [|exact Hs|exact Eh].
    intros x e y Hin. eapply path_kinds; eauto. apply Hno. left. reflexivity.
Qed.

(* calm steps never clear the safe flag of slot 0 *)
Lemma run_keeps_base (sts : list (kind * step)) : forall J safe,
  Forall (fun ks => not_to_many (fst ks) = true) sts -> safe <> [] -> nth 0 safe false = true -> nth 0 (snd (run J safe sts)) false = true.
Proof.
  induction sts as [|[k st] r IH]; intros J safe Hc Hne H0; cbn [run snd]; [exact H0|].
  inversion Hc as [|? ? Hk Hr]; subst. apply IH; [exact Hr| |].
  - destruct k; cbn [safe_step]; destruct safe; try congruence; cbn; congruence.
  - destruct k; cbn [safe_step fst not_to_many] in *; try discriminate; destruct safe as [|b s]; try congruence; cbn in *; exact H0.
Qed.

Lemma mk_steps_kinds tables sts : forall k, steps_calm sts -> Forall (fun ks => not_to_many (fst ks) = true) (mk_steps tables k sts).
Proof.
  induction sts as [|st r IH]; intros k H; cbn [mk_steps]; [constructor|].
  inversion H; subst. constructor; [assumption|apply IH; assumption].
Qed.

Lemma index_of_zero x b r : index_of x (b :: r) = Some 0 -> x = b.
Proof.
  cbn [index_of]. destruct (String.eqb_spec x b) as [->|Hne]; [reflexivity|].
  destruct (index_of x r); cbn; discriminate.
Qed.

Lemma all_some_in {A} (l : list (option A)) xs x : all_some l = Some xs -> In x xs -> In (Some x) l.
Proof.
  revert xs. induction l as [|o l IH]; intros xs H Hin; cbn [all_some] in H.
  - injection H as <-. destruct Hin.
  - destruct o as [y|]; [|discriminate]. destruct (all_some l) as [ys|] eqn:E; [|discriminate].
    injection H as <-. destruct Hin as [->|Hin]; [left; reflexivity|right; eapply IH; eauto].
Qed.

Lemma add_hops_head ms filtered hops : forall joined steps joined' steps' b r,
  joined = b :: r -> add_hops ms filtered hops joined steps = Some (joined', steps') -> exists r', joined' = b :: r'.
Proof.
  induction hops as [|[[from e] to] rest IH]; intros joined steps joined' steps' b r Hj H; cbn [add_hops] in H.
  - injection H as <- _. eauto.
  - destruct (existsb (String.eqb to) joined); [eapply IH; eauto|].
    destruct (index_of from joined); [|discriminate]. destruct (find_pm ms from); [|discriminate]. destruct (find_pm ms to); [|discriminate].
    destruct (negb (Nat.eqb (length (e_from_keys e)) (length (e_to_keys e)))); [discriminate|].
    destruct (cols_idx _ (e_from_keys e)); [|discriminate]. destruct (cols_idx _ (e_to_keys e)); [|discriminate].
    eapply IH; [|exact H]. rewrite Hj. reflexivity.
Qed.
Lemma add_others_head ms g filtered base others : forall joined steps joined' steps' b r,
  joined = b :: r -> add_others ms g filtered base others joined steps = Some (joined', steps') -> exists r', joined' = b :: r'.
Proof.
  induction others as [|o rest IH]; intros joined steps joined' steps' b r Hj H; cbn [add_others] in H.
  - injection H as <- _. eauto.
  - destruct (find_relationship_path g base o); try discriminate.
    destruct (add_hops ms filtered p joined steps) as [[j' s']|] eqn:Eh; [|discriminate].
    destruct (add_hops_head ms filtered p joined steps j' s' b r Hj Eh) as (r' & ->). eapply IH; [reflexivity|exact H].
Qed.

(* THE DECISION THEOREM: in the plan the model of the generator produces, every metric on slot 0 (a metric of the base model) either
   gets the symmetric form or sits on a safe slot *)
Theorem base_metric_sym_or_safe ms q jq joined : rel_types_ok (graph_of ms) = true -> plan ms q = PlanOk jq joined ->
  forall m, In m (jq_metrics jq) -> jm_slot m = 0 -> jm_sym m = true \/ metric_safe jq m = true.
Proof.
  intros Hok Hp m Hm Hs. unfold plan in Hp.
  destruct (required_models q) as [|base others] eqn:Er; [discriminate|].
  destruct (needs_multifact (graph_of ms) q); [discriminate|].
  destruct (add_others ms (graph_of ms) (map pf_model (pq_filters q)) base others [base] []) as [[jd steps]|] eqn:Ea; [|discriminate].
  set (fanout := existsb (fun o => path_has (graph_of ms) base o "one_to_many") others) in Hp.
  match type of Hp with context [all_some ?d] => destruct (all_some d) as [ds|] eqn:Ed; [|discriminate] end.
  match type of Hp with context [all_some ?mm] => destruct (all_some mm) as [mts|] eqn:Em; [|discriminate] end.
  injection Hp as <- <-. cbn [jq_metrics] in Hm. unfold metric_safe. cbn [jq_tables jq_steps].
  destruct (add_others_head ms (graph_of ms) _ base others [base] [] jd steps base [] eq_refl Ea) as (r' & ->).
  pose proof (all_some_in _ _ _ Em Hm) as Hin. apply in_map_iff in Hin. destruct Hin as (pm & Hpm & _).
  destruct (index_of (pmt_model pm) (base :: r')) as [s|] eqn:Ei; [|discriminate].
  destruct (find_pm ms (pmt_model pm)) as [pmm|]; [|discriminate].
  destruct (cols_idx (pm_cols pmm) (model_primary_key_columns (g_pk (pm_g pmm)))) as [pk|]; [|discriminate].
  injection Hpm as <-. cbn [jm_slot jm_sym] in *. subst s.
  apply index_of_zero in Ei. rewrite Ei, String.eqb_refl, andb_true_r.
  destruct fanout eqn:Ef; [left; reflexivity|right].
  unfold wide_rows. apply run_keeps_base; [|discriminate|reflexivity].
  apply mk_steps_kinds. eapply add_others_calm; [exact Hok| |constructor|exact Ea].
  intros o Ho. unfold fanout in Ef. destruct (path_has (graph_of ms) base o "one_to_many") eqn:E; [|reflexivity].
  exfalso. assert (existsb (fun o0 => path_has (graph_of ms) base o0 "one_to_many") others = true) by (apply existsb_exists; eauto). congruence.
Qed.
