(* The routing chain, end to end on the models that are tied to the code by regenerated tables:
     _try_use_preaggregation (Model/TryRoute, Gen/TryRoute_gen)  ->  can_satisfy_query (Model/Satisfy, Gen/Satisfy_gen)
     ->  _is_granularity_compatible (Gen/GranCompat_gen, translated)  ->  calendar truncation (Base/Calendar, C09_sound).
   If a query is routed to a rollup p, EVERY granularity it requests can be computed from p's buckets for every timestamp. *)
From Coq Require Import ZArith String List Bool.
Require Import V.Base.Calendar V.Base.CalendarFacts V.Model.Valid V.Model.Satisfy V.Model.TryRoute V.Gen.GranCompat_gen V.Proofs.C08_proofs V.Proofs.C08_route_proofs V.Proofs.C09_proofs.
Import ListNotations.
Open Scope string_scope.

(* the granularities a rollup serves: those for which can_satisfy_query (same names, metrics, filters) says yes *)
Definition serves_of (compat : string -> string -> bool) (p : rollup) (qdims : list string) (metrics : list (bool * bool)) (fcols : option (list string))
                     (grans : list string) : list string :=
  filter (fun g => can_satisfy p qdims metrics (Some g) (match p_gran p with Some pg => compat g pg | None => true end) fcols) grans.

Theorem routed_all_compatible : forall compat model is_time hp dims mets filters p qdims metrics fcols pg,
  p_gran p = Some pg -> pg <> "" ->
  (* the matcher returned p for the granularity it was asked about *)
  (forall g, last_gran dims None = Some g -> can_satisfy p qdims metrics (Some g) (compat g pg) fcols = true) ->
  fst (fst (try_route model is_time hp dims mets filters true (serves_of compat p qdims metrics fcols (grans_of dims [])))) = true ->
  forall d g, In (d, Some g) dims -> g <> "" -> compat g pg = true.
Proof.
  intros compat model is_time hp dims mets filters p qdims metrics fcols pg Hpg Hne Hfind Hr d g Hd Hg.
  destruct (try_route_all_granularities _ _ _ _ _ _ _ _ Hr d g Hd) as [Ha|Hs].
  - unfold opt_is in Ha. destruct (last_gran dims None) as [a|] eqn:Ea; [|discriminate].
    apply String.eqb_eq in Ha. subst a.
    destruct (can_satisfy_sound _ _ _ _ _ _ (Hfind g eq_refl)) as (_ & _ & _ & H4).
    apply (H4 g pg eq_refl Hpg Hg Hne).
  - unfold serves_of in Hs. apply filter_In in Hs. destruct Hs as [_ Hs]. rewrite Hpg in Hs.
    destruct (can_satisfy_sound _ _ _ _ _ _ Hs) as (_ & _ & _ & H4).
    apply (H4 g pg eq_refl Hpg Hg Hne).
Qed.

(* ... with the code's own compatibility function: the requested bucket of ANY timestamp is the requested bucket of its rollup bucket *)
Theorem routed_granularities_exact : forall model is_time hp dims mets filters p qdims metrics fcols pg,
  p_gran p = Some pg -> pg <> "" ->
  (forall g, last_gran dims None = Some g -> can_satisfy p qdims metrics (Some g) (is_granularity_compatible g pg) fcols = true) ->
  fst (fst (try_route model is_time hp dims mets filters true (serves_of is_granularity_compatible p qdims metrics fcols (grans_of dims [])))) = true ->
  forall d g, In (d, Some g) dims -> g <> "" -> forall t : Z, trunc_s g (trunc_s pg t) = trunc_s g t.
Proof.
  intros model is_time hp dims mets filters p qdims metrics fcols pg Hpg Hne Hfind Hr d g Hd Hg t.
  apply sound_all. eapply routed_all_compatible; eauto.
Qed.

(* non-vacuity: a daily rollup, day and month requested in either order, is routed; a monthly rollup is not *)
Example chain_nonvacuous :
  let p := {| p_dims := []; p_time := Some "ts"; p_gran := Some "day" |} in
  let dims := [("ev.ts", Some "day"); ("ev.ts", Some "month")] in
  fst (fst (try_route "ev" (String.eqb "ts") true dims ["ev.rev"] None true (serves_of is_granularity_compatible p ["ts"; "ts"] [(true, true)] None (grans_of dims [])))) = true /\
  (let p' := {| p_dims := []; p_time := Some "ts"; p_gran := Some "month" |} in
   fst (fst (try_route "ev" (String.eqb "ts") true dims ["ev.rev"] None true (serves_of is_granularity_compatible p' ["ts"; "ts"] [(true, true)] None (grans_of dims [])))) = false).
Proof. vm_compute. split; reflexivity. Qed.
