"""Writes MANIFEST.json from the table below (run: /venv/bin/python -m harness.manifest_gen)."""
import json
import os

VERIF = os.path.dirname(os.path.dirname(os.path.abspath(__file__)))

CHECKS = {}      # filled by register()
NOT_APPLICABLE = {
    "C14": "The property is defined by seven external SQL grammars/engines whose only executable oracle in this sandbox is sqlglot; an executable Gallina model able to express 'syntactically valid in BigQuery/Snowflake/ClickHouse/...' would "
           "have to contain those grammars and sqlglot's printers, nothing in /repo could be tied to it, and deciding it by sqlglot differential testing alone would be a change of technique (DESIGN.md section 9). "
           "The DuckDB branches of sidemantic's own dialect-dependent code are covered by C02/C07.",
}


def register(pid, text, note, technique, design_ref):
    import re
    assert re.match(r"^C\d\d$", pid), "bad property id %r" % (pid,)
    assert pid not in CHECKS, "registered twice: %s" % pid
    CHECKS[pid] = dict(text=text, note=note, technique=technique, design_ref=design_ref)


def check_complete():
    """every property is either claimed or not applicable (the properties file is given and fixed)"""
    ids = [json.loads(l)["id"] for l in open(os.path.join(VERIF, "properties.jsonl")) if l.strip()]
    missing = [i for i in ids if i not in CHECKS and i not in NOT_APPLICABLE]
    extra = [i for i in list(CHECKS) + list(NOT_APPLICABLE) if i not in ids]
    assert not missing and not extra, "MANIFEST would not cover the properties: missing %r, unknown %r" % (missing, extra)


register("C09",
         "Machine-checked Coq theorems (C09_sound: for all strings q p and ALL timestamps t:Z) about the compatibility function regenerated from preagg_matcher.py on every run, "
         "over a calendar model proved to be a floor for every t and tied to DuckDB DATE_TRUNC by correspondence; plus an end-to-end routed-vs-unrouted run of all 36 pairs on the real code.",
         "Trusted: Coq kernel (vm_compute used for the one-era sweeps), the fail-closed py2v translator (validated on the 8x8 name domain each run), extraction (ExtrOcamlBasic) for the calendar tie, DuckDB DATE_TRUNC as oracle. No axioms (Closed under the global context).",
         "Coq proof over translator-regenerated model + calendar floor theorems; correspondence vs DuckDB", "DESIGN.md section 6/C09")

register("C10",
         "Machine-checked Coq theorems for graphs of ANY size: every adjacency edge stems from a declaration with the right keys/cardinality (C10_edges_declared), adjacency is symmetric with inverted cardinality, "
         "a returned path is a chain and no chain is shorter, NoPath only when no chain exists (fuel proved sufficient), existence and length are symmetric, validate_query's join check reports every unjoinable pair. "
         "Key defaults / normalisation / inversion are regenerated from /repo each run; the adjacency/BFS model is hand-written and tied by correspondence (random graphs quick; exhaustive 7^6 x 12 thorough), "
         "and an independent oracle checks chain/minimal/symmetric/keys on the implementation's own answers.",
         "Trusted: Coq kernel; fail-closed py2v translator (validated each run); extraction (ExtrOcamlBasic, ExtrOcamlString) + graph_driver.ml; the hand-written Model/Graph.v is modelled-not-verified and tied by differential testing. Hypothesis: model names distinct. No axioms.",
         "Coq proof (BFS invariant, adjacency symmetry) over hand-written model + translator-regenerated key functions; correspondence via extraction", "DESIGN.md section 6/C10")

register("C16",
         "Machine-checked Coq theorems about Parameter.format_value as translated from parameter.py on every run: for EVERY string/date value the result is exactly one SQL string literal whose decoded content is the value, in any context (C16_string, C16_date); "
         "accepted numbers are numeric literals and NaN/inf are rejected (C16_number); unquoted values consist of identifier characters; yesno is TRUE/FALSE. "
         "The translated function is evaluated inside Coq against the real one on a hostile corpus; the implementation's output is tokenised by sqlglot, executed by DuckDB and compared as a tree through compile(). "
         "Partial for interpolate()/Jinja/relative-date/dialects: those are exercised end to end only; 4 narrow known-finding classes are listed. Regenerated on every run: what ParameterSet.interpolate returns on 40 scripted templates x values (one-pass substitution model, C16_interpolate_table); C16_filter_one_literal: text + exactly one literal + text for every value and context.",
         "Trusted: translator/pyinterp.py + gen_interp.py (fail-closed, scripted re / template modules, validated against CPython each run); Coq kernel; gen_params translator (validated each run); oracles z_repr/float_parse/isalnum_char as Section variables with the stated premises; hand-written SQL lexer (Model/SqlLex.v) tied to sqlglot/DuckDB by correspondence. No axioms.",
         "Coq proof over translator-regenerated format_value + lexer model; differential test vs sqlglot/DuckDB; translator-regenerated interpolation table", "DESIGN.md section 6/C16")

register("C19",
         "Machine-checked Coq theorem C19_safe: for the shared-state access skeleton extracted from semantic_graph.py on this run (obligation C19_prog: it equals the build-locally/publish-once/snapshot-once program), "
         "ANY number of threads under ANY schedule only ever read the serial adjacency. Tied to the code by regeneration of the skeleton and by driving 2-3 real threads through line-granular schedules (sys.settrace) that must return serial results. "
         "Partial: covers the planning state named in the property; the CPython scheduler, DuckDB connections and the server thread pool are not modelled.",
         "Trusted: Coq kernel; gen_adjprog skeleton extractor (fail-closed) trusted to list every access to _adjacency/_adjacency_dirty; Model/Conc.v interleaving semantics (atomic line-level actions under the GIL); harness/sched.py. No axioms.",
         "Coq invariant proof over all schedules for the regenerated access skeleton; deterministic schedule replay on real threads", "DESIGN.md section 6/C19")

register("C18",
         "Machine-checked Coq theorems over histories of ANY length and any truncation function: a full refresh after any history yields the materialisation of the current base; merge equals the full rollup whenever all changes since the previous refresh fall inside the window and is idempotent; "
         "an incremental re-run without new data leaves the table literally unchanged and in-order arrival gives the full rollup; C18_history lifts these to whole histories by induction (ghost state = base at the last refresh). "
         "The command line's incremental / merge modes are proved to be the API's modes (C18_cli_incremental_is_api, C18_cli_merge_is_api; cli.py repaired in 280cea5). Tied to the code by executing random histories through PreAggregation.refresh and the real CLI and comparing the rollup bag after every step with the model evaluated in Coq, "
         "plus an SQL-level oracle independent of the model. The SQL statement programs of the three refresh strategies (per scenario) and the mode dispatch are REGENERATED from pre_aggregation.py on every run; "
         "C18_prog_refines / C18_progs_history prove that, interpreted statement by statement, they never fail and compute exactly the model's step for every state, operation and history.",
         "Trusted: Coq kernel; translator/gen_refresh.py (fail-closed definitional interpreter, validated against CPython each run) and the statement semantics Model/RefreshProg.exec; Model/Refresh.v is hand-written (modelled-not-verified, one dimension + sum + count standing for any decomposable rollup) and tied by differential testing; DuckDB and typer CliRunner as drivers; the API source statement (bucket-level watermark predicate) is the harness's choice. No axioms.",
         "Coq induction over operation histories (pointwise bag algebra) + refinement of the translator-regenerated statement programs; correspondence on executed histories incl. the CLI", "DESIGN.md section 6/C18")

register("C01",
         "Machine-checked Coq theorem C01_rows: for every single-model definition, query and table of ANY size the relational plan the generator emits (CTE of dimension expressions and raw measure columns with CASE-WHEN metric filters, "
         "COUNT->1, COUNT DISTINCT->key, outer aggregation with GROUP BY positions, ungrouped branch, ORDER BY/OFFSET/LIMIT) returns exactly the rows of the reference semantics (one row per distinct dimension tuple among the filtered rows; "
         "each metric its aggregation over exactly the group's rows that pass its own filters, SQL NULL semantics; uninterpreted aggregates receive exactly that bag). "
         "The plan model is hand-written and tied to generator.py + DuckDB by executing random definitions/tables/queries against both; the same cases are compared with the reference semantics (property oracle). Regenerated on every run (Gen/Small_gen.v, the method's AST executed on scripted names): the aggregate text of _build_measure_aggregation_sql for every aggregation literal; C01_aggregate_table / C01_aggregate_shape tie it to the aggregate the plan applies to the measure's raw column.",
         "Trusted: Coq kernel; Model/Sem.v + Model/Single.v hand-written (modelled-not-verified), tied by differential testing; DuckDB evaluates expressions/aggregates; hypothesis composite_cd_free (count_distinct-without-sql on a composite key is known finding C01-K2). No axioms.",
         "Coq proof plan = reference semantics (induction over rows); model/implementation correspondence on generated cases via vm_compute", "DESIGN.md section 6/C01")

register("C02",
         "Machine-checked Coq theorems for join trees of ANY size and tables of any size: a slot flagged safe along the join steps carries each row of its model in at most one wide row (C02_safe_slots, induction over steps, "
         "when the declared cardinalities hold in the data); the value computed for a metric equals its aggregation over the DISTINCT connected rows of its own model for plain aggregates on safe slots, for COUNT DISTINCT/MIN/MAX unconditionally, "
         "and for the symmetric SUM/AVG/COUNT form under unique non-NULL keys, an injective hash and bounded non-NULL integer values (C02_metric_value); adjacency is declaration-side invariant. "
         "C02_decision: in the plan of the planning model every base-model metric gets the symmetric form or sits on a safe slot, for any declarations and query. Regenerated from the source on every run: the SQL shape of "
         "build_symmetric_aggregate_sql per aggregation literal (proved to mean exactly the symmetric aggregate of the theorems, C02_symagg_shapes) and the decision table of _has_fanout_joins over scripted join paths "
         "(proved equal to the planning model's flag, C02_fanout_table / C02_fanout_is_plan_flag). "
         "The planning decisions (base model, BFS steps, LEFT/INNER, which metric is symmetric) and the joined query are hand-written models tied to generator.py + DuckDB by executing random forests/queries on both; "
         "the reference semantics is the property oracle. Three narrow known-finding classes (K1 non-base metric on an unsafe slot, K2 NULL measure under the symmetric form, K3 DOUBLE under the symmetric SUM) are carved out with refutation witnesses.",
         "Trusted: Coq kernel; translator/pyinterp.py + gen_symagg.py (fail-closed, validated against CPython each run; the SQL-text-to-shape parser is trusted); Model/Plan.v + Model/Join.v + Model/Mult.v hand-written (modelled-not-verified), tied by differential testing; hash injectivity and value bound are explicit hypotheses; DuckDB as oracle. No axioms.",
         "Coq induction over join steps (multiplicity invariant) + symmetric-aggregate algebra + planning-decision theorem; translator-regenerated SQL shapes / decision table; model/implementation correspondence on generated forests", "DESIGN.md section 6/C02")

register("C03",
         "Machine-checked Coq theorems about the multi-fact form for sub-query results of ANY size: the FULL OUTER JOIN (NULL-safe dimension equality, COALESCE) of two key-unique sub-results has exactly the union of their groups, each once (C03_union), "
         "and every value of either sub-query appears unchanged in its group's row, NULL-padded where the other side lacks the group (C03_values_*); the exact shape of the join is characterised without any uniqueness hypothesis; the three-way chain is refuted by witnesses. "
         "Model/MultiFact.v (sub-query per metric model reusing the C02 plan/join model, join chain, filter partitioning) is hand-written and tied to the code by executing joint queries on both; the oracle is the property's own observation: "
         "the full outer join of the IMPLEMENTATION's single-metric results. Known-finding classes K1 (filter on a metric model), K2 (filter on a non-metric model -> binder error), K4 (metrics of two models joined one_to_one are not split). Regenerated on every run: the verdict table of _needs_preaggregation_for_fanout (2744 scripted scenarios), proved equal to the decision function and to the planning model's needs_multifact for any graph and query (C03_multifact_table, C03_multifact_is_plan_decision). Also regenerated: the STRUCTURE of the multi-fact statement (_generate_with_preaggregation on 260 scripted queries): C03_statement_table; C03_joins_on_all_dimension_columns / C03_sub_queries_share: for any query, every later sub-query is joined with the first on all dimension columns (granularity included) and all sub-queries get the same dimensions and row filters.",
         "Trusted: translator/pyinterp.py + gen_multifact.py (fail-closed definitional interpreter, validated against CPython each run); Coq kernel; Model/MultiFact.v hand-written, tied by differential testing; DuckDB as oracle. The theorems cover the outer join; that each sub-query equals the single-metric query is by construction of the code (same generate() call) and checked by the oracle. No axioms.",
         "Coq proof about the outer-join combinator + model/implementation correspondence; oracle from the implementation's own single-metric queries; translator-regenerated verdict table of the multi-fact decision", "DESIGN.md section 6/C03")

register("C04",
         "Machine-checked Coq theorems: one conjunction = several filters = any order = applied one after the other under SQL three-valued logic (C04_conj/order/sequential, any filter list, any table); "
         "pushing a filter into the joined model's sub-query and INNER-joining it equals joining all rows and keeping the wide rows whose slot satisfies the filter (C04_pushdown, any wide-row bag); after an INNER step every wide row is connected to a row of the filtered model and later steps keep that slot (semi-join reading); "
         "a metric's own filters touch only its column. Tied to the code through the C02 plan/join model executed on filtered queries, and by metamorphic runs on the implementation: list / one conjunction / reversed / segment with {model} / segment with bare columns must agree, "
         "a metric-value filter must equal post-filtering, a metric filter must not change other metrics. Partial: segment resolution, the text-level model.field rewriting and relative dates are exercised end to end only. Regenerated on every run: how _classify_filters_for_pushdown distributes 141 scripted filter lists (scripted sqlglot trees); C04_classify_table (model == code) and C04_classify_sound (a pushed-down conjunct only mentions columns of its model, no metric). Also regenerated: the text _join_conjuncts builds from scripted condition lists (OR conditions parenthesised, joined with AND): C04_conjuncts_table / C04_conjuncts_shape.",
         "Trusted: translator/pyinterp.py + gen_classify.py (fail-closed, validated against CPython each run; sqlglot's parse trees are scripted); Coq kernel; Model/Sem.v, Model/Join.v, Model/Plan.v hand-written (tied by differential testing); sqlglot parse/print of filters as oracle; the C02 finding classes K1/K2 exempt the affected metric columns. No axioms.",
         "Coq proofs about 3VL filters and join-step pushdown; metamorphic + model/implementation correspondence; translator-regenerated pushdown classification table", "DESIGN.md section 6/C04")

register("C15",
         "Machine-checked Coq: C15_sites, a generated obligation over the list of every iteration over a set-typed value in generator.py (re-extracted from the source on every run): none is order-sensitive and unsorted; "
         "C15_order_free: iterating sorted(set) emits the same text for every permutation the set may hand its elements over in (String.leb proved a total order; sorted permutations are equal); "
         "C15_history_free: after any history/interleaving of planning calls every path search reads the adjacency a fresh layer would build (C19 invariant); "
         "C15_effects_closed / C15_effects_accounted: the list of every write reachable from compile / explain / query / sql / generate / rewrite / the rollup matcher that could outlive a call (attributes and items of "
         "anything reached from self, module-level containers, functools caches, the caller's own argument lists; regenerated from sidemantic/sql, sidemantic/core and validation.py on every run by a reachability scan) "
         "contains only the two writes of the modelled adjacency cache and two reviewed call-local writes. "
         "Tied to the code by compiling a battery of multi-model queries in subprocesses under 8+ hash seeds, on fresh layers and after scrambled histories, against each query compiled in a process of its own, comparing bytes, "
         "and comparing model_dump of all registered objects before/after. "
         "Partial: purity of the real objects is proved only up to the scan's aliasing rules (return values of helpers, sqlglot / pydantic internals are not followed) and otherwise observed.",
         "Trusted: Coq kernel; gen_setiter.py scanner (types set-valued names syntactically) trusted to list every set iteration; gen_effects.py reachability scan (name-based call resolution, container-level copies fresh); "
         "CPython hash randomisation as the only source of set-order nondeterminism. No axioms.",
         "Coq proof of permutation-invariance of sorted iteration + regenerated site and persistent-write obligations; multi-process byte comparison", "DESIGN.md section 6/C15")

register("C07",
         "Machine-checked Coq theorems for EVERY timestamp (Z microseconds, unbounded): truncation to hour/day/ISO week/month/quarter/year is the floor onto the bucket starts (C07_floor; era-periodicity lemmas + one exhaustive 400-year sweep lifted to all Z); "
         "additive roll-up of SUM and COUNT from any nested finer granularity for every table (C07_additive_*; from floor composition + a regrouping lemma); the default-time-dimension step keeps requested dimensions and adds only a model's default time dimension, only with a requested metric and no requested time dimension; "
         "a granularity on a non-time field is an error. Grouping by several granularities is an instance of C01_rows. Ties: extracted calendar vs DuckDB DATE_TRUNC on calendar edges (thorough: every hour of a 28-year cycle); time-granularity queries vs the Single model; "
         "the default-dimension function vs its model; additivity and the iff re-checked directly on the implementation. Regenerated on every run: what _apply_default_time_dimensions returns on 1008 scripted scenarios; C07_default_table proves the model returns the same list on each. Also regenerated: how _parse_dimension_refs splits references (C07_dimref_table); C07_dimref_roundtrip: for ANY reference text p and granularity word g, p__g is read back as (p, g).",
         "Trusted: translator/pyinterp.py + gen_timedim.py (fail-closed, validated against CPython each run); Coq kernel (vm_compute sweeps); Base/Calendar.v hand-written, tied to DuckDB by correspondence; Model/TimeDim.v hand-written model; extraction (ExtrOcamlBasic). Only the completeness half of the default-dimension iff is checked by the oracle rather than proved. No axioms.",
         "Coq proof (calendar floor for all Z, regrouping induction) + correspondence vs DuckDB and the generator; translator-regenerated behaviour table of the default-time-dimension step", "DESIGN.md section 6/C07")

register("C17",
         "Machine-checked Coq theorems for inner results of ANY length and any number of groups: a cumulative metric's window value at period t, within each combination of the other requested dimensions separately, is its aggregate over exactly "
         "the base values of the periods up to t (running), of those within the declared trailing RANGE, or of those in the same enclosing grain period (C17_cumulative; SQL window semantics = sorted partitions, positional ROWS frames, value-based RANGE frames); "
         "on a series that is gap-free within every combination LAG k is the base value k periods earlier and the period-over-period metric is the declared calculation on it (C17_lag, C17_time_comparison); "
         "the offset table regenerated from _calculate_lag_offset on every run is exact on the matching-granularity entries and every offset is >= 1 (C17_offsets_*); the former un-partitioned window is refuted by a witness. "
         "Model/Window.v is hand-written and tied to generator.py + DuckDB by executing generated daily/weekly/monthly series on both; the same columns are compared with the reference period definitions (property oracle).",
         "Trusted: Coq kernel; gen_lagoffset translator (fail-closed, validated on the whole name domain each run); Model/Window.v hand-written (modelled-not-verified), tied by differential testing; DuckDB window functions as oracle. "
         "Lenient readings stated: trailing window = the RANGE the code declares (t-N..t), offsets that do not divide the period are the code's documented approximations; only day-unit windows are modelled. No axioms.",
         "Coq proof (sorted-partition / frame lemmas, gap-free LAG induction, aggregate permutation invariance) + regenerated offset table; model/implementation correspondence on generated series", "DESIGN.md section 6/C17")

register("C08",
         "Machine-checked Coq theorems for tables of ANY size, any truncation function and ANY predicate on the rollup key (membership in a result group and every filter over rollup columns are such predicates): "
         "re-aggregating the rollup built by the materialisation statement equals aggregating the base rows for SUM, COUNT (as SUM of counts), MIN and MAX, and the routed query has a group exactly when the base query has (C08_sum/count/min/max/groups); "
         "rolling the time bucket up to a coarser granularity is exact for nested pairs for every timestamp (C08_granularity) and the code's granularity test only admits nested pairs; "
         "the code's `_is_measure_derivable`, REGENERATED from preagg_matcher.py on every run, admits a metric only without own filters, listed in the rollup, with sum/count/min/max, or avg with a count measure (C08_derivable_sound); "
         "witnesses show why median/stddev, filtered measures, AVG-stored-as-AVG and raw-timestamp filters must not be routed. Tied to the code by executing generated rollups/queries: compile(use_preaggregations=True) vs False on a database whose "
         "rollups were built with the layer's own statement, every routing decision audited against the Coq criterion `exactly_derivable`, and Model/Preagg evaluated in Coq against the routed rows. "
         "Partial: the routing decision procedure (can_satisfy_query, filter-column extraction, scoring) is audited on generated cases, not modelled; known-finding classes K3 (avg), K6 (raw time filter). Regenerated on every run: the verdicts of can_satisfy_query on 1920 scripted scenarios; C08_matcher_table (model == code) and C08_matcher_sound (an admitted query only uses rollup columns, derivable metrics and a passed granularity test). Also regenerated: what _try_use_preaggregation asks the matcher and re-checks on 814 scripted scenarios (C08_route_table); C08_all_granularities: for ANY routed query every requested granularity is the one the matcher was asked about or one the matched rollup serves (the proof-side form of the repair cad981a); C08_route_asks. C08_routed_granularities_exact composes the regenerated links (_try_use_preaggregation -> can_satisfy_query -> _is_granularity_compatible -> calendar truncation): for a routed query every requested granularity of every timestamp is computed exactly from the rollup's bucket. The routed statement itself is regenerated too (_generate_from_preaggregation on 198 scripted queries): C08_routed_statement_table, C08_routed_dimension_items, C08_routed_count_never_null.",
         "Trusted: translator/pyinterp.py + gen_satisfy.py (fail-closed, validated against CPython each run); Coq kernel; gen_derivable / gen_grancompat translators (fail-closed, validated each run); Model/Preagg.v hand-written (one coded dimension and non-NULL integer values stand for the dimension tuple / measure values), tied by differential testing; DuckDB as oracle. No axioms.",
         "Coq proof (regrouping of decomposable aggregates over a partition, semilattice fold for min/max, calendar nesting) over a hand-written rollup model + translator-regenerated derivability; routed-vs-unrouted execution and decision audit; translator-regenerated matcher verdict table", "DESIGN.md section 6/C08")

register("C06",
         "Machine-checked Coq theorems for formulas of ANY nesting depth and any component names: the value of a formula whose references were replaced by the components' formulas is the formula applied to the components' values (C06_compositional, SQL NULL semantics); "
         "the code's expansion -- one dependency after the other, whole-word replacement by a parenthesised component text -- equals the simultaneous substitution when no replacement mentions a later name (C06_subst), and on a rendered formula it yields exactly "
         "the rendering of the substituted tree (C06_text_expansion); names that are substrings of one another never interfere (C06_names); ratio = n / NULLIF(d, 0) is NULL on a zero / NULL denominator, fill_nulls_with replaces a NULL result; tokenisation is lossless. "
         "Model/Formula.v is hand-written and tied to the code at TEXT level: `build`, evaluated in Coq on the real leaf SQL and the real dependency sets, must equal the string SQLGenerator._build_metric_sql returns for every generated composite; "
         "the property oracle evaluates each composite's formula (recursively, in Coq) over the implementation's own component columns of the same rows; unrelated models/metrics are added and must change nothing; twin composites of two models are selected together. "
         "Known-finding classes K2 (same measure name on two models in one formula), K3 (inline-aggregate metric mentioning a column that is also a metric name). Regenerated on every run: what _wrap_with_fill_nulls returns for scripted fill values (numbers, booleans, strings with quotes): C06_fill_table, and C06_fill_quotes_doubled (any text value is quoted with its quotes doubled).",
         "Trusted: Coq kernel; Model/Formula.v hand-written (tied by the text comparison and the value oracle); sqlglot's column extraction gives the dependency set, DuckDB parses/evaluates the expanded text; rows whose reference value involves x/0 (IEEE inf/nan in DuckDB) are outside the fragment. No axioms.",
         "Coq proof (token-level substitution lemma, tree induction) + text-level model/implementation correspondence; formula-over-own-components oracle and metamorphic runs", "DESIGN.md section 6/C06")

register("C20",
         "Machine-checked Coq theorems for graphs and reference lists of ANY size: validate_query reports every unknown model / metric / graph-level metric / dimension, every unknown granularity, every granularity on a non-time dimension and every unqualified dimension (C20_reject_*); "
         "every metric reference and EVERY dimension reference -- with or without a granularity suffix -- puts its model into the join check, and two registered query models that no chain of relationships connects are reported (C20_reject_disconnected, over the C10 graph model and its path-search proofs); "
         "an accepted query resolves all references and only touches joinable models; removing '_cte' recovers the model name from its CTE alias for every name that does not contain '_cte' (C20_cte_inverse), and not otherwise (refuted by witness). "
         "Model/Valid.v is hand-written and tied by comparing the error kinds of the real validate_query on generated graphs and reference lists; compile() must raise QueryValidationError exactly when errors are reported. "
         "Partial: 'accepted definitions are usable' is decided by executing every single-field query (12-13 per definition) of generated accepted definitions with adversarial legal names on a table with the declared columns -- an executed check, not a theorem; "
         "six narrow known-finding classes (K1 _cte in model names, K2 keywords, K3 <measure>_raw dimension, K4 model names needing quotes, K5 fields named like raw columns used by inline expressions / segments, K6 '__' in a dimension name). Regenerated on every run: the errors validate_query reports on 154 scripted scenarios; C20_validate_table proves the validation model reports the same errors. Regenerated on every run: how references are split into dimension and granularity (C20_dimref_table, C20_dimref_roundtrip; the witness of C20-K6 as C20_dunder_name_refuted).",
         "Trusted: translator/pyinterp.py + gen_validate.py (fail-closed, validated against CPython each run; the error-text classifier is trusted); Coq kernel; Model/Valid.v hand-written (tied by differential testing), reusing Model/Graph.v; DuckDB decides 'executes without error'; validate_model / validate_metric / pydantic constraints are exercised (registration must not raise for the generated definitions), not modelled. No axioms.",
         "Coq proof (membership lemmas over the validation function, C10 path-search completeness, string lemma for _cte) + model/implementation correspondence; executed single-field queries; translator-regenerated validation error table", "DESIGN.md section 6/C20")

register("C05",
         "Machine-checked Coq theorems for SELECT trees with ANY number of fields and filters: every rendering of a structured query -- FROM a model or FROM metrics with model-qualified names, or a single-model query with unqualified names; "
         "with or without aliases and granularity suffixes; a WHERE conjunction; ORDER BY / LIMIT / OFFSET -- is rewritten to exactly that structured query (C05_qualified, C05_unqualified, C05_where_split, C05_or_kept), after which both paths call the same generator; "
         "SQL whose FROM names no model passes through (C05_passthrough_*); explicit JOINs, function calls, literals and unknown fields are rejected (C05_reject_*). "
         "Model/Rewriter.v is hand-written and tied to query_rewriter.py by evaluating it on generated SELECT trees next to the real QueryRewriter on the printed SQL text (extracted metrics / dimensions / aliases / filters / order / limit / offset, or rejection / passthrough). "
         "The property's own observation is executed: layer.sql(text) rows and column names vs the structured query for seven renderings incl. CTE / sub-select wrapping; passthrough text vs the database. "
         "Partial: sqlglot's text -> tree step, yardstick syntax, multi-statement input and the CTE / sub-select rewriting are outside the model (exercised end to end). Regenerated on every run (Gen/RewriterTable_gen.v): what _extract_metrics_and_dimensions / _resolve_column make of 330 scripted SELECT lists (their ASTs executed against scripted sqlglot classes and a scripted graph); C05_extract_table proves the extraction model returns the same metrics, dimensions and aliases and rejects exactly the lists the method raises on.",
         "Trusted: Coq kernel; Model/Rewriter.v hand-written (tied by differential testing); sqlglot parser/printer; the harness's SQL printer for the renderings; DuckDB. No axioms.",
         "Coq proof (induction over projection and filter lists) over a hand-written model of the extraction + model/implementation correspondence; SQL-vs-structured execution oracle", "DESIGN.md section 6/C05")

register("C11",
         "Machine-checked Coq: C11_field_roundtrip -- for a field-by-field exporter / parser pair given as TABLES, a field that passes the decidable criterion `field_ok` survives export -> parse for EVERY object (up to the identification of falsy values "
         "the guards rely on; exact for fields such as fill_nulls_with); C11_native_tables -- the generated obligation: in the tables of adapters/sidemantic.py (export, _export_model, _export_metric, _export_parameter, _parse_model, _parse_metric, _parse_parameter), "
         "REGENERATED from the source on every run, every result-affecting field of models, relationships, dimensions, metrics, segments, pre-aggregations, parameters and graph-level metrics passes it. "
         "The tables are tied to the code by a fail-closed AST translator (validated against the keys the real exporter writes); generated graphs over the field vocabulary are sent through to_yaml -> from_yaml and the result-affecting fields, "
         "the compiled SQL of a 15-query battery and the routing must be unchanged. Partial: the agreement of the Python / YAML / SQL-definition syntaxes is executed on one fixed definition (the SQL-definition tokenizer is sqlglot's).",
         "Trusted: Coq kernel; translator/gen_native.py; the hand-written list Model/Native.result_fields of what counts as result-affecting; PyYAML. No axioms.",
         "Coq proof over a generic table model + obligation on translator-regenerated tables; executed YAML round trip with model_dump / SQL / routing comparison", "DESIGN.md section 6/C11")

register("C12",
         "Machine-checked Coq: for ANY vocabulary tables, the criteria `all_faithful` / `export_maps_ok` imply that an aggregation literal sent through an exporter and back is kept or dropped but never turned into another literal outside a listed set "
         "(C12_faithful_sound, C12_export_map_sound); generated obligations over the finite domain 11 aggregation literals x 15 adapters (evaluation is a proof): C12_export_defaults_listed -- in every exporter's `table.get(<metric>.agg, default)` table, "
         "REGENERATED from the adapter sources on every run, a literal outside the table's keys is a listed replacement; C12_measured_tables_faithful -- the export -> import aggregation table MEASURED on one-measure models satisfies the criterion. "
         "Everything else in the statement (filters, expressions, dimension types, granularities, keys, sources, relationships, segments, the second round trip) is decided by the exhaustive exporter x feature matrix (15 x 27 cells + pairs): "
         "export -> import, every surviving metric / dimension / segment executed on both layers on the same data, second trip compared -- differential testing supporting the model, labelled as such. "
         "Partial: 15 parsers / printers are not modelled; key / source / relationship-type changes are recorded as notes (lenient reading of 'when the format has syntax'). One known-finding entry per adapter lists its failing matrix cells.",
         "Trusted: Coq kernel; translator/gen_adaptermaps.py (fail-closed on `.get(<..>.agg, ..)` over anything but a string dict literal); the measured tables and the matrix are produced by the harness; DuckDB. No axioms.",
         "Coq proof over generic vocabulary tables + obligations on translator-regenerated exporter tables and measured round-trip tables; exhaustive adapter x feature matrix with executed before/after queries", "DESIGN.md section 6/C12")

register("C13",
         "Machine-checked Coq: the adapter chosen for a file depends only on that file's suffix and on which of the cascade's markers its content holds, never on neighbouring files (C13_neighbours, for any decision tree); "
         "a file kind passing the finite check is detected as its own format for every sub-list of its optional markers / every observed marker set (C13_signature_sound, C13_observed_sound); generated obligation C13_signatures over the decision tree "
         "REGENERATED from loaders.load_from_directory on every run and the marker sets MEASURED on this run in the files each of 14 exporters writes (a theorem relative to measured signatures, stated as such); "
         "files defining distinct model names are merged into the same result in any enumeration order, each model with its own definition (C13_merge, C13_order). "
         "The tree is validated against the real cascade on synthetic files (adapters patched to report the choice); directories assembled from exporter outputs and shipped fixtures of several formats, flat and nested, are loaded and every file whose "
         "own adapter extracts valid models must be handled by that adapter and contribute exactly those models. Partial: SML-repository short-circuit, python files and relationship inference are exercised only. Known finding: Omni files of sql-backed models.",
         "Trusted: Coq kernel; translator/gen_detect.py (fail-closed); measured signatures; Model/Loader.v merge hand-written. No axioms.",
         "Coq proof over a translator-regenerated decision tree (extensionality, finite enumeration) + merge order-independence; synthetic and assembled-directory correspondence", "DESIGN.md section 6/C13")

PENDING = "check not built yet in this revision (see DESIGN.md section 10 build order)"

# additions of the fifth session, appended to the texts above (kept apart so that no scripted edit touches the register() calls)
CTE = (" Regenerated on every run: what SQLGenerator._build_model_cte projects -- (expression, alias) items, FROM, pushed-down WHERE -- on 476 scripted worlds x queries (Gen/CteShape_gen.v, fail-closed "
       "definitional interpreter, validated against CPython); Model/CteShape.v equals it on every row, and for ANY definition, graph and query: ")
APPEND = {
    "C01": CTE + "the raw column of a measure is 1 / the key / its own expression guarded by its filters (C01_cte_table, C01_raw_column_of_a_measure). One case in four is registered through extends + resolve_model_inheritance.",
    "C02": CTE + "the primary key and every key column the join paths use are projected, a dimension that is not a key column keeps its own SQL (C02_primary_key_projected, C02_join_keys_projected, "
                 "C02_non_key_dimension_own_sql); the K4 witness is a row of the regenerated table. Sample stddev / variance / median of the parent across a one_to_many hop are a targeted family.",
    "C04": CTE + "a metric's filters only change that metric's raw column, which is the unfiltered column guarded by their conjunction (C04_metric_filter_only_its_column, C04_filtered_measure_guarded). "
                 "Metric-value filters are also asked with a rollup available, routed and unrouted. _rewrite_model_refs_to_ctes is regenerated on scripted texts (C04_cte_reference_table).",
    "C20": CTE + "every requested dimension is projected under its name and every requested granularity of a time dimension under <name>__<granularity>, nothing twice (C20_requested_dimension_projected, "
                 "C20_requested_granularity_projected, C20_projected_once); the K3 witness is a row of the regenerated table. One definition in three is registered through extends.",
    "C08": " Regenerated on every run as well: what _rewrite_filter_for_preaggregation returns on 10 scripted filter texts x 4 rollups (Gen/RefRewrite_gen.v); the reference-level model equals it on "
           "every parsed row and, for EVERY reference, drops the model's own qualifier, leaves other tables alone and maps the rollup's time dimension to its time column (C08_filter_rewrite_table, "
           "C08_own_reference_unqualified, C08_other_table_untouched, C08_time_dimension_reads_time_column). Listed since the fifth session: C08-K9.",
    "C11": " Regenerated on every run: what sql_definitions._parse_scalar_literal makes of 44 scripted property values (Gen/SqlValue_gen.v); Model/SqlValue.v equals it on every row and, for EVERY text s, "
           "the single-quoted literal with doubled quotes denotes s (C11_quoted_literal_roundtrip). Generated three-way definitions (Python / YAML / SQL definition syntax with quoted expressions) are compiled and compared.",
}


def main():
    check_complete()
    props = [json.loads(l)["id"] for l in open(os.path.join(VERIF, "properties.jsonl"))]
    checks = []
    for pid in props:
        if pid in CHECKS:
            c = CHECKS[pid]
            checks.append({
                "property_id": pid,
                "quick_cmd": "./check %s --tier quick" % pid,
                "thorough_cmd": "./check %s --tier thorough" % pid,
                "evidence_file": "evidence/%s.json" % pid,
                "replay_cmd_template": "./check {property} --replay {path}".replace("{property}", pid),
                "engine": "coq-model",
                "level_claimed": {"category": "proof", "text": c["text"] + APPEND.get(pid, ""), "design_ref": c["design_ref"]},
                "level_note": c["note"],
                "technique": c["technique"],
            })
    na = [{"property_id": p, "reason": NOT_APPLICABLE.get(p, PENDING)} for p in props if p not in CHECKS]
    man = {
        "version": 1,
        "setup_cmd": "./setup.sh",
        "hooks": {"guard": "SIDEMANTIC_VERIF", "enable": "no hooks are needed: the checks drive the unmodified package through its public API (PYTHONPATH=/repo)",
                  "baseline_off_cmd": "cd /repo && /venv/bin/python -m pytest -ra -q -p no:cacheprovider --timeout=900 --continue-on-collection-errors",
                  "source_commits": [], "add_only": True},
        "engines": [
            {"name": "coq-model", "path": "coq/", "serves_properties": sorted(CHECKS), "kind_free_text": "Coq 8.16.1 development: models (hand-written + regenerated from /repo by translator/), proofs, property theorems"},
            {"name": "correspondence", "path": "harness/", "serves_properties": sorted(CHECKS), "kind_free_text": "Python harness: regenerates Gen/*.v, builds, audits Print Assumptions, runs model (vm_compute / extracted OCaml) and implementation (real sidemantic + DuckDB) on the same inputs"},
        ],
        "checks": checks,
        "not_applicable": na,
        "notes": "Every check is ./check Cnn --tier quick|thorough; seed via VERIF_SEED; see DESIGN.md.",
    }
    with open(os.path.join(VERIF, "MANIFEST.json"), "w") as f:
        json.dump(man, f, indent=1)
    print("wrote MANIFEST.json: %d checks, %d not_applicable" % (len(checks), len(na)))


if __name__ == "__main__":
    main()
