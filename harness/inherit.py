"""Model inheritance as an input family.  `via_inheritance(model, rng)` returns a model that MEANS the same as `model` but was obtained the way the adapters and
users of `extends` obtain theirs: a child that extends a parent, resolved by sidemantic.core.inheritance.resolve_model_inheritance.  The parent holds part of the
definitions untouched (inherited), the child declares the others -- some of them under a name the parent also uses with a DIFFERENT definition (a decoy: other SQL,
other aggregation, filters, fill value, granularity, keys).  The documented rule (`merge_model`: "child items overriding parent items with same name") makes the
resolved child equal to `model` up to the order of the items, so every oracle that holds for `model` holds for the resolved child.  Gen/Inherit_gen.v holds what
merge_model does on scripted parents / children (translator/gen_inherit.py), Model/Inherit.v proves the lookup law the family relies on."""


def _decoy(field, item, k):
    from sidemantic import Dimension, Metric, Relationship
    from sidemantic.core.segment import Segment
    if field == "metrics":
        # a simple aggregation over another column, with a filter that removes every row, a fill value, a description and a format
        return Metric(name=item.name, agg=["sum", "count", "max", "count_distinct"][k % 4], sql="decoy_col_%d" % k, filters=["1 = 0"], fill_nulls_with=777,
                      description="decoy", format="0.0", label="Decoy")
    if field == "dimensions":
        if k % 2:
            return Dimension(name=item.name, type="time", sql="decoy_ts", granularity="year", description="decoy", label="Decoy")
        return Dimension(name=item.name, type="categorical", sql="'decoy'", description="decoy", label="Decoy")
    if field == "segments":
        return Segment(name=item.name, sql="1 = 0", description="decoy")
    return Relationship(name=item.name, type=["one_to_many", "many_to_one", "one_to_one"][k % 3], foreign_key="decoy_fk", primary_key="decoy_pk")


def via_inheritance(model, rng):
    from sidemantic import Model
    from sidemantic.core.inheritance import resolve_model_inheritance
    from sidemantic.core.registry import get_current_layer, set_current_layer
    cur = get_current_layer()
    set_current_layer(None)          # building the pieces must not register anything anywhere
    try:
        parent_kw, child_kw = {}, {}
        k = rng.randint(0, 7)
        for field in ("dimensions", "metrics", "segments", "relationships"):
            items = list(getattr(model, field) or [])
            p_items, c_items = [], []
            for it in items:
                r = rng.random()
                if r < 0.3:
                    p_items.append(it)                      # inherited untouched
                elif r < 0.5:
                    c_items.append(it)                      # declared by the child only
                else:
                    k += 1
                    p_items.append(_decoy(field, it, k))    # re-declared: the parent's definition under this name is something else
                    c_items.append(it)
            if p_items:
                parent_kw[field] = p_items
            if c_items:
                child_kw[field] = c_items
        # every other field the model sets: inherited from the parent, or set by the child -- then the parent holds a decoy of the same kind where one exists (another
        # table / SQL / key / default grain) or nothing at all (default time dimension, rollups: the child's own declaration must survive the resolution)
        decoys = {"table": "decoy_table", "sql": "SELECT 1 AS decoy", "primary_key": "decoy_id", "default_grain": "year", "description": "decoy"}
        for f in sorted(model.model_fields_set - {"name", "extends", "dimensions", "metrics", "segments", "relationships"}):
            v = getattr(model, f)
            if v is not None and rng.random() < 0.5:
                if f in decoys and rng.random() < 0.7:
                    parent_kw[f] = decoys[f]
                child_kw[f] = v
            else:
                parent_kw[f] = v
        pname = model.name + "_base"
        parent = Model(name=pname, **parent_kw)
        child = Model(name=model.name, extends=pname, **child_kw)
        return resolve_model_inheritance({pname: parent, model.name: child})[model.name]
    finally:
        set_current_layer(cur)


def maybe(model, key, one_in=4):
    """`model` itself, or -- for one case in `one_in`, chosen by a checksum of `key` (the case's own text, so that a replay takes the same route and the
    generators' random streams are left alone) -- the same definitions obtained through inheritance resolution."""
    import random
    import zlib
    h = zlib.crc32(repr(key).encode())
    if h % one_in:
        return model
    return via_inheritance(model, random.Random(h))
