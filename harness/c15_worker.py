"""Subprocess worker for C15: builds a fixed battery of layers and queries and prints one line per query:
<index>\t<sha1 of SQL>.  Run under different PYTHONHASHSEED values; the parent compares the lines.  With --dump it prints the SQL."""
import hashlib
import json
import sys
import warnings

warnings.filterwarnings("ignore")


def battery():
    from sidemantic import Dimension, Metric, Model, Relationship
    from sidemantic.core.segment import Segment

    def layer(edited=False):
        from harness import dbutil
        L = dbutil.fresh_layer()
        names = ["orders", "stores", "items", "regions", "returns", "customers"]     # registration order makes the adjacency order differ at the two ends of the diamond
        rels = {"orders": [("customers", "many_to_one", "customer_id"), ("stores", "many_to_one", "store_id")], "items": [("orders", "one_to_one" if edited else "many_to_one", "order_id")],
                "customers": [("regions", "many_to_one", "region_id")], "returns": [("orders", "many_to_one", "order_id")], "regions": [], "stores": [("regions", "many_to_one", "region_id")]}      # orders -> customers -> regions and orders -> stores -> regions: two equally short paths
        for n in names:
            mets = [Metric(name="n", agg="count"), Metric(name="total", agg="sum", sql="amount"), Metric(name="avg_amt", agg="avg", sql="amount"),
                    Metric(name="big", agg="sum", sql="amount", filters=["{model}.amount > 10", "{model}.kind = 'x'"]),
                    Metric(name="uniq", agg="count_distinct", sql="kind"), Metric(name="mx", agg="max", sql="qty"), Metric(name="mn", agg="min", sql="qty"),
                    Metric(name="ratio_ab", type="ratio", numerator="total", denominator="n"),
                    Metric(name="mix", type="derived", sql="total + mx - mn + uniq"),
                    Metric(name="expr", sql="SUM(amount) / NULLIF(COUNT(DISTINCT kind), 0)")]
            L.add_model(Model(name=n, table=n, primary_key="id",
                              relationships=[Relationship(name=t, type=ty, foreign_key=fk) for t, ty, fk in rels[n]],
                              dimensions=[Dimension(name="kind", type="categorical"), Dimension(name="status", type="categorical"), Dimension(name="day", type="time", granularity="day", sql="created"),
                                          Dimension(name="customers_kind", type="categorical", sql="kind"), Dimension(name="orders_n", type="numeric", sql="qty")],   # named like the aliases a name clash generates
                              metrics=mets, segments=[Segment(name="xs", sql="{model}.kind = 'x'"), Segment(name="done", sql="status = 'completed'")]))      # `done`: the same unqualified text on every model
        # composite keys: a detail table keyed by (order, line) with one foreign key inside its key and one outside it, a composite-keyed parent
        L.add_model(Model(name="lines", table="lines", primary_key=["order_id", "line_no"],
                          relationships=[Relationship(name="orders", type="many_to_one", foreign_key="order_id"), Relationship(name="products", type="many_to_one", foreign_key=["vendor_id", "sku"])],
                          dimensions=[Dimension(name="kind", type="categorical")], metrics=[Metric(name="n", agg="count"), Metric(name="total", agg="sum", sql="amount"), Metric(name="uniq", agg="count_distinct")]))
        L.add_model(Model(name="products", table="products", primary_key=["vendor_id", "sku"],
                          relationships=[Relationship(name="shelves", type="one_to_many", foreign_key=["vendor_id", "sku"])],
                          dimensions=[Dimension(name="kind", type="categorical")], metrics=[Metric(name="n", agg="count"), Metric(name="total", agg="sum", sql="amount")]))
        L.add_model(Model(name="shelves", table="shelves", primary_key="id", dimensions=[Dimension(name="kind", type="categorical")], metrics=[Metric(name="n", agg="count")]))
        # a model with several rollups, two of which tie for some queries: routing must not depend on what was compiled before, nor reorder the list
        from sidemantic.core.pre_aggregation import PreAggregation
        L.add_model(Model(name="events", table="events", primary_key="id",
                          dimensions=[Dimension(name="kind", type="categorical"), Dimension(name="status", type="categorical"), Dimension(name="day", type="time", granularity="day", sql="created")],
                          metrics=[Metric(name="n", agg="count"), Metric(name="total", agg="sum", sql="amount")],
                          pre_aggregations=[PreAggregation(name="daily_by_status", measures=["total", "n"], dimensions=["status"], time_dimension="day", granularity="day"),
                                            PreAggregation(name="daily_by_kind", measures=["total", "n"], dimensions=["kind"], time_dimension="day", granularity="day"),
                                            PreAggregation(name="monthly_all", measures=["total"], dimensions=["kind", "status"], time_dimension="day", granularity="month")]))
        # model-level metrics that EXTEND others (every attribute still written out, so that the definitions mean the same with or without inheritance resolution)
        L.add_model(Model(name="inh", table="inh", primary_key="id", dimensions=[Dimension(name="kind", type="categorical")],
                          metrics=[Metric(name="total", agg="sum", sql="amount"), Metric(name="n", agg="count"), Metric(name="share", type="ratio", numerator="total", denominator="n"),
                                   Metric(name="share2", type="ratio", extends="share", numerator="total", denominator="n"),
                                   Metric(name="net", type="derived", sql="total - n"), Metric(name="net2", extends="net", type="derived", sql="total - n - n"),
                                   Metric(name="big", agg="sum", sql="amount", extends="total", filters=["amount > 10"])]))
        # names longer than the identifier limits of some dialects (63 / 128 characters), compiled for those dialects below
        long_m, long_d = "total_amount_of_all_completed_orders_in_the_reporting_currency_after_refunds_and_discounts", "customer_segment_as_assigned_by_the_quarterly_marketing_review_process_2024"
        L.add_model(Model(name="wide", table="wide", primary_key="id", dimensions=[Dimension(name=long_d, type="categorical", sql="seg"), Dimension(name="day", type="time", granularity="day", sql="created")],
                          metrics=[Metric(name=long_m, agg="sum", sql="amount"), Metric(name="n", agg="count"), Metric(name=long_m + "_share", type="ratio", numerator=long_m, denominator="n")]))
        L.add_metric(Metric(name="cross", type="derived", sql="orders.total + customers.total + items.total"))
        L.add_metric(Metric(name="cross2", type="derived", sql="returns.n / orders.n"))
        L.add_metric(Metric(name="cross_ratio", type="ratio", numerator="items.total", denominator="orders.total"))
        L.add_metric(Metric(name="running", type="cumulative", sql="orders.total"))
        L.add_metric(Metric(name="ab_ba", type="derived", sql="orders.mx + orders.mn + orders.n"))
        return L
    queries = [
        dict(metrics=["orders.total"], dimensions=["customers.kind", "items.kind", "regions.kind"]),
        dict(metrics=["orders.total", "orders.n", "orders.big", "orders.uniq", "orders.mx", "orders.mn", "orders.avg_amt"], dimensions=["orders.kind"]),
        dict(metrics=["orders.mix", "orders.ratio_ab", "orders.expr"], dimensions=["orders.status", "customers.kind"]),
        dict(metrics=["cross"], dimensions=[]),
        dict(metrics=["cross", "cross2", "cross_ratio"], dimensions=["orders.kind"]),
        dict(metrics=["items.total", "orders.total", "customers.total"], dimensions=["regions.kind"]),
        dict(metrics=["orders.big", "orders.total"], dimensions=["stores.kind", "regions.kind"], filters=["customers.status = 'a'", "items.kind = 'z'"], segments=["orders.xs"]),
        dict(metrics=["running", "orders.n"], dimensions=["orders.day__month"]),
        dict(metrics=["ab_ba"], dimensions=["orders.day__week", "customers.kind"]),
        dict(metrics=["returns.total", "returns.mix"], dimensions=["stores.kind", "customers.status", "orders.status"], order_by=["stores.kind"], limit=5),
        dict(metrics=["orders.total"], dimensions=["regions.kind"]),                                         # the diamond, walked from orders
        dict(metrics=["regions.n"], dimensions=["regions.kind"], filters=["orders.status = 'a'"]),          # ... and from regions
        dict(metrics=["items.total"], dimensions=["regions.status", "stores.kind"]),
        dict(metrics=["lines.total", "lines.uniq"], dimensions=["products.kind"]),                           # composite keys: foreign key outside the detail table's key
        dict(metrics=["lines.n"], dimensions=["orders.kind", "lines.kind"]),                                 # ... foreign key inside it
        dict(metrics=["orders.total"], dimensions=["lines.kind"]),                                           # fan-out onto the composite-keyed child
        dict(metrics=["products.total", "products.n"], dimensions=["shelves.kind"], filters=["lines.kind = 'x'"]),
        dict(metrics=["lines.uniq"], dimensions=["lines.kind"]),
        dict(metrics=["events.total"], dimensions=["events.kind"], use_preaggregations=True),
        dict(metrics=["events.total"], dimensions=["events.day__month"], use_preaggregations=True),          # daily_by_status and daily_by_kind tie
        dict(metrics=["events.total", "events.n"], dimensions=["events.status", "events.day__week"], use_preaggregations=True),
        dict(metrics=["events.total"], dimensions=["events.kind", "events.status", "events.day__year"], use_preaggregations=True),
        # ONE filter string that names several models the rest of the query does not mention: their join order comes from the filter text alone
        dict(metrics=["orders.total"], dimensions=[], filters=["customers.status = 'a' AND items.kind = 'z' AND stores.kind = 'k' AND returns.status = 'r'"]),
        dict(metrics=["orders.n"], dimensions=["orders.kind"], filters=["regions.kind = 'n' AND returns.kind = 'x' AND items.status = 'o' AND customers.kind = 'c' AND stores.status = 's'"]),
        # the same segment TEXT (unqualified) declared on different models: each query must filter its own model
        dict(metrics=["orders.total"], dimensions=[], segments=["orders.done"]),
        dict(metrics=["returns.total"], dimensions=[], segments=["returns.done"]),
        dict(metrics=["customers.n"], dimensions=["customers.kind"], segments=["customers.done"], filters=["customers.kind = 'c'"]),
        dict(metrics=["regions.n"], dimensions=[], filters=["regions.kind = 'c'"]),
        # the same field name from two models (prefixed aliases) next to a field whose OWN name is one of those aliases
        dict(metrics=["orders.n"], dimensions=["orders.kind", "customers.kind", "orders.customers_kind"]),
        dict(metrics=["orders.n", "customers.n"], dimensions=["orders.kind", "customers.orders_n", "stores.kind"]),
        # the multi-fact form (metrics of two models across a many_to_one hop) with row filters on several models, metric models and others
        dict(metrics=["orders.total", "customers.n"], dimensions=["regions.kind"], filters=["orders.status = 'a'", "regions.kind = 'n'", "stores.kind = 'k'", "customers.status = 'c'", "items.kind = 'z'"]),
        dict(metrics=["returns.n", "orders.n"], dimensions=[], filters=["stores.status = 's' AND customers.kind = 'c'", "returns.kind = 'x'"], segments=["orders.done"]),
        # metrics that extend other metrics of their model; an unqualified name of a model-level metric is not a graph-level metric, whatever was compiled before
        dict(metrics=["inh.share2", "inh.net2", "inh.big"], dimensions=["inh.kind"]),
        dict(metrics=["net2"], dimensions=["inh.kind"]),
        dict(metrics=["inh.net", "inh.share"], dimensions=[]),
    ]
    long_m, long_d = "total_amount_of_all_completed_orders_in_the_reporting_currency_after_refunds_and_discounts", "customer_segment_as_assigned_by_the_quarterly_marketing_review_process_2024"
    for dialect in ("postgres", "bigquery", "snowflake", "clickhouse", "spark"):
        # other dialects: over-long names, a running total, a fan-out query (the symmetric form is dialect specific)
        queries.append(dict(metrics=["wide." + long_m, "wide." + long_m + "_share"], dimensions=["wide." + long_d, "wide.day__month"], dialect=dialect))
        queries.append(dict(metrics=["orders.total", "orders.avg_amt"], dimensions=["items.kind"], dialect=dialect))
        queries.append(dict(metrics=["running"], dimensions=["orders.day__week"], dialect=dialect))
    return layer, queries


def main():
    dump = "--dump" in sys.argv
    history = "--history" in sys.argv
    layer, queries = battery()
    if "--edited" in sys.argv or "--edited-fresh" in sys.argv:
        # a relationship corrected IN PLACE on a used layer, then graph.build_adjacency(): every later compile must equal the compile on a layer
        # that was built with the corrected relationship from the start (no planning state may survive the rebuild)
        if "--edited" in sys.argv:
            L = layer()
            for q in queries:
                try:
                    L.compile(**q)
                except Exception:
                    pass
            rel = [r for r in L.graph.models["items"].relationships if r.name == "orders"][0]
            rel.type = "one_to_one"
            L.graph.build_adjacency()
        else:
            L = layer(edited=True)
        for i, q in enumerate(queries):
            try:
                sql = L.compile(**q)
            except Exception as e:
                sql = "ERROR %s: %s" % (type(e).__name__, e)
            print("%d\t%s" % (i, hashlib.sha1(sql.encode()).hexdigest()))
            if dump:
                print(sql)
                print("-----")
        return
    if "--isolated" in sys.argv:
        # every query in a process of its own (forked before anything was compiled): the reference for "regardless of which other queries were compiled before"
        import os
        sys.stdout.flush()
        for i, q in enumerate(queries):
            pid = os.fork()
            if pid == 0:
                try:
                    sql = layer().compile(**q)
                except Exception as e:
                    sql = "ERROR %s: %s" % (type(e).__name__, e)
                sys.stdout.write("%d\t%s\n" % (i, hashlib.sha1(sql.encode()).hexdigest()))
                if dump:
                    sys.stdout.write(sql + "\n-----\n")
                sys.stdout.flush()
                os._exit(0)
            os.waitpid(pid, 0)
        return
    L = layer()
    # an unrelated layer created the default way (auto_register=True) is the process's CURRENT layer while the battery is compiled: nothing may be registered on it
    from sidemantic import SemanticLayer
    from sidemantic.core.registry import set_current_layer
    ambient = SemanticLayer(connection="duckdb:///:memory:", auto_register=False)

    class Ambient:          # `ambient` is current only while compile / explain run (the battery's own Model(...) calls must not register there)
        def __enter__(self):
            set_current_layer(ambient)

        def __exit__(self, *a):
            set_current_layer(None)
    snapshot = lambda: (json.dumps({n: m.model_dump(mode="json") for n, m in L.graph.models.items()}, sort_keys=True, default=str) + json.dumps({n: m.model_dump(mode="json") for n, m in L.graph.metrics.items()}, sort_keys=True, default=str)
                        + json.dumps([sorted(ambient.graph.models), sorted(ambient.graph.metrics)]))
    fresh = snapshot()              # the registered definitions before ANY compile / explain call
    out = []
    if history:
        # every query is compiled after all the others have been compiled / explained on the same layer, in a scrambled order
        order = list(range(len(queries)))[::-1] + list(range(0, len(queries), 2))
        for k in order:
            try:
                with Ambient():
                    L.compile(**queries[k])
            except Exception:
                pass
        try:
            with Ambient():
                L.explain(**{k: v for k, v in queries[1].items() if k in ("metrics", "dimensions", "filters")})
        except Exception:
            pass
    for i, q in enumerate(queries):
        try:
            Lq = L if history else layer()
            with Ambient():
                sql = Lq.compile(**q)
        except Exception as e:
            sql = "ERROR %s: %s" % (type(e).__name__, e)
        out.append(sql)
    if not history:
        # the shared layer has not been used yet: compile (and explain) everything on it once, for the purity check
        for q in queries:
            try:
                with Ambient():
                    L.compile(**q)
                    L.explain(**{k: v for k, v in q.items() if k in ("metrics", "dimensions", "filters")})
            except Exception:
                pass
    before, after = fresh, snapshot()
    for i, sql in enumerate(out):
        print("%d\t%s" % (i, hashlib.sha1(sql.encode()).hexdigest()))
        if dump:
            print(sql)
            print("-----")
    print("pure\t%s" % ("yes" if before == after else "NO"))


if __name__ == "__main__":
    main()
