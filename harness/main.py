"""./check Cnn [--tier quick|thorough] [--replay file]"""
import argparse
import importlib
import os
import sys
import traceback

from harness import lib


def main():
    ap = argparse.ArgumentParser()
    ap.add_argument("prop")
    ap.add_argument("--tier", default=os.environ.get("VERIF_TIER", "quick"), choices=["quick", "thorough"])
    ap.add_argument("--seed", type=int, default=int(os.environ.get("VERIF_SEED", "20260929")))
    ap.add_argument("--replay", default=None)
    a = ap.parse_args()
    prop = a.prop.upper()
    # A run against another tree (VERIF_REPO=<worktree with a seeded change>) regenerates coq/Gen from THAT tree: it must never do so inside
    # the real /verif, whose generated files (committed copies included) describe /repo.  Such a run re-executes itself in a private copy.
    if os.path.realpath(lib.REPO) != "/repo" and os.path.realpath(lib.VERIF) == "/verif" and not a.replay:
        import shutil
        import subprocess
        import tempfile
        tmp = tempfile.mkdtemp(prefix="verif_copy_")
        try:
            subprocess.run(["rsync", "-a", "--exclude", ".git", "--exclude", "replays", "/verif/", tmp + "/"], check=True)
            rc = subprocess.run([os.path.join(tmp, "check")] + sys.argv[1:], cwd=tmp).returncode
            os.makedirs("/verif/replays", exist_ok=True)
            for f in os.listdir(os.path.join(tmp, "replays")) if os.path.isdir(os.path.join(tmp, "replays")) else []:
                shutil.copy(os.path.join(tmp, "replays", f), "/verif/replays/")
        finally:
            shutil.rmtree(tmp, ignore_errors=True)
        sys.exit(rc)
    mod = importlib.import_module("harness.props.%s" % prop.lower())
    if a.replay:
        sys.exit(mod.replay(a.replay))
    c = lib.Check(prop, a.tier, a.seed)
    try:
        from harness import regen_all
        regen_all.regen_translated()          # every translated file describes the tree as it is NOW (the owning check reports a failing translator)
        mod.run(c)
    except Exception:  # a crash of the machinery is reported as a broken check, never as a pass
        tb = traceback.format_exc()
        print(tb)
        c.obligation("harness", False, "correspondence", "harness crashed:\n" + tb)
    sys.exit(c.finish())


if __name__ == "__main__":
    main()
