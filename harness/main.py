"""./check Cnn [--tier quick|thorough] [--replay file]"""
import argparse
import importlib
import os
import sys
import traceback

from harness import lib


def main():
    ap = argparse.ArgumentParser()
    ap.add_argument("prop")
    ap.add_argument("--tier", default=os.environ.get("VERIF_TIER", "quick"), choices=["quick", "thorough"])
    ap.add_argument("--seed", type=int, default=int(os.environ.get("VERIF_SEED", "20260929")))
    ap.add_argument("--replay", default=None)
    a = ap.parse_args()
    prop = a.prop.upper()
    mod = importlib.import_module("harness.props.%s" % prop.lower())
    if a.replay:
        sys.exit(mod.replay(a.replay))
    c = lib.Check(prop, a.tier, a.seed)
    try:
        mod.run(c)
    except Exception:  # a crash of the machinery is reported as a broken check, never as a pass
        tb = traceback.format_exc()
        print(tb)
        c.obligation("harness", False, "correspondence", "harness crashed:\n" + tb)
    sys.exit(c.finish())


if __name__ == "__main__":
    main()
