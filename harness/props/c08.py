"""C08 — pre-aggregation routing never changes an answer.

Proof:  Props/C08.v (re-aggregating the materialised rollup = aggregating the base rows, for sum/count/min/max, any table, any
        predicate on the rollup key; granularity roll-up for nested pairs; the REGENERATED _is_measure_derivable and
        _is_granularity_compatible only admit those; witnesses for median / filtered / avg-as-avg / raw time filters).
Ties:   Gen/Derivable_gen.v regenerated from preagg_matcher.py and compared with the Python method on a name x agg x filter
        domain; Model/Preagg.find_count_measure vs _find_count_measure_for_avg; Model/Preagg.materialize_p + routed_* evaluated
        inside Coq against the implementation's routed rows.
Oracle: (the property's own observation) compile(use_preaggregations=True) vs False executed on the same database whose rollup
        tables were built with the layer's own materialisation statement; every routing decision is audited against the Coq
        criterion `exactly_derivable`.
"""
import datetime
import json
import re
import warnings

from harness import dbutil, lib, semgen as sg

warnings.filterwarnings("ignore")
UD = 86400000000
GRANS = ["hour", "day", "week", "month", "quarter", "year"]
GCOQ = {"hour": "Hour", "day": "Day", "week": "Week", "month": "Month", "quarter": "Quarter", "year": "Year"}
MEAS = {"rev": ("sum", "v", None), "cnt": ("count", None, None), "cntv": ("count", "v", None), "mx": ("max", "v", None), "mn": ("min", "v", None),
        "avg_v": ("avg", "v", None), "count_v": ("count", "v", None), "cd": ("count_distinct", "g1", None), "med": ("median", "v", None), "sd": ("stddev", "v", None),
        "frev": ("sum", "v", ["{model}.g1 = 'a'"]), "esum": ("sum", "v + w", None), "w_avg": ("avg", "w", None), "w_count": ("count", "w", None)}
# (filter text, columns it mentions, is it a condition on the raw timestamp)
FILTERS = [("ev.g1 = 'a'", ["g1"], False), ("ev.g1 IN ('a', 'b')", ["g1"], False), ("ev.g2 IS NULL", ["g2"], False), ("ev.v > 3", ["v"], False),
           ("ev.ts >= '2024-02-10'", ["ts"], True), ("ev.ts < '2024-03-01'", ["ts"], True), ("ev.g1 LIKE 'a%'", ["g1"], False), ("ev.g2 <> 'x'", ["g2"], False),
           ("ev.v BETWEEN 1 AND 5", ["v"], False), ("ev.g1 = 'a' OR ev.g2 = 'x'", ["g1", "g2"], False), ("'a' = ev.g1", ["g1"], False),
           ("ev.g2 IS NOT NULL AND ev.g1 <> 'b'", ["g2", "g1"], False), ("ev.w = 1", ["w"], False),
           # the same syntactic forms on the sibling column (names that differ only in a digit: address1 / address2, geo_level1 / geo_level2)
           ("ev.g2 = 'x'", ["g2"], False), ("ev.g2 IN ('x', 'y')", ["g2"], False), ("ev.g1 IS NULL", ["g1"], False), ("ev.g1 <> 'b'", ["g1"], False), ("ev.v = 1", ["v"], False)]
# literals that LOOK like the names the routed query rewrites (the time dimension's name, the model name followed by a dot): data, not references
LITERAL_FILTERS = [("ev.g1 = 'ts'", ["g1"], False), ("ev.g1 IN ('ts', 'a')", ["g1"], False), ("ev.g1 <> 'dev.x'", ["g1"], False), ("ev.g1 = 'ev.ts'", ["g1"], False),
                   ("ev.g1 = 'dev.x' OR ev.g1 = 'ts'", ["g1"], False), ("ev.g1 LIKE 'ev%'", ["g1"], False), ("ev.g1 = 'ev_cte.g1'", ["g1"], False)]
class _FCols(dict):
    def __missing__(self, f):
        import re
        cols = re.findall(r"ev\.(\w+)", f)
        return (cols, "ts" in cols)


FCOLS = _FCols({f: (cols, raw) for f, cols, raw in FILTERS + LITERAL_FILTERS})

PREAMBLE = """From Coq Require Import ZArith String List Bool.
Require Import V.Base.PyLib V.Base.Calendar V.Base.CalendarFacts V.Model.Refresh V.Model.Preagg V.Gen.Derivable_gen V.Gen.GranCompat_gen.
Import ListNotations.
Open Scope string_scope.
Definition B (ts d v : Z) : brow := {| b_ts := ts; b_dim := d; b_v := v |}.
Definition nofn (l : list Z) : Z := 0%Z.
(* per requested group (bucket start at the query granularity, dimension code or -1 for "all"): sum, count, min, max from the rollup *)
Definition routed (p q : gran) (b : list brow) (groups : list (Z * Z)) : list (Z * Z * option Z * option Z) :=
  let r := materialize_p (trunc p) nofn b in
  map (fun '(bk, d) => let sel := fun k : Z * Z => (trunc q (fst k) =? bk)%Z && ((d =? -1)%Z || (snd k =? d)%Z) in
                       (routed_sum sel r, routed_count sel r, routed_min sel r, routed_max sel r)) groups.
Definition facts (aggs : list (string * bool)) (dims_ok filt_ok raw_time : bool) (t : time_use) : bool :=
  exactly_derivable {| rf_aggs := aggs; rf_dims_in_rollup := dims_ok; rf_filters_on_rollup_columns := filt_ok; rf_raw_time_filter := raw_time; rf_time := t |}.
"""


def gen_case(rng):
    rows = []
    nonnull = rng.random() < 0.5
    for i in range(rng.choice([0, 4, 12, 25, 40])):
        t = datetime.datetime(2024, 1, 1) + datetime.timedelta(days=rng.randrange(0, 100), hours=rng.choice([0, 0, 5, 23]))
        v = rng.choice([0, 1, 2, 5, 9, -4]) if nonnull else rng.choice([None, 0, 1, 2, 5, 9])
        rows.append((i + 1, t, rng.choice(["a", "b", "ab", None]), rng.choice(["x", "y", None]), v, rng.choice([0, 1, 3])))
    preaggs = []
    for k in range(rng.choice([1, 1, 2, 3])):
        ms = rng.sample(sorted(MEAS), rng.randint(1, 6))
        dims = rng.sample(["g1", "g2"], rng.randint(0, 2))
        td = rng.random() < 0.8
        preaggs.append(dict(name="r%d" % k, measures=ms, dimensions=dims, time_dimension="ts" if td else None, granularity=rng.choice(["hour", "day", "day", "week", "month"]) if td else None))
    for p in preaggs:
        # a declared build range: whatever the materialisation does with it, a routed answer must still equal the base answer
        if p["time_dimension"] and rng.random() < 0.2:
            if rng.random() < 0.7:
                p["build_range_start"] = "TIMESTAMP '2024-02-%02d 00:00:00'" % rng.randint(1, 20)
            if rng.random() < 0.5:
                p["build_range_end"] = "TIMESTAMP '2024-03-%02d 00:00:00'" % rng.randint(1, 20)
    pool = sorted(set(m for p in preaggs for m in p["measures"])) if rng.random() < 0.85 else sorted(MEAS)
    mets = rng.sample(pool, min(len(pool), rng.randint(1, 3)))
    dims = []
    for d in rng.sample(["g1", "g2", "ts"], rng.randint(0, 3)):
        dims.append(d if d != "ts" else ("ts__" + rng.choice(["day", "week", "month", "quarter", "year"]) if rng.random() < 0.85 else "ts"))
    filters = [f for f, _, _ in rng.sample(FILTERS, rng.choice([0, 0, 1, 1, 2]))]
    return dict(rows=rows, preaggs=preaggs, mets=mets, dims=dims, filters=filters)


def gen_friendly(rng):
    """a query that should be answerable from the rollup: decomposable measures, dimensions within the rollup, compatible granularity"""
    case = gen_case(rng)
    if all(r[4] is not None for r in case["rows"]) is False and rng.random() < 0.6:
        case["rows"] = [(r[0], r[1], r[2], r[3], 0 if r[4] is None else r[4], r[5]) for r in case["rows"]]
    dims = rng.sample(["g1", "g2"], rng.randint(0, 2))
    pg = rng.choice(["hour", "day", "day", "week", "month"])
    ms = rng.sample(["rev", "cntv", "mx", "mn", "cnt", "esum", "avg_v", "count_v"], rng.randint(1, 5))
    case["preaggs"] = [dict(name="r0", measures=ms, dimensions=dims, time_dimension="ts", granularity=pg)] + case["preaggs"][1:]
    if rng.random() < 0.15:
        case["preaggs"][0]["build_range_start"] = "TIMESTAMP '2024-02-%02d 00:00:00'" % rng.randint(1, 20)
    for i, p in enumerate(case["preaggs"]):
        p["name"] = "r%d" % i
    case["mets"] = rng.sample(ms, rng.randint(1, min(3, len(ms))))
    ok_q = [q for q in ["day", "week", "month", "quarter", "year"] if GRANS.index(q) >= GRANS.index(pg) and not (pg == "week" and q in ("month", "quarter", "year"))]
    qd = (["ts__" + rng.choice(ok_q)] if ok_q and rng.random() < 0.8 else [])
    case["dims"] = qd + (dims if rng.random() < 0.6 else rng.sample(dims, rng.randint(0, len(dims))))
    rng.shuffle(case["dims"])
    ok_f = [f for f, cols, raw in FILTERS if not raw and all(c in dims for c in cols)]
    case["filters"] = rng.sample(ok_f, min(len(ok_f), rng.choice([0, 0, 1, 2])))
    return case


SIBLING_FORMS = [("ev.%s = '%s'", False), ("ev.%s IN ('%s', 'zz')", False), ("ev.%s <> '%s'", False), ("ev.%s LIKE '%s%%'", False), ("ev.%s IS NOT NULL", True)]


def gen_sibling_pair(rng):
    """targeted pair, run one after the other in this process: a query the rollup can answer whose filter names a rollup column, then the
    same query with the same FORM of filter on the sibling column (g1 / g2: names that differ only in a digit) the rollup does not hold --
    whatever the first query left behind, the second must not be answered from the rollup unless that is exact"""
    base = gen_friendly(rng)
    inside, outside = rng.choice([("g1", "g2"), ("g2", "g1")])
    pg = rng.choice(["day", "day", "month"])
    ms = rng.sample(["rev", "cntv", "mx", "mn", "cnt"], rng.randint(1, 3))
    pre = [dict(name="r0", measures=ms, dimensions=[inside], time_dimension="ts", granularity=pg)]
    form, nolit = rng.choice(SIBLING_FORMS)
    lit = {"g1": rng.choice(["a", "b"]), "g2": rng.choice(["x", "y"])}
    dims = rng.choice([[], ["ts__month"], [inside]])
    mk = lambda col: dict(rows=base["rows"], preaggs=[dict(p) for p in pre], mets=list(ms[:2]), dims=list(dims), filters=[form % ((col,) if nolit else (col, lit[col]))])
    return [mk(inside), mk(outside)]


def gen_two_grans(rng):
    """targeted family: the time dimension requested at TWO granularities in one query (day next to month, week next to month, ...), in either order, on a rollup
    that can serve one of them, both or neither: the query may only be routed when every requested granularity is derivable"""
    case = gen_friendly(rng)
    pg = rng.choice(["day", "week", "month", "month"])
    ms = rng.sample(["rev", "cntv", "mx", "mn", "cnt"], rng.randint(1, 3))
    case["preaggs"] = [dict(name="r0", measures=ms, dimensions=[], time_dimension="ts", granularity=pg)]
    case["mets"] = list(ms[:2])
    a, b = rng.choice([("day", "month"), ("week", "month"), ("day", "week"), ("month", "year"), ("day", "quarter"), ("week", "year")])
    case["dims"] = ["ts__" + a, "ts__" + b] if rng.random() < 0.5 else ["ts__" + b, "ts__" + a]
    case["filters"] = []
    # rows on both sides of a month / quarter / year boundary that lies INSIDE one ISO week (2024-01-29..02-04, 2024-02-26..03-03, 2024-12-30..2025-01-05)
    base = len(case["rows"])
    for j, (y, m, dd) in enumerate([(2024, 1, 30), (2024, 2, 2), (2024, 2, 27), (2024, 3, 1), (2024, 12, 31), (2025, 1, 2)]):
        case["rows"].append((base + j + 1, datetime.datetime(y, m, dd, 7), ["a", "b"][j % 2], ["x", "y"][j % 2], 1 + j, j % 2))
    return case


def gen_literal_case(rng):
    """targeted family: filter literals equal to the time dimension's name or containing the model name and a dot, on data that holds such values; the rollup has the
    filtered column, so the query is routed -- and must keep comparing with the SAME literal"""
    case = gen_friendly(rng)
    vals = ["ts", "dev.x", "ev.ts", "a", "ev_cte.g1", "ev.", None]
    case["rows"] = [(r[0], r[1], rng.choice(vals), r[3], 0 if r[4] is None else r[4], r[5]) for r in case["rows"]] or [(1, datetime.datetime(2024, 1, 5), "ts", "x", 3, 1), (2, datetime.datetime(2024, 1, 9), "dev.x", "y", 4, 0)]
    ms = rng.sample(["rev", "cntv", "mx", "mn", "cnt"], rng.randint(1, 3))
    case["preaggs"] = [dict(name="r0", measures=ms, dimensions=["g1"] + (["g2"] if rng.random() < 0.3 else []), time_dimension="ts", granularity=rng.choice(["day", "month"]))]
    case["mets"] = list(ms[:2])
    case["dims"] = rng.choice([[], ["g1"], ["ts__month"], ["g1", "ts__month"]])
    case["filters"] = [f for f, _, _ in rng.sample(LITERAL_FILTERS, rng.randint(1, 2))]
    return case


def gen_not_reagg(rng, k):
    """targeted family, enumerated (k): a measure that cannot be re-aggregated from per-bucket values (count_distinct, median, stddev) listed in a time rollup and asked for
    WITHOUT the time dimension, or at a coarser granularity, with all / some / none of the rollup's dimensions: the per-bucket values would have to be combined across buckets"""
    case = gen_friendly(rng)
    bad = ["cd", "med", "sd"][k % 3]
    rdims = [[], ["g1"], ["g1", "g2"], ["g2"]][(k // 3) % 4]
    tdim = [[], ["ts__month"], [], ["ts__year"]][(k // 12) % 4]
    rows = []
    for i in range(24):          # the same g1 / v values recur in several buckets: a distinct count / median over buckets is not the sum / median of the per-bucket ones
        t = datetime.datetime(2024, 1, 1) + datetime.timedelta(days=[0, 0, 1, 9, 9, 33, 34, 70][i % 8], hours=[0, 5][i % 2])
        rows.append((i + 1, t, ["a", "b", "a", "ab"][i % 4], ["x", "y", "x"][i % 3], [1, 2, 5, 9, 2, 1][i % 6], i % 3))
    case["rows"] = rows
    case["preaggs"] = [dict(name="r0", measures=[bad, "rev", "cnt"], dimensions=list(rdims), time_dimension="ts", granularity=["day", "week"][k % 2])]
    case["mets"] = [bad] + (["rev"] if k % 4 == 0 else [])
    case["dims"] = list(rdims) + tdim
    case["filters"] = []
    return case


def gen_second_time(rng):
    """targeted family: a SECOND time dimension (t2) listed among the rollup's plain dimensions and requested at a granularity, alone or next to the rollup's own
    time dimension: answered from the rollup only with t2 truncated to the requested granularity, under the requested column name"""
    case = gen_friendly(rng)
    ms = rng.sample(["rev", "cntv", "mx", "mn", "cnt"], rng.randint(1, 3))
    case["preaggs"] = [dict(name="r0", measures=ms, dimensions=["t2"] + (["g1"] if rng.random() < 0.4 else []), time_dimension="ts", granularity=rng.choice(["day", "day", "hour"]))]
    case["mets"] = list(ms[:2])
    case["dims"] = ["t2__" + rng.choice(["day", "week", "month", "year"])] + rng.choice([[], [], ["ts__month"], ["ts__day"], ["g1"]])
    if "g1" in case["dims"] and "g1" not in case["preaggs"][0]["dimensions"]:
        case["preaggs"][0]["dimensions"].append("g1")
    rng.shuffle(case["dims"])
    case["filters"] = []
    # what the second time dimension DECLARES as its own granularity (what a bare reference is truncated to) varies with the case; a query may be finer than it, or ask
    # for a month of a dimension declared at week
    import zlib
    case["t2_gran"] = ["hour", "day", "week", "month"][zlib.crc32(repr((case["dims"], case["mets"], len(case["rows"]))).encode()) % 4]
    if case["t2_gran"] in ("week", "month") and zlib.crc32(repr(case["mets"]).encode()) % 2:
        case["filters"] = ["ev.t2 >= '2024-02-07 13:00:00'"]          # a literal inside a bucket of the declared granularity
    return case


def gen_candidates(rng):
    """targeted family: SEVERAL rollups that are tried in turn, the earlier ones rejected for one reason (a missing measure, a granularity that is too
    coarse, a missing filter column) and a later one lacking something else the query needs (the time dimension, a dimension): what one candidate
    makes of the query must not leak into the test of the next"""
    case = gen_friendly(rng)
    ms = ["rev", "cnt", "mx"]
    kind = rng.choice(["time_then_notime", "coarse_then_notime", "dims_then_nodims", "notime_then_time", "not_reaggregatable"])
    if kind == "not_reaggregatable":
        # measures that cannot be re-aggregated from per-bucket values (count_distinct, median, stddev) listed in a time rollup, asked for WITHOUT the
        # time dimension (or at a coarser granularity): the per-bucket values would have to be combined across buckets
        bad = rng.choice(["cd", "med", "sd"])
        rdims = rng.sample(["g1", "g2"], rng.randint(0, 2))
        case["preaggs"] = [dict(name="r0", measures=[bad, "rev", "cnt"], dimensions=rdims, time_dimension="ts", granularity=rng.choice(["day", "week"]))]
        case["mets"] = [bad] + rng.sample(["rev", "cnt"], rng.randint(0, 1))
        case["dims"] = list(rdims) + rng.choice([[], [], ["ts__month"], ["ts__year"]])
        case["filters"] = []
        if len(case["rows"]) < 12:
            case["rows"] = gen_case(rng)["rows"] or case["rows"]
        return case
    if kind == "time_then_notime":
        pre = [dict(name="r0", measures=["mn"], dimensions=["g1"], time_dimension="ts", granularity="day"),
               dict(name="r1", measures=ms, dimensions=["g1"], time_dimension=None, granularity=None)]
        dims = ["ts__" + rng.choice(["day", "month"])] + rng.sample(["g1"], rng.randint(0, 1))
    elif kind == "coarse_then_notime":
        pre = [dict(name="r0", measures=ms, dimensions=["g1", "g2"], time_dimension="ts", granularity="month"),
               dict(name="r1", measures=ms, dimensions=["g1", "g2"], time_dimension=None, granularity=None)]
        dims = ["ts__day"] + rng.sample(["g1", "g2"], rng.randint(0, 2))
    elif kind == "dims_then_nodims":
        pre = [dict(name="r0", measures=["mn"], dimensions=["g1", "g2"], time_dimension="ts", granularity="day"),
               dict(name="r1", measures=ms, dimensions=[], time_dimension="ts", granularity="day")]
        dims = ["ts__day", rng.choice(["g1", "g2"])]
    else:
        pre = [dict(name="r0", measures=ms, dimensions=["g1"], time_dimension=None, granularity=None),
               dict(name="r1", measures=ms, dimensions=["g1"], time_dimension="ts", granularity="day")]
        dims = ["ts__" + rng.choice(["day", "week", "month"]), "g1"]
    case["preaggs"] = pre
    case["mets"] = rng.sample(ms, rng.randint(1, 3))
    case["dims"] = dims
    case["filters"] = []
    return case


def build(case):
    from sidemantic import Dimension, Metric, Model, PreAggregation
    L = dbutil.fresh_layer()
    L.conn.execute("create table ev(id bigint, ts timestamp, g1 varchar, g2 varchar, v bigint, w bigint)")
    if case["rows"]:
        L.conn.executemany("insert into ev values (?,?,?,?,?,?)", [tuple(r) for r in case["rows"]])
    pas = [PreAggregation(**p) for p in case["preaggs"]]
    m = Model(name="ev", table="ev", primary_key="id",
              dimensions=[Dimension(name="ts", type="time", sql="ts", granularity="hour"), Dimension(name="g1", type="categorical"), Dimension(name="g2", type="categorical"),
                          Dimension(name="t2", type="time", sql="ts + INTERVAL 11 DAY", granularity=case.get("t2_gran", "hour"))],      # a second time dimension (shipped next to created)
              metrics=[Metric(name=n, agg=a, sql=e, filters=f) for n, (a, e, f) in MEAS.items()], pre_aggregations=pas)
    L.add_model(m)
    mat_err = {}
    for p in pas:
        try:
            L.conn.execute("create table %s as %s" % (p.get_table_name("ev"), p.generate_materialization_sql(m)))     # the layer's own statement
        except Exception as e:
            mat_err[p.name] = str(e)[:160]
    return L, m, mat_err


def real(case):
    """-> dict(routed, used rollup name, base rows, routed rows | None, error | None, routed sql)"""
    L, m, mat_err = build(case)
    kw = dict(metrics=["ev." + x for x in case["mets"]], dimensions=["ev." + d for d in case["dims"]], filters=list(case["filters"]))
    sb = L.compile(use_preaggregations=False, **kw)
    sr = L.compile(use_preaggregations=True, **kw)
    routed = "used_preagg=true" in sr
    used = None
    if routed:
        mm = re.search(r"ev_preagg_(\w+)", sr)
        used = mm.group(1) if mm else None
    rb = dbutil.canon_rows(L.conn.execute(sb).fetchall())
    rr, err = None, None
    if routed:
        try:
            rr = dbutil.canon_rows(L.conn.execute(sr).fetchall())
        except Exception as e:
            err = str(e)[:200]
    return dict(routed=routed, used=used, base=rb, rows=rr, err=err, sql=sr, base_sql=sb, mat_err=mat_err)


def route_facts(case, used):
    """the facts about a routed query the Coq criterion `exactly_derivable` is evaluated on, and the first reason it is not exact"""
    pa = [p for p in case["preaggs"] if p["name"] == used][0]
    aggs = [(MEAS[mn][0], bool(MEAS[mn][2])) for mn in case["mets"]]
    plain = [d for d in case["dims"] if not d.startswith("ts")]
    # (a second time dimension kept as a plain rollup dimension can be truncated to any granularity from its stored values: its name decides)
    dims_ok = all(d.split("__")[0] in pa["dimensions"] for d in plain) and (not any(d.startswith("ts") for d in case["dims"]) or pa["time_dimension"] == "ts")
    cols = [c for f in case["filters"] for c in FCOLS[f][0]]
    filt_ok = all((c in pa["dimensions"]) or (c == "ts" and pa["time_dimension"] == "ts") for c in cols)
    raw_time = any(FCOLS[f][1] for f in case["filters"])
    tdims = [d for d in case["dims"] if d.startswith("ts")]
    if not tdims:
        tuse, tcoq = ("none", None), "NoTime"
    elif tdims[0] == "ts":
        tuse, tcoq = ("bare", None), "TimeBare"
    elif "ts" in tdims:
        tuse, tcoq = ("bare", None), "TimeBare"
    else:
        # EVERY requested granularity of the time dimension must be derivable from the rollup's
        qs = [d.split("__")[1] for d in tdims]
        tuse = ("at", qs[0])
        tcoq = "(TimeAt (%s))" % " && ".join('(match gran_of_s "%s", gran_of_s "%s" with Some a, Some b => nested_b a b | _, _ => false end)' % (q, pa["granularity"]) for q in qs)
    reason = None
    for (a, filt), mn in zip(aggs, case["mets"]):
        if filt:
            reason = reason or "K2"
        elif a in ("median", "stddev", "variance", "count_distinct"):
            reason = reason or "K1"
        elif a == "avg":
            reason = reason or "K3"
        elif a not in ("sum", "count", "min", "max"):
            reason = reason or "K7"
    if tuse[0] == "bare":
        reason = reason or "K4"
    if not filt_ok or not dims_ok:
        reason = reason or "K5"
    if raw_time:
        reason = reason or "K6"
    if case.get("t2_gran", "hour") != "hour" and any("ev.t2" in f for f in case["filters"]):
        reason = reason or "K9"          # a filter on a second time dimension that DECLARES a coarser granularity than its column has
    term = "facts [%s] %s %s %s %s" % ("; ".join('("%s", %s)' % (a, "true" if fl else "false") for a, fl in aggs), "true" if dims_ok else "false",
                                       "true" if filt_ok else "false", "true" if raw_time else "false", tcoq)
    return term, reason, pa


NESTED_DEFS = """
Definition gran_of_s (s : string) : option gran :=
  if String.eqb s "hour" then Some Hour else if String.eqb s "day" then Some Day else if String.eqb s "week" then Some Week
  else if String.eqb s "month" then Some Month else if String.eqb s "quarter" then Some Quarter else if String.eqb s "year" then Some Year else None.
Definition nested_b (q p : gran) : bool :=
  match q, p with
  | Hour, Hour | Day, (Hour|Day) | Week, (Hour|Day|Week) | Month, (Hour|Day|Month)
  | Quarter, (Hour|Day|Month|Quarter) | Year, (Hour|Day|Month|Quarter|Year) => true
  | _, _ => false end.
"""


def model_term(case, res):
    """Gallina term evaluating the routed sum/count/min/max per result group on the model, for cases inside the modelled fragment:
    every value non-NULL, no filters, metrics among rev/cntv/mx/mn, dimensions = the time dimension at some granularity plus
    either all of the rollup's dimensions or none."""
    if not res["routed"] or res["err"] or case["filters"]:
        return None
    pa = [p for p in case["preaggs"] if p["name"] == res["used"]][0]
    if pa["time_dimension"] != "ts" or any(r[4] is None for r in case["rows"]) or not all(m in ("rev", "cntv", "cnt", "mx", "mn") for m in case["mets"]):
        return None
    tdims = [d for d in case["dims"] if d.startswith("ts__")]
    plain = [d for d in case["dims"] if not d.startswith("ts")]
    if len(tdims) != 1 or "ts" in case["dims"] or not (plain == [] or sorted(plain) == sorted(pa["dimensions"])):
        return None
    q = tdims[0].split("__")[1]
    codes = {}

    def code(r):
        k = tuple(r[{"g1": 2, "g2": 3}[d]] for d in pa["dimensions"])
        return codes.setdefault(k, len(codes))
    brows = "; ".join("B (%d) %d (%d)" % (dbutil.canon_val(r[1])[1], code(r), r[4]) for r in case["rows"])
    # result groups in the order of the implementation's rows: (bucket, code or -1)
    groups, order = [], []
    for row in res["rows"]:
        d = dict(zip(case["dims"], row[:len(case["dims"])]))
        bk = d[tdims[0]][1]
        if plain:
            k = tuple((None if d[x] is None else d[x][1]) for x in pa["dimensions"])
            if k not in codes:
                return None
            cd = codes[k]
        else:
            cd = -1
        groups.append("((%d)%%Z, (%d)%%Z)" % (bk, cd))
        order.append(row[len(case["dims"]):])
    return "routed %s %s [%s] [%s]" % (GCOQ[pa["granularity"]], GCOQ[q], brows, "; ".join(groups)), order


def parse_routed(s):
    """'[(7, 2, Some (-2), Some 5); ...]' -> list of (sum, count, min, max)"""
    out = []
    for m in re.finditer(r"\(\s*(-?\d+)\s*,\s*(-?\d+)\s*,\s*(None|Some \(?-?\d+\)?)\s*,\s*(None|Some \(?-?\d+\)?)\s*\)", s.replace("%Z", "")):
        opt = lambda x: None if x == "None" else int(x[5:].strip("()"))
        out.append((int(m.group(1)), int(m.group(2)), opt(m.group(3)), opt(m.group(4))))
    return out


def check_translators(c):
    """Derivable_gen vs the Python method; Model/Preagg.find_count_measure vs _find_count_measure_for_avg"""
    from sidemantic import Metric, Model, PreAggregation
    from sidemantic.core.preagg_matcher import PreAggregationMatcher
    rng = c.rng
    names = ["avg_v", "v_avg", "rev", "cnt", "avg_", "x_avg_y", "avg", "count", "avg_amount", "price_avg", "discount_avg"]
    pools = [[], ["count"], ["count_v"], ["v_count"], ["order_count", "rev"], ["discount_amount"], ["count_orders"], ["xcount"], ["count_amount", "count"], ["x_count_y"],
             ["price_count", "rev"], ["discount_count"], ["recount", "cnt"], ["a_count_"], ["_count"], ["counts"]]
    aggs = [None, "sum", "count", "min", "max", "avg", "count_distinct", "median", "stddev", "variance"]
    cases = []
    for n in names:
        for pool in pools:
            for a in aggs:
                for filt in ([], ["{model}.g1 = 'a'"]):
                    if rng.random() < 0.35:
                        cases.append((n, a, filt, pool + ([n] if rng.random() < 0.8 else [])))
    opt = lambda s: "None" if s is None else '(Some "%s")' % s
    lst = lambda l: "[" + "; ".join('"%s"' % x.replace('"', '""') for x in l) + "]"
    want_d, want_c, terms_d, terms_c = [], [], [], []
    for n, a, filt, pool in cases:
        kw = dict(name=n, sql="v")
        if a:
            kw["agg"] = a
        try:
            metric = Metric(filters=filt or None, **kw) if a else Metric(name=n, sql="rev + 1", filters=filt or None)
        except Exception:
            continue
        pa = PreAggregation(name="r", measures=pool)
        mt = PreAggregationMatcher(Model(name="ev", table="ev", primary_key="id", metrics=[metric]))
        cm = mt._find_count_measure_for_avg(metric, pool)
        want_c.append(cm)
        terms_c.append("find_count_measure \"%s\" %s" % (n, lst(pool)))
        want_d.append(mt._is_measure_derivable(metric, pa))
        terms_d.append("is_measure_derivable \"%s\" %s %s %s %s" % (n, opt(metric.agg), lst(metric.filters or []), lst(pool), opt(cm)))
    outs = lib.coq_eval("c08_tr", PREAMBLE, terms_d + terms_c, chunk=400)
    od, oc = outs[:len(terms_d)], outs[len(terms_d):]
    bad_d = [(terms_d[i], od[i], want_d[i]) for i in range(len(terms_d)) if od[i] != ("true" if want_d[i] else "false")]

    def norm(o):
        o = o.strip()
        return None if o == "None" else sg.unquote(o[5:].strip())
    bad_c = [(terms_c[i], oc[i], want_c[i]) for i in range(len(terms_c)) if norm(oc[i]) != want_c[i]]
    c.obligation("translator: Gen/Derivable_gen.is_measure_derivable == PreAggregationMatcher._is_measure_derivable on %d (name, agg, filters, measures) cases" % len(terms_d),
                 not bad_d, "translator", repr(bad_d[:3]))
    c.obligation("correspondence: Model/Preagg.find_count_measure == _find_count_measure_for_avg on %d cases" % len(terms_c), not bad_c, "correspondence", repr(bad_c[:3]))
    return len(terms_d) + len(terms_c)


def run(c):
    c.trusted += ["translator/gen_derivable.py + py2v_typed.py (fail-closed; validated against the Python method each run); gen_grancompat.py",
                  "modelled, not verified: Model/Preagg.v (materialisation, routed re-aggregation; one coded dimension and integer non-NULL values stand for the rollup's dimension tuple and measure values) "
                  "is hand-written; tied by executing routed queries on both; the routing DECISION is taken from the implementation and audited against `exactly_derivable`",
                  "DuckDB 1.3.2 executes the layer's own materialisation statement and both forms of every query"]
    c.assumptions += ["the rollup table is built by PreAggregation.generate_materialization_sql from the same data", "theorem values are non-NULL integers; NULL measure values are covered by the executed comparison only"]
    from translator import gen_derivable, gen_grancompat, gen_materialize, gen_routed, gen_satisfy, gen_tryroute
    try:
        same = gen_routed.table(lib.REPO) == gen_routed.table(lib.REPO, real=True)
        c.obligation("translator validation: interpreted _generate_from_preaggregation == the real method under CPython on 198 scripted queries", same, "translator")
    except Exception as e:
        c.obligation("translator validation: interpreted _generate_from_preaggregation == the real method", False, "translator", repr(e)[-900:])
    try:
        same = gen_tryroute.table(lib.REPO) == gen_tryroute.table(lib.REPO, real=True)
        c.obligation("translator validation: interpreted _try_use_preaggregation == the real method under CPython on 814 scripted scenarios", same, "translator")
    except Exception as e:
        c.obligation("translator validation: interpreted _try_use_preaggregation == the real method", False, "translator", repr(e)[-900:])
    try:
        same = gen_materialize.table(lib.REPO) == gen_materialize.table(lib.REPO, real=True)
        c.obligation("translator validation: interpreted generate_materialization_sql == the real method under CPython on 240 scripted rollups", same, "translator")
    except Exception as e:
        c.obligation("translator validation: interpreted generate_materialization_sql == the real method", False, "translator", repr(e)[-900:])
    try:
        same = gen_satisfy.table(lib.REPO) == gen_satisfy.table(lib.REPO, real=True)
        c.obligation("translator validation: interpreted can_satisfy_query == the real method under CPython on 1920 scripted scenarios", same, "translator")
    except Exception as e:
        c.obligation("translator validation: interpreted can_satisfy_query == the real method", False, "translator", repr(e)[-900:])
    c.trusted.append("translator/pyinterp.py + gen_satisfy.py (fail-closed definitional interpreter; the matcher's three helper decisions are scripted oracles there; validated against CPython each run)")
    for name, mod in (("Derivable_gen", gen_derivable), ("GranCompat_gen", gen_grancompat), ("Satisfy_gen", gen_satisfy), ("Materialize_gen", gen_materialize), ("TryRoute_gen", gen_tryroute), ("Routed_gen", gen_routed)):
        try:
            lib.write_if_changed("%s/Gen/%s.v" % (lib.COQ, name), mod.generate(lib.REPO))
            c.obligation("translator: %s regenerated" % name, True, "translator")
        except Exception as e:
            c.obligation("translator: %s regenerated" % name, False, "translator", repr(e))
    lib.regen_refrewrite(c)
    c.build_props()
    evals = 0
    model_ok = lib.coq_make(["Model/Preagg.vo", "Gen/Derivable_gen.vo", "Gen/GranCompat_gen.vo"])[0]
    if model_ok:
        try:
            evals += check_translators(c)
        except Exception as e:
            c.obligation("translator validation", False, "translator", repr(e)[-900:])
    n = 260 if c.tier == "quick" else 4000
    cases = corpus_cases() + [(gen_friendly(c.rng) if k % 2 else gen_case(c.rng)) for k in range(n)] + [gen_candidates(c.rng) for _ in range(max(12, n // 10))]
    cases = [x for _ in range(max(8, n // 30)) for x in gen_sibling_pair(c.rng)] + cases
    cases = cases + [gen_two_grans(c.rng) for _ in range(max(16, n // 12))] + [gen_literal_case(c.rng) for _ in range(max(16, n // 12))]
    cases = cases + [gen_not_reagg(c.rng, k) for k in range(24 if c.tier == "quick" else 48)] + [gen_second_time(c.rng) for _ in range(max(12, n // 20))]
    results, terms, tindex = [], [], []
    stats = {"routed": 0, "not_routed": 0, "routed_equal": 0, "model_compared": 0, "exact_routes": 0, "inexact_routes": 0, "materialisation_errors": 0}
    for i, case in enumerate(cases):
        try:
            res = real(case)
        except Exception as e:
            c.violation("compile or base query fails: %s" % str(e)[:150], {"kind": "case", "case": case})
            results.append(None)
            continue
        results.append(res)
        stats["routed" if res["routed"] else "not_routed"] += 1
        stats["materialisation_errors"] += len(res["mat_err"])
        if res["routed"] and res["used"]:
            term, reason, pa = route_facts(case, res["used"])
            res["reason"] = reason
            tindex.append((i, "facts"))
            terms.append(term)
            mt = model_term(case, res)
            if mt:
                res["order"] = mt[1]
                tindex.append((i, "model"))
                terms.append(mt[0])
    outs = None
    if model_ok:
        try:
            outs = lib.coq_eval("c08_cases", PREAMBLE + NESTED_DEFS, terms, chunk=60)
        except RuntimeError as e:
            c.obligation("model evaluation", False, "correspondence", str(e)[-1500:])
    fid_bad = []
    if outs is not None:
        for (i, kind), o in zip(tindex, outs):
            res, case = results[i], cases[i]
            if kind == "facts":
                res["exact"] = (o.strip() == "true")
                stats["exact_routes" if res["exact"] else "inexact_routes"] += 1
            else:
                vals = parse_routed(o)
                stats["model_compared"] += 1
                col = {"rev": 0, "cntv": 1, "cnt": 1, "mn": 2, "mx": 3}
                ok = len(vals) == len(res["order"])
                for mv, iv in zip(vals, res["order"]):
                    for j, mn in enumerate(case["mets"]):
                        a, b = mv[col[mn]], iv[j]
                        b = None if b is None else b[1]
                        if mn == "rev" and mv[1] == 0:
                            a = None                      # SUM over a group whose values are all NULL: not in the modelled fragment (values are non-NULL here)
                        ok = ok and ((a is None and b is None) or (a is not None and b is not None and float(a) == float(b)))
                if not ok:
                    fid_bad.append({"case": case, "model": o[:400], "impl": [list(map(str, r)) for r in res["rows"][:6]]})
        c.obligation("correspondence: Model/Preagg.materialize_p + routed_* == the implementation's routed rows (%d routed queries in the modelled fragment)" % stats["model_compared"],
                     not fid_bad, "correspondence", json.dumps(fid_bad[:1], default=str)[:1800])
    nontrivial = 0
    for i, (case, res) in enumerate(zip(cases, results)):
        if res is None or not res["routed"]:
            continue
        if res["used"] in res["mat_err"]:
            # the layer's own materialisation statement failed for this rollup (e.g. no time dimension and no dimensions: "GROUP BY" with
            # nothing after it), so there is no rollup table "built by the layer's own statement": outside the property's premise
            stats["rollup_not_materialisable"] = stats.get("rollup_not_materialisable", 0) + 1
            continue
        same = res["err"] is None and res["rows"] == res["base"]
        if same:
            stats["routed_equal"] += 1
            nontrivial += len(res["base"]) > 1
            if len(c.samples) < 3 and len(res["base"]) > 2:
                c.samples.append({"metrics": case["mets"], "dimensions": case["dims"], "filters": case["filters"], "rollup": [p for p in case["preaggs"] if p["name"] == res["used"]],
                                  "rows_equal": True, "n_rows": len(res["base"])})
        exact = res.get("exact")
        if same and exact is not False:
            continue
        # an unsound routing decision, or differing rows
        reason = res.get("reason")
        if not same and reason is None and empty_count(case, res):
            reason = "K8"
        fid = "C08-%s" % reason if reason else None
        if fid and c.is_open(fid):
            if not same:
                c.known(fid)
            continue                        # a listed class; equal rows on this data need no report
        if same:
            # routed although not exactly derivable and the class is not a listed finding: report with a data search
            bad = search_data(case)
            if bad is not None:
                c.violation("query routed to a rollup it cannot be derived from exactly (%s); rows differ on searched data" % (reason or "?"),
                            {"kind": "case", "case": bad, "class": reason})
            else:
                c.violation("query routed to a rollup it cannot be derived from exactly (%s)" % (reason or "?"), {"kind": "case", "case": case, "class": reason}, found_input=False)
            continue
        c.violation("routed query %s" % ("fails: " + res["err"][:120] if res["err"] else "returns different rows than the base table") + (" [class %s]" % reason if reason else ""),
                    {"kind": "case", "case": case, "class": reason, "routed_sql": res["sql"][:900], "routed_rows": [list(map(str, r)) for r in (res["rows"] or [])[:8]],
                     "base_rows": [list(map(str, r)) for r in res["base"][:8]]})
    # granularity pairs the CODE admits although the coarser buckets are not unions of the finer ones: show the failing rows
    # (this is also the search for a failing input when the regenerated granularity function no longer translates or proves)
    from harness.props import c09
    NESTED = {("hour", "hour"), ("day", "hour"), ("day", "day"), ("week", "hour"), ("week", "day"), ("week", "week"), ("month", "hour"), ("month", "day"), ("month", "month"),
              ("quarter", "hour"), ("quarter", "day"), ("quarter", "month"), ("quarter", "quarter"), ("year", "hour"), ("year", "day"), ("year", "month"), ("year", "quarter"), ("year", "year")}
    for q in GRANS:
        for pgran in GRANS:
            if c09.py_compatible(q, pgran) and (q, pgran) not in NESTED:
                rows = c09.e2e_rows(c.rng)
                routed, rr, rb, sql_r = c09.e2e_pair(q, pgran, rows)
                if routed and rr != rb:
                    c.violation("a %s query is routed to a %s rollup although %s buckets are not unions of %s buckets; rows differ" % (q, pgran, q, pgran),
                                {"kind": "gran", "q": q, "p": pgran, "rows": rows, "routed_sql": sql_r[:800], "differing": [x for x in rr if x not in rb][:4]})
                else:
                    c.violation("_is_granularity_compatible(%r, %r) admits a pair that is not calendar-nested" % (q, pgran), {"kind": "gran", "q": q, "p": pgran}, found_input=False)
    stats["fill_routed"] = fill_family(c)
    c.obligation("oracle: routed rows == base rows and every routing decision exactly derivable (%d routed of %d queries)" % (stats["routed"], len(cases)), not c.violations, "correspondence")
    evals += len(cases) + stats["fill_routed"]
    c.coverage.update({"evaluations": evals, "distinct_nontrivial": nontrivial,
                       "rule": "single model with 1-3 random rollups (1-6 of 14 measures: sum/count/count(col)/min/max/avg/count_distinct/median/stddev/filtered/expression; 0-2 dimensions; time dimension at hour..month or none) "
                               "x tables of 0-40 rows with multi-row buckets, NULLs x queries (1-3 metrics, 0-3 dimensions incl. the time dimension at day..year or bare, 0-2 filters of 13 syntactic forms on rollup and "
                               "non-rollup columns and on the raw timestamp); non-trivial = routed, equal, more than one row",
                       "traces_validated_against_impl": stats["routed"], "distribution": stats, "exhaustive": False})


def fill_family(c):
    """measures that declare fill_nulls_with, stored in a rollup finer than the query, with buckets in which the measure is entirely NULL: whatever the rollup stores
    for such a bucket, the coarser routed answer must equal the base answer (a default stored per bucket would enter MIN / MAX / SUM of the merged buckets)"""
    import random
    from sidemantic import Dimension, Metric, Model, PreAggregation
    rng = random.Random(c.seed * 29 + 8)          # a stream of its own
    n = 0
    for k in range(6 if c.tier == "quick" else 60):
        L = dbutil.fresh_layer()
        L.conn.execute("create table ev(id bigint, ts timestamp, g1 varchar, v bigint)")
        rows, i = [], 0
        for day in rng.sample(range(1, 28), rng.choice([4, 6, 8])):
            null_bucket = rng.random() < 0.4
            for _ in range(rng.choice([1, 2, 3])):
                i += 1
                rows.append((i, datetime.datetime(2024, rng.choice([1, 1, 2]), day, rng.choice([0, 9, 23])), rng.choice(["a", "b"]), None if null_bucket else rng.choice([25, 40, 65, -5, 3])))
        L.conn.executemany("insert into ev values (?,?,?,?)", rows)
        fills = {"mn_f": ("min", rng.choice([0, 7])), "mx_f": ("max", rng.choice([0, 1000])), "rev_f": ("sum", rng.choice([0, 7])), "cnt_f": ("count", 0)}
        pa = PreAggregation(name="r", measures=sorted(fills), dimensions=["g1"], time_dimension="ts", granularity="day")
        m = Model(name="ev", table="ev", primary_key="id", dimensions=[Dimension(name="ts", type="time", sql="ts", granularity="hour"), Dimension(name="g1", type="categorical")],
                  metrics=[Metric(name=nm, agg=a, sql=(None if a == "count" else "v"), fill_nulls_with=f) for nm, (a, f) in fills.items()], pre_aggregations=[pa])
        L.add_model(m)
        L.conn.execute("create table %s as %s" % (pa.get_table_name("ev"), pa.generate_materialization_sql(m)))
        for dims in (["ev.ts__month"], ["ev.g1"], ["ev.ts__day", "ev.g1"], [], ["ev.ts__year", "ev.g1"]):
            for mets in (["ev.mn_f"], ["ev.mx_f", "ev.rev_f"], ["ev.cnt_f", "ev.mn_f"]):
                kw = dict(metrics=mets, dimensions=dims)
                sr = L.compile(use_preaggregations=True, **kw)
                if "used_preagg=true" not in sr:
                    continue
                n += 1
                try:
                    rr = dbutil.canon_rows(L.conn.execute(sr).fetchall())
                except Exception as e:
                    rr = "error: %s" % str(e)[:150]
                rb = dbutil.canon_rows(L.conn.execute(L.compile(use_preaggregations=False, **kw)).fetchall())
                if rr != rb:
                    c.violation("a query over measures with fill_nulls_with is routed to a rollup and returns other rows than the base table",
                                {"kind": "fill", "rows": [[r[0], str(r[1]), r[2], r[3]] for r in rows], "fills": {k_: list(v_) for k_, v_ in fills.items()}, "dims": dims, "metrics": mets,
                                 "routed_rows": str(rr)[:400], "base_rows": str(rb)[:400], "routed_sql": sr[-700:]})
    return n


def empty_count(case, res):
    """K8: no dimensions, a count metric, and no rollup row passes: the base query says 0, SUM over nothing says NULL"""
    return (not case["dims"] and res["err"] is None and len(res["base"]) == 1 and len(res["rows"] or []) == 1
            and all(((a is None and b == ("n", 0.0)) or a == b) for a, b in zip(res["rows"][0], res["base"][0])) and res["rows"] != res["base"])


def search_data(case, tries=40):
    """look for table contents on which the (unsound) routing of this query shows"""
    import random
    rng = random.Random(7)
    for _ in range(tries):
        c2 = dict(case, rows=gen_case(rng)["rows"])
        try:
            r = real(c2)
        except Exception:
            continue
        if r["routed"] and (r["err"] or r["rows"] != r["base"]):
            return c2
    return None


def corpus_cases():
    T = lambda d, h=0: datetime.datetime(2024, 1, 1) + datetime.timedelta(days=d, hours=h)
    rows = [(1, T(0), "a", "x", 1, 1), (2, T(0, 5), "a", "x", 2, 1), (3, T(0, 7), "b", "y", 9, 0), (4, T(1), "a", None, 4, 3), (5, T(40), "b", "x", 5, 1), (6, T(41), None, "y", None, 0)]
    day = lambda ms, dims=("g1",): [dict(name="r0", measures=list(ms), dimensions=list(dims), time_dimension="ts", granularity="day")]
    return [
        dict(rows=rows, preaggs=day(["med"]), mets=["med"], dims=["ts__month"], filters=[]),                      # K1 median re-aggregated with SUM
        dict(rows=rows, preaggs=day(["frev"]), mets=["frev"], dims=["g1"], filters=[]),                          # K2 filtered measure
        dict(rows=rows, preaggs=day(["avg_v", "count_v"]), mets=["avg_v"], dims=["ts__month"], filters=[]),       # K3 avg stored as AVG, summed
        dict(rows=rows, preaggs=day(["rev"]), mets=["rev"], dims=["ts"], filters=[]),                             # K4 bare time dimension
        dict(rows=rows, preaggs=day(["rev"], ()), mets=["rev"], dims=[], filters=["ev.g1 IN ('a', 'b')"]),       # K5 filter column the regex does not see
        dict(rows=rows, preaggs=[dict(name="r0", measures=["rev"], dimensions=[], time_dimension="ts", granularity="month")], mets=["rev"], dims=[], filters=["ev.ts >= '2024-02-10'"]),   # K6
        dict(rows=[], preaggs=day(["cnt"]), mets=["cnt"], dims=[], filters=[]),                                   # K8 count over an empty rollup
        dict(rows=rows, preaggs=day(["rev", "cntv", "mn", "mx"]), mets=["rev", "cntv", "mn", "mx"], dims=["ts__month", "g1"], filters=[]),   # the sound case
    ]


def replay(path):
    body = json.load(open(path))
    if body["replay"].get("kind") == "gran":
        from harness.props import c09
        r = body["replay"]
        routed, rr, rb, sql = c09.e2e_pair(r["q"], r["p"], [tuple(x) for x in r.get("rows", [])] or c09.e2e_rows(__import__("random").Random(1)))
        print(sql)
        return 1 if routed and rr != rb else 0
    case = body["replay"]["case"]
    case["rows"] = [(r[0], datetime.datetime.fromisoformat(r[1]) if isinstance(r[1], str) else r[1], r[2], r[3], r[4], r[5]) for r in case["rows"]]
    res = real(case)
    print(res["sql"])
    print("routed:", res["routed"], "error:", res["err"])
    print("routed rows:", res["rows"])
    print("base rows:  ", res["base"])
    return 1 if res["routed"] and (res["err"] or res["rows"] != res["base"]) else 0
