"""C16 — parameter values cannot alter query structure.

Proof:  Props/C16.v over Gen/Params_gen.v (Parameter.format_value translated from parameter.py on every run).
Ties:   (a) the translated function evaluated inside Coq (vm_compute, concrete oracles) == Parameter.format_value on a
            value corpus x every parameter type (exact text or exception);
        (b) hand-written lexer vs sqlglot's tokenizer and DuckDB: each formatted value is tokenised / executed;
        (c) end to end: compile(filters=[template], parameters={p: v}) parsed by sqlglot, tree compared (up to literals)
            with the tree for a benign value.
Property oracle (independent of the model): (b) and (c) on the implementation's own output.
"""
import json
import math
import os
import warnings

from harness import dbutil, lib
from translator import gen_params

warnings.filterwarnings("ignore")
TYPES = ["string", "date", "number", "unquoted", "yesno"]
BENIGN = {"string": "abc", "date": "2024-01-15", "number": 7, "unquoted": "status", "yesno": True}

STRINGS = ["", "abc", "it's", "''", "'", "a''b", "x' OR '1'='1", "x' OR '1'='1' --", "2024-02-01' OR '1'='1", "a;b", "a; DROP TABLE orders; --", "/* c */", "-- c",
           "line1\nline2", "tab\there", "back\\slash", "back\\' OR 1=1 --", "{{ p }}", "{{ p_number }}", "over {{ p_yesno }} x", "{{p_date}}", "{{ p_string }}", "{{ p_unquoted }}", "{% if x %}", "{# c #}", "SELECT", "NULL", "true", "today", "yesterday",
           "last 7 days", "this month", "nan", "NaN", "inf", "-inf", "Infinity", "1e309", "1.5", "-2", "1e5", "0x10", "1_000", " 12 ", "12abc", "a.b", "a_b1", "a-b", "a b",
           "status", "orders.status", "1=1", "\"q\"", "%", "_", ".", "__", "9" * 40, "z" * 300 + "'", "\u00e9t\u00e9", "\u4e2d\u6587'", "\U0001F600",
           # values that name ANOTHER registered model (a joinable one): nothing in a value may pull a model into the query
           "ZZ TOP", "Zz Top", "zz  top", " zz top", "zz top",
           # date-like values with a time of day / an offset / other separators: data, to arrive unchanged (or be refused)
           "2024-01-15 12:00:00", "2024-01-15T23:59:59", "2024-01-15 00:00:00+02:00", "2024-1-5", "20240115", "2024-01-15 ",
           # values that BEGIN like a number and go on as SQL (a check that only looks at the start of the text lets them through)
           "1000 OR 1=1", "100 -- x", "7 UNION SELECT 1", "100", "1e3 OR TRUE", "5) OR (1=1", "-3.5 OR amount IS NOT NULL",
           "customers.region", "\\' customers.id", "x\\' OR customers.id = 1 --", "' customers.region = '", "a\\\\' customers.id", "customers.id = orders.customer_id"]


def corpus(rng, n_extra):
    vals = [("str", s) for s in STRINGS]
    vals += [("int", i) for i in (0, 1, -1, 7, 10 ** 12, -10 ** 18, 2 ** 70)]
    vals += [("float", f) for f in (0.0, -0.0, 1.5, -2.25, 1e-7, 1e22, 1e300, 123456789.125, float("nan"), float("inf"), float("-inf"))]
    vals += [("bool", True), ("bool", False), ("none", None)]
    alphabet = "ab'\\;-/*\n {}%#.1_\"e"
    for _ in range(n_extra):
        k = rng.randint(1, 12)
        vals.append(("str", "".join(rng.choice(alphabet) for _ in range(k))))
    return vals


def object_values():
    """values of other standard-library types a caller can supply (implementation-side oracle only: the model's universe is None/bool/int/float/str)"""
    import datetime
    from decimal import Decimal
    from fractions import Fraction
    return [("obj", v) for v in (Fraction(1, 3), Fraction(7, 1), Decimal("1.5"), Decimal("-0E-7"), Decimal("NaN"), Decimal("Infinity"), Decimal("sNaN"), complex(1, 2), complex(0, 0),
                                 [1, 2], (1,), {"a": 1}, {1, }, b"x' OR 1=1 --", bytearray(b"ab"), datetime.date(2024, 1, 15), datetime.datetime(2024, 1, 15, 10, 30), datetime.timedelta(days=2), range(3), ..., 1j)]


# ------------------------------------------------------------------ model side
def coq_val(kind, v):
    if kind == "none":
        return "PNone"
    if kind == "bool":
        return "(PBool %s)" % ("true" if v else "false")
    if kind == "int":
        return "(PInt (%d)%%Z)" % v
    if kind == "float":
        if math.isnan(v):
            return "(PFloat FNan)"
        if math.isinf(v):
            return "(PFloat FPosInf)" if v > 0 else "(PFloat FNegInf)"
        return "(PFloat (FFinite %s))" % lib.coq_string(repr(v))
    return "(PStr %s)" % lib.coq_string(v)


def coq_float_opt(s):
    try:
        f = float(s)
    except (ValueError, TypeError):
        return "None"
    if math.isnan(f):
        return "Some FNan"
    if math.isinf(f):
        return "Some FPosInf" if f > 0 else "Some FNegInf"
    return "Some (FFinite %s)" % lib.coq_string(repr(f))


PREAMBLE = """From Coq Require Import ZArith String Ascii List Bool DecimalString.
Require Import V.Base.PyVal V.Gen.Params_gen.
Import ListNotations.
Open Scope string_scope.
Definition z_repr (z : Z) : string := NilZero.string_of_int (Z.to_int z).
Definition isalnum_char (c : ascii) : bool := let n := nat_of_ascii c in
  (Nat.leb 48 n && Nat.leb n 57) || (Nat.leb 65 n && Nat.leb n 90) || (Nat.leb 97 n && Nat.leb n 122).
Fixpoint fp_lookup (l : list (string * option pyfloat)) (s : string) : option pyfloat :=
  match l with [] => None | (k, v) :: r => if String.eqb k s then v else fp_lookup r s end.
Definition FP : list (string * option pyfloat) := [%s].
Definition show (r : res) : string := match r with Ret (PStr t) => "R" ++ t | Ret _ => "?" | Raise => "X" end.
Definition run (ty : string) (d v : pyval) : string := show (format_value z_repr (fp_lookup FP) isalnum_char (PStr ty) d v).
"""


def decode_coq_string(s):
    """inverse of Coq's printing of a string value: "..." with doubled quotes; non-printable bytes appear as raw bytes or \\ddd? -> we avoid them by comparing hex"""
    return s


def model_results(cases):
    """cases: list of (type, (kind, value)) -> list of 'R<text>' / 'X' as produced by the translated function inside Coq.
    To avoid parsing Coq's string printer, the comparison is done INSIDE Coq: each term is `String.eqb (run ...) expected`."""
    raise NotImplementedError


def impl_format(ty, kind, v, default=None):
    from sidemantic.core.parameter import Parameter
    p = Parameter(name="p", type=ty, default_value=default)
    try:
        return "R" + p.format_value(v)
    except (ValueError, TypeError):
        return "X"


def ascii_only(s):
    return all(ord(ch) < 128 for ch in s)


# ------------------------------------------------------------------ property oracle on the implementation
def literal_check(ty, kind, v, text):
    """Is `text` exactly one literal of the parameter's type, carrying the value?  Uses sqlglot's tokenizer and DuckDB."""
    import duckdb
    import sqlglot
    from sqlglot.tokens import TokenType
    try:
        toks = sqlglot.tokenize("x = " + text, read="duckdb")
    except Exception as e:
        return "tokenizer error: %s" % type(e).__name__
    tts = [t.token_type for t in toks[2:]]
    if ty in ("string", "date"):
        if tts != [TokenType.STRING]:
            return "not a single string literal: %s" % [str(t) for t in tts][:6]
        want = "None" if v is None else str(v)
        try:
            got = duckdb.connect().execute("select " + text).fetchone()[0]
        except Exception as e:
            return "duckdb rejects the literal: %s" % type(e).__name__
        if got != want:
            return "literal does not round-trip as data: %r != %r" % (got, want)
        return None
    if ty == "number":
        if kind == "bool":
            return None if text in ("True", "False") else "bool printed as %r" % text
        if tts in ([TokenType.NUMBER], [TokenType.DASH, TokenType.NUMBER]):
            return None
        return "not a numeric literal: %r" % text
    if ty == "unquoted":
        import re
        return None if re.fullmatch(r"[\w.]+", text) and text.replace("_", "").replace(".", "") != "" else "not an identifier path: %r" % text
    if ty == "yesno":
        return None if text in ("TRUE", "FALSE") else "not a boolean literal: %r" % text
    return "unknown type"


def make_layer():
    from sidemantic import Dimension, Metric, Model
    from sidemantic.core.parameter import Parameter
    layer = dbutil.fresh_layer()
    layer.conn.execute("create table orders(id bigint, status varchar, amount double, created date, flag boolean, customer_id bigint)")
    layer.conn.execute("create table customers(id bigint, region varchar)")
    from sidemantic import Relationship
    layer.add_model(Model(name="customers", table="customers", primary_key="id", dimensions=[Dimension(name="region", type="categorical")], metrics=[Metric(name="cn", agg="count")]))
    layer.add_model(Model(name="orders", table="orders", primary_key="id", relationships=[Relationship(name="customers", type="many_to_one", foreign_key="customer_id")],
                          dimensions=[Dimension(name="status", type="categorical"), Dimension(name="created", type="time", granularity="day"),
                                      Dimension(name="flag", type="boolean"), Dimension(name="amount", type="numeric")],
                          metrics=[Metric(name="n", agg="count"), Metric(name="total", agg="sum", sql="amount")]))
    for ty in TYPES:
        layer.graph.add_parameter(Parameter(name="p_" + ty, type=ty, default_value=BENIGN[ty]))
    return layer


TEMPLATES = {
    "string": ["orders.status = {{ p_string }}", "orders.status <> {{p_string}} AND orders.amount > 1", "orders.status IN ({{ p_string }}, 'k')",
               # the same column and operator twice, once with a fixed literal: a value that differs from it only in case / spacing is still a second condition
               "orders.status <> 'zz top' AND orders.status <> {{ p_string }}",
               # a text parameter compared with a NUMERIC dimension, on either side of the operator: still one string literal
               "orders.amount >= {{ p_string }}", "{{ p_string }} < orders.amount AND orders.status = 'a'"],
    "date": ["orders.created >= {{ p_date }}", "orders.created = {{ p_date }}", "orders.created BETWEEN {{ p_date }} AND '2030-01-01'", "orders.amount <> {{ p_date }}"],
    "number": ["orders.amount > {{ p_number }}", "orders.amount = {{ p_number }} AND orders.status = 'a'"],
    "unquoted": ["orders.{{ p_unquoted }} = 'a'"],
    "yesno": ["orders.flag = {{ p_yesno }}"],
}


def tree_shape(sql):
    import sqlglot
    from sqlglot import exp
    tree = sqlglot.parse_one(sql, read="duckdb")
    n_lit = 0
    for node in list(tree.walk()):
        node = node[0] if isinstance(node, tuple) else node
        if isinstance(node, exp.Neg) and isinstance(node.this, exp.Literal):
            node.replace(exp.Literal.number(0))
    for node in list(tree.walk()):
        node = node[0] if isinstance(node, tuple) else node
        if isinstance(node, (exp.Literal, exp.Boolean)):
            n_lit += 1
            node.replace(exp.Literal.string("?"))
    for node in list(tree.find_all(exp.Column)):
        if node.find_ancestor(exp.Where):
            node.replace(exp.column("c"))
    return tree.sql(dialect="duckdb"), n_lit


def where_strings(sql):
    """decoded contents of the string literals under WHERE (None when the SQL does not parse)"""
    import sqlglot
    from sqlglot import exp
    try:
        tree = sqlglot.parse_one(sql, read="duckdb")
    except Exception:
        return None
    out = set()
    for w in tree.find_all(exp.Where):
        for lit in w.find_all(exp.Literal):
            if lit.is_string:
                out.add(lit.this)
    return out


def two_parameter_cases(c):
    """values that name ANOTHER declared parameter: substitution must be single-pass (the inserted text is never re-scanned)"""
    layer = make_layer()
    kw = dict(metrics=["orders.n"], dimensions=["orders.status"])
    n = 0
    for tpl, params, must in [
        ("orders.status = {{ p_string }}", {"p_string": "{{ p_date }}", "p_date": " OR 1=1 OR orders.status = "}, "{{ p_date }}"),
        ("orders.status = {{ p_string }} AND orders.created >= {{ p_date }}", {"p_string": "{{ p_date }}", "p_date": "2024-01-01"}, "{{ p_date }}"),
        ("orders.created >= {{ p_date }} AND orders.status = {{ p_string }}", {"p_date": "{{ p_string }}", "p_string": "zzz"}, "{{ p_string }}"),
        ("orders.status = {{ p_string }}", {"p_string": "{{ p_number }}", "p_number": 5}, "{{ p_number }}"),
        ("orders.status = {{ p_string }}", {"p_string": "{{ p_yesno }} {{ p_unquoted }}", "p_unquoted": "amount"}, "{{ p_yesno }} {{ p_unquoted }}"),
    ]:
        n += 1
        benign = tree_shape(layer.compile(filters=[tpl], parameters={k: BENIGN[k[2:]] for k in params}, **kw))
        try:
            sql = layer.compile(filters=[tpl], parameters=params, **kw)
        except Exception:
            continue
        ws = where_strings(sql)
        try:
            shape = tree_shape(sql)
        except Exception:
            shape = None
        if shape != benign or ws is None or must not in ws:
            c.violation("a parameter value that names another parameter is substituted again (template %r)" % tpl,
                        {"kind": "e2e2", "template": tpl, "parameters": {k: repr(v) for k, v in params.items()}, "sql": sql[-600:]})
    return n


def is_relative(v):
    from sidemantic.core.relative_date import RelativeDateRange
    try:
        return isinstance(v, str) and bool(RelativeDateRange.is_relative_date(v))
    except Exception:
        return False


def not_identifier_path(text):
    import re
    return any(seg == "" or re.match(r"\d", seg) or seg.lower() in ("null", "true", "false") for seg in text.split("."))


def e2e(c, vals):
    layer = make_layer()
    n, shapes_ok = 0, 0
    for ty in TYPES:
        for tpl in TEMPLATES[ty]:
            kw = dict(metrics=["orders.n"], dimensions=["orders.status"], filters=[tpl])
            benign_sql = layer.compile(parameters={"p_" + ty: BENIGN[ty]}, **kw)
            benign_shape = tree_shape(benign_sql)
            for kind, v in vals:
                if kind == "none":
                    continue
                n += 1
                try:
                    sql = layer.compile(parameters={"p_" + ty: v}, **kw)
                except Exception:
                    continue                     # rejected with an error: allowed
                try:
                    shape = tree_shape(sql)
                except Exception as e:
                    shape = ("<unparseable: %s>" % type(e).__name__, -1)
                if shape == benign_shape:
                    # same structure: for string / date parameters the literal must also carry the value unchanged
                    if ty in ("string", "date") and kind == "str" and not is_relative(v) and where_strings(sql) is not None and v not in where_strings(sql):
                        c.violation("a %s parameter value does not arrive unchanged in its literal (template %r)" % (ty, tpl),
                                    {"kind": "e2e", "type": ty, "template": tpl, "value_kind": kind, "value": repr(v), "sql": sql[-600:], "benign_sql": benign_sql[-600:]})
                        continue
                    shapes_ok += 1
                    continue
                # classify
                if ty in ("string", "date") and is_relative(v if isinstance(v, str) else None) and c.is_open("C16-K1"):
                    c.known("C16-K1")
                    continue
                if ty == "unquoted" and not_identifier_path(str(v)) and c.is_open("C16-K4"):
                    c.known("C16-K4")
                    continue
                if ty == "unquoted" and str(v).split(".")[0] in layer.graph.models and str(v).split(".")[0] != "orders" and "." in str(v) and c.is_open("C16-K5"):
                    c.known("C16-K5")
                    continue
                c.violation("parameter value changes the structure of the generated SQL (type %s, template %r)" % (ty, tpl),
                            {"kind": "e2e", "type": ty, "template": tpl, "value_kind": kind, "value": repr(v), "sql": sql[-600:], "benign_sql": benign_sql[-600:]})
    return n, shapes_ok


def known_witnesses(c):
    """replay the witnesses of the listed open findings on the implementation"""
    layer = make_layer()
    kw = dict(metrics=["orders.n"], dimensions=["orders.status"])
    if c.is_open("C16-K1"):
        b = tree_shape(layer.compile(filters=["orders.status = {{ p_string }}"], parameters={"p_string": "abc"}, **kw))
        s = tree_shape(layer.compile(filters=["orders.status = {{ p_string }}"], parameters={"p_string": "today"}, **kw))
        if b != s:
            c.known("C16-K1")
    if c.is_open("C16-K2"):
        tpl = "{% if 1 %}orders.status = '{{ p_string }}'{% endif %}"
        try:
            b = tree_shape(layer.compile(filters=[tpl], parameters={"p_string": "abc"}, **kw))
            s = tree_shape(layer.compile(filters=[tpl], parameters={"p_string": "x' OR '1'='1"}, **kw))
            if b != s:
                c.known("C16-K2")
        except Exception:
            c.known("C16-K2")
    if c.is_open("C16-K3"):
        import sqlglot
        txt = impl_format("string", "str", "back\\' OR 1=1 --")[1:]
        try:
            toks = sqlglot.tokenize("x = " + txt, read="bigquery")
            if len(toks) != 3:
                c.known("C16-K3")
        except Exception:
            c.known("C16-K3")


def run(c):
    c.trusted += ["translator/gen_params.py (fail-closed; output evaluated inside Coq and compared with Parameter.format_value on the corpus each run)",
                  "oracles as Section variables: z_repr (Python str(int)), float_parse (Python float(str)), isalnum_char (str.isalnum per ASCII character); "
                  "C16_number assumes their results are numeric literals (premises of the theorem)",
                  "sqlglot 27.12 tokenizer/parser and DuckDB 1.3.2 as oracles for 'one literal' and 'round-trips as data' on the implementation's output",
                  "modelled, not verified: Model/SqlLex.v (string-literal lexer, numeric_literal) is hand-written; Model/Interp.v (one-pass placeholder substitution) is tied to "
                  "ParameterSet.interpolate by the regenerated behaviour table (translator/pyinterp.py + gen_interp.py, scripted re / template modules); the Jinja switch and the "
                  "relative-date pass are exercised end to end only"]
    c.assumptions += ["the MODEL's values are None/bool/int/float/str; values of other standard-library types (Fraction, Decimal, complex, containers, bytes, dates) are checked on the implementation only; objects whose own __str__/__bool__ is adversarial code are outside the universe", "non-ASCII values are outside the model's isalnum oracle (unquoted type); they are still checked on the implementation"]
    gen_ok = True
    try:
        lib.write_if_changed(os.path.join(lib.COQ, "Gen", "Params_gen.v"), gen_params.generate(lib.REPO))
        c.obligation("translator:Params_gen", True, "translator")
    except Exception as e:
        gen_ok = False
        c.obligation("translator:Params_gen", False, "translator", "translation failed: %r" % (e,))
    try:
        from translator import gen_interp
        lib.write_if_changed(os.path.join(lib.COQ, "Gen", "Interp_gen.v"), gen_interp.generate(lib.REPO))
        c.obligation("translator: behaviour table of ParameterSet.interpolate / format / get (40 scripted templates x values) regenerated", True, "translator")
        same = gen_interp.rows(lib.REPO) == gen_interp.real_rows(lib.REPO)
        c.obligation("translator validation: interpreted interpolate == the real method under CPython on the same scenarios", same, "translator")
    except Exception as e:
        c.obligation("translator: behaviour table of ParameterSet.interpolate regenerated", False, "translator", repr(e)[-900:])
    if gen_ok:
        c.build_props()
    vals = corpus(c.rng, 150 if c.tier == "quick" else 3000)
    # (a) translated function inside Coq == implementation
    evals = 0
    gen_built = gen_ok and lib.coq_make(["Gen/Params_gen.vo"])[0]
    if gen_built:
        strs = sorted({v for k, v in vals if k == "str" and ascii_only(v)})
        fp = "; ".join("(%s, %s)" % (lib.coq_string(s), coq_float_opt(s)) for s in strs)
        terms, meta = [], []
        for ty in TYPES:
            for kind, v in vals:
                if kind == "str" and not ascii_only(v):
                    continue
                for dflt in ((None, "none"), ("dv", "str")) if kind == "none" else ((None, "none"),):
                    d = "PNone" if dflt[0] is None else "(PStr \"dv\")"
                    exp_s = impl_format(ty, kind, v, default=dflt[0])
                    terms.append("String.eqb (run %s %s %s) %s" % (lib.coq_string(ty), d, coq_val(kind, v), lib.coq_string(exp_s)))
                    meta.append((ty, kind, repr(v), exp_s))
        try:
            res = lib.coq_eval("c16_fv", PREAMBLE % fp, terms)
            bad = [meta[i] for i in range(len(terms)) if res[i] != "true"]
            c.obligation("translator_validation: Gen.format_value == Parameter.format_value on %d (type, value) cases" % len(terms), not bad, "correspondence", repr(bad[:6]))
            evals += len(terms)
            c.samples.append({"type": meta[7][0], "value": meta[7][2], "impl_and_model_result": meta[7][3]})
        except RuntimeError as e:
            c.obligation("translator_validation", False, "correspondence", str(e)[-1500:])
    # (b) property oracle on the implementation's formatted values
    n_lit, raised = 0, 0
    for ty in TYPES:
        for kind, v in vals + object_values():
            r = impl_format(ty, kind, v)
            n_lit += 1
            if r == "X":
                raised += 1
                continue
            if kind == "none":
                continue
            prob = literal_check(ty, kind, v, r[1:])
            if prob:
                c.violation("format_value(%s) of %r is not one literal of its type: %s" % (ty, v, prob), {"kind": "format", "type": ty, "value_kind": kind, "value": repr(v), "text": r[1:]})
    c.obligation("oracle: every accepted formatted value is one literal of its type (sqlglot tokens, DuckDB round trip) on %d cases" % n_lit, not c.violations, "correspondence")
    evals += n_lit
    # (c) end to end through compile()
    n_e2e, ok_e2e = e2e(c, vals if c.tier == "thorough" else vals[:len(STRINGS) + 25])
    n_e2e += two_parameter_cases(c)
    c.obligation("e2e: compile() tree identical up to literals for %d (template, value) pairs" % n_e2e, not c.violations, "correspondence")
    evals += n_e2e
    known_witnesses(c)
    c.samples.append({"template": TEMPLATES["string"][0], "value": "x' OR '1'='1", "formatted": impl_format("string", "str", "x' OR '1'='1")[1:]})
    c.coverage.update({"evaluations": evals, "distinct_nontrivial": len({(k, repr(v)) for k, v in vals if k != "str" or any(ch in v for ch in "'\\;-{%\n")}) * len(TYPES),
                       "rule": "fixed adversarial corpus (quotes, doubled quotes, backslashes, comment markers, semicolons, newlines, unicode, Jinja markers, keywords, relative-date phrases, NaN/inf, long strings) "
                               "+ random strings over a hostile alphabet, x 5 parameter types; non-trivial = value containing a metacharacter or a non-string value, per type",
                       "traces_validated_against_impl": evals, "rejected_with_error": raised, "e2e_trees_equal": ok_e2e, "exhaustive": False})


def replay(path):
    body = json.load(open(path))
    r = body["replay"]
    print(json.dumps(r, indent=1)[:2000])
    if r.get("kind") == "format":
        import datetime, decimal, fractions
        v = eval(r["value"], {"nan": float("nan"), "inf": float("inf"), "datetime": datetime, "Decimal": decimal.Decimal, "Fraction": fractions.Fraction, "Ellipsis": ...})
        t = impl_format(r["type"], r["value_kind"], v)
        print("now:", t)
        return 1 if t != "X" and literal_check(r["type"], r["value_kind"], v, t[1:]) else 0
    return 1
