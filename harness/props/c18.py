"""C18 — pre-aggregation refresh converges to the full rollup.

Proof:  Props/C18.v over Model/Refresh.v (histories of any length, any truncation function).
Tie:    random histories over {append in order, append late inside/outside the lookback, update old rows, refresh full /
        incremental / merge(L) through PreAggregation.refresh, `sidemantic preagg refresh --mode m` through the CLI},
        starting with or without a rollup table, day/week/month granularity: after every refresh the rollup table of the
        real code must equal (as a bag) the rollup of the model evaluated inside Coq on the same history.
Oracle: (independent of the model) whenever the property's precondition for that refresh holds - decided by SQL over the
        real tables and a snapshot of the base at the previous refresh - the rollup must equal a fresh evaluation of the
        layer's own materialisation statement.
"""
import ast
import datetime
import json
import os
import re
import shutil
import tempfile
import warnings

from harness import lib

warnings.filterwarnings("ignore")
EPOCH = datetime.date(1970, 1, 1)
GRANS = ["day", "week", "month"]
GCOQ = {"day": "Day", "week": "Week", "month": "Month"}


def dn(d):
    return (d - EPOCH).days


def day(n):
    return EPOCH + datetime.timedelta(days=n)


# ------------------------------------------------------------------ history generation
def gen_history(rng, length, cli):
    """ops: ('append', rows) | ('update', id->v) | ('full',) | ('incr',) | ('merge', L) | ('cli', mode).  rows = (id, daynum, cat, v)"""
    g = rng.choice(GRANS)
    start = dn(datetime.date(2024, rng.randint(1, 3), rng.randint(1, 28)))
    rows, nid, hi = [], 1, start
    ops = []
    for _ in range(rng.randint(1, 5)):
        hi += rng.choice([0, 0, 1, 3, 9, 20])
        rows.append((nid, hi, rng.randint(0, 1), rng.randint(-5, 40)))
        nid += 1
    if rng.random() < 0.25:
        # the first refresh runs on an EMPTY base table: the rollup exists with zero rows before any data arrives
        ops.append(rng.choice([("full",), ("incr",), ("merge", 0)]) if not cli else ("cli", rng.choice(["full", "incremental", "merge"])))
    ops.append(("append", list(rows)))
    if rng.random() < 0.7:
        ops.append(rng.choice([("full",), ("incr",), ("merge", 0)]) if not cli else ("cli", rng.choice(["full", "incremental", "merge"])))
    for _ in range(length):
        k = rng.random()
        if k < 0.22:
            new = []
            for _ in range(rng.randint(1, 3)):
                hi += rng.choice([0, 1, 1, 2, 8, 35])
                new.append((nid, hi, rng.randint(0, 1), rng.randint(-5, 40)))
                nid += 1
            ops.append(("append", new))
        elif k < 0.36:
            back = rng.choice([0, 1, 2, 5, 12, 40, 70])
            ops.append(("append", [(nid, hi - back, rng.randint(0, 1), rng.randint(1, 9))]))
            nid += 1
        elif k < 0.46 and nid > 1:
            ops.append(("update", {rng.randint(1, nid - 1): rng.randint(-9, 50)}))
        elif cli:
            ops.append(("cli", rng.choice(["full", "incremental", "merge"])))
        else:
            ops.append(rng.choice([("full",), ("incr",), ("incr",), ("merge", 0), ("merge", rng.choice([1, 3, 7, 14, 45])), ("merge", rng.choice([3, 10])), ("merge_m", rng.choice([1, 1, 2]))]))
    return {"gran": g, "ops": ops, "cli": cli}


def corpus_histories():
    """every ordered triple of API refresh modes on ONE long-lived PreAggregation object, in-order appends between them, each followed by
    a re-run without new data: state kept on the object by one mode (a remembered watermark, a cached table check) must not leak
    into the next"""
    out = []
    modes = [("full",), ("incr",), ("merge", 0)]
    d0 = dn(datetime.date(2024, 3, 4))
    for a in modes:
        for b in modes:
            for c_ in modes:
                nid, ops, day_ = 1, [], d0
                for m in (a, b, c_):
                    rows = []
                    for _ in range(2):
                        rows.append((nid, day_, nid % 2, 3 + nid))
                        nid += 1
                        day_ += 9
                    ops += [("append", rows), m]
                ops.append(c_)
                out.append({"gran": GRANS[(len(out)) % 3], "ops": ops, "cli": False})
    # calendar lookbacks: the window of a '1 month' lookback starts one CALENDAR month before the watermark; a change in exactly that first
    # bucket (after a 31-day, a 30-day and a 29-day month) must be picked up
    for (y, m, d) in ((2024, 2, 15), (2024, 3, 31), (2024, 5, 1), (2024, 3, 1)):
        wm = dn(datetime.date(y, m, d))
        first = dn(datetime.date(y, m - 1, min(d, [31, 29, 31, 30, 31, 30, 31, 31, 30, 31, 30, 31][m - 2])))
        for g in ("day", "month"):
            out.append({"gran": g, "cli": False, "ops": [("append", [(1, first - 40, 0, 3), (2, first, 0, 10), (3, first + 5, 1, 4), (4, wm, 0, 7)]), ("full",),
                                                         ("update", {2: 99}), ("append", [(5, first, 1, 6)]), ("merge_m", 1), ("merge_m", 1)]})
    # NULL dimension values inside the merge window, and an update that EMPTIES a (bucket, dimension) group inside it: merge must still equal the full rollup and be idempotent
    d1 = dn(datetime.date(2024, 4, 8))
    for g in ("day", "week", "month"):
        for cli in (False, True):
            m1 = ("cli", "merge") if cli else ("merge", 7)
            out.append({"gran": g, "cli": cli, "ops": [("append", [(1, d1, 0, 5), (2, d1, None, 7), (3, d1 + 1, None, 2), (4, d1 + 1, 1, 3)]), ("cli", "full") if cli else ("full",),
                                                       ("append", [(5, d1 + 1, None, 11)]), m1, m1, ("update", {2: 9}), m1]})
            out.append({"gran": g, "cli": cli, "ops": [("append", [(1, d1, 0, 5), (2, d1, 1, 7), (3, d1 + 1, 0, 2), (4, d1 + 1, 1, 3)]), ("cli", "full") if cli else ("full",),
                                                       ("recat", {4: 0}), m1, m1, ("recat", {2: None}), m1]})
    return out


# ------------------------------------------------------------------ model side (Coq, vm_compute)
PREAMBLE = """From Coq Require Import ZArith List Bool.
Require Import V.Base.Calendar V.Model.Refresh.
Import ListNotations.
Open Scope Z_scope.
Definition B (t d v : Z) := {| b_ts := t; b_dim := d; b_v := v |}.
Definition canon (r : option (list rrow)) : list (Z * Z * Z * Z) :=
  match r with None => [(-1, -1, -1, -1)] | Some l => map (fun x => (r_bucket x, r_dim x, r_sum x, r_cnt x)) l end.
Fixpoint trace (tr : Z -> Z) (h : list op) (s : state) : list (list (Z * Z * Z * Z)) :=
  match h with
  | [] => []
  | o :: r => let s' := step tr s o in (match o with SetBase _ => [] | _ => [canon (rollup s')] end) ++ trace tr r s'
  end.
"""


def coq_history(h, month_days=()):
    """Coq op list equivalent to the history: base changes become SetBase <whole table>.  A calendar lookback ('1 month') is the number of days
    between the watermark and the watermark minus the interval, as the database computed it when the step ran (month_days, in step order)."""
    base = {}
    ops = []
    md = list(month_days)
    for op in h["ops"]:
        if op[0] == "append":
            for (i, d, c, v) in op[1]:
                base[i] = (d, -1 if c is None else c, v)
            ops.append("SetBase [%s]" % "; ".join("B (%d) (%d) (%d)" % base[i] for i in sorted(base)))
        elif op[0] == "recat":
            for i, cat in op[1].items():
                if i in base:
                    base[i] = (base[i][0], -1 if cat is None else cat, base[i][2])
            ops.append("SetBase [%s]" % "; ".join("B (%d) (%d) (%d)" % base[i] for i in sorted(base)))
        elif op[0] == "update":
            for i, v in op[1].items():
                if i in base:
                    base[i] = (base[i][0], base[i][1], v)
            ops.append("SetBase [%s]" % "; ".join("B (%d) (%d) (%d)" % base[i] for i in sorted(base)))
        elif op[0] == "full":
            ops.append("Full")
        elif op[0] == "incr":
            ops.append("Incr")
        elif op[0] == "merge":
            ops.append("Merge %d" % op[1])
        elif op[0] == "merge_m":
            ops.append("Merge %d" % md.pop(0))
        elif op[0] == "cli":
            ops.append({"full": "CliFull", "incremental": "CliIncr", "merge": "CliMerge"}[op[1]])
    return "trace (truncd %s) [%s] {| base := []; rollup := None |}" % (GCOQ[h["gran"]], "; ".join(ops))


def parse_coq(s):
    s = s.replace("%Z", "").replace(";", ",")
    return ast.literal_eval(s)


# ------------------------------------------------------------------ implementation side
def mk_model(g, update_window=None):
    from sidemantic import Dimension, Metric, Model
    from sidemantic.core.pre_aggregation import PreAggregation, RefreshKey
    rk = dict(refresh_key=RefreshKey(every="1 hour", incremental=True, update_window=update_window)) if update_window else {}
    return Model(name="ev", table="ev", primary_key="id",
                 dimensions=[Dimension(name="d", type="time", granularity="day", sql="d"), Dimension(name="cat", type="numeric", sql="cat")],
                 metrics=[Metric(name="total", agg="sum", sql="v"), Metric(name="n", agg="count")],
                 pre_aggregations=[PreAggregation(name="r", measures=["total", "n"], dimensions=["cat"], time_dimension="d", granularity=g, **rk)])


YAML = """models:
- name: ev
  table: ev
  primary_key: id
  dimensions:
  - {name: d, type: time, granularity: day, sql: d}
  - {name: cat, type: numeric, sql: cat}
  metrics:
  - {name: total, agg: sum, sql: v}
  - {name: n, agg: count}
  pre_aggregations:
  - {name: r, measures: [total, n], dimensions: [cat], time_dimension: d, granularity: %s%s}
"""


def source_sql(model, pre, op):
    mat = pre.generate_materialization_sql(model)
    pred = "WHERE DATE_TRUNC('%s', d) %s {WATERMARK}\nGROUP BY" % (pre.granularity, op)
    assert mat.count("GROUP BY") == 1
    return mat.replace("GROUP BY", pred)


def rollup_table(h):
    """the name the API histories give the rollup table: bare, schema-qualified, database-qualified or both (the database of a DuckDB file is the file's stem: data.db ->
    data), chosen by a checksum of the history's own operations (the generators' random streams and a replay are left alone); the command line always uses the bare name"""
    import zlib
    if h.get("cli"):
        return "ev_preagg_r"
    return ["ev_preagg_r", "ev_preagg_r", "preagg.ev_preagg_r", "data.ev_preagg_r", "data.preagg.ev_preagg_r"][zlib.crc32(repr(h["ops"]).encode()) % 5]


def fetch_rollup(con, g, table="ev_preagg_r"):
    try:
        rows = con.execute("select d_%s, cat, total_raw, n_raw from %s" % (g, table)).fetchall()
    except Exception:
        return [(-1, -1, -1, -1)]
    out = []
    for b, c, s, n in rows:
        if isinstance(b, datetime.datetime):
            b = b.date()
        out.append((dn(b), -1 if c is None else c, int(s) if s is not None else None, n))       # a NULL dimension value is its own group: code -1 (the model's)
    return out


def fresh_full(con, model, pre, g):
    rows = con.execute(pre.generate_materialization_sql(model)).fetchall()
    out = []
    for b, c, s, n in rows:
        if isinstance(b, datetime.datetime):
            b = b.date()
        out.append((dn(b), -1 if c is None else c, int(s) if s is not None else None, n))
    return sorted(out)


def run_impl(h, workdir):
    """Execute the history on the real code.  Returns per refresh step: (rollup rows, expectation, fresh full rows, op)."""
    import duckdb
    g = h["gran"]
    model = mk_model(g, h.get("update_window"))     # a declared refresh schedule (as Cube imports carry): the guarantees of each mode are the same with it
    pre = model.pre_aggregations[0]
    dbfile = os.path.join(workdir, "data.db")
    for f in (dbfile, dbfile + ".wal"):
        if os.path.exists(f):
            os.remove(f)
    con = duckdb.connect(dbfile)
    con.execute("create table ev(id bigint, d date, cat bigint, v bigint)")
    con.execute("create table ev_synced as select * from ev")
    con.execute("create schema if not exists preagg")
    tname = rollup_table(h)
    if h["cli"]:
        md = os.path.join(workdir, "models")
        os.makedirs(md, exist_ok=True)
        with open(os.path.join(md, "m.yml"), "w") as f:
            f.write(YAML % (g, ", refresh_key: {every: 1 hour, incremental: true, update_window: %s}" % h["update_window"] if h.get("update_window") else ""))
    steps = []
    month_days = []
    h["_month_days"] = month_days
    prev_refresh_changed = True
    for op in h["ops"]:
        if op[0] == "append":
            con.executemany("insert into ev values (?, ?, ?, ?)", [(i, day(d), c, v) for (i, d, c, v) in op[1]])
            prev_refresh_changed = True
            continue
        if op[0] == "update":
            for i, v in op[1].items():
                con.execute("update ev set v = ? where id = ?", [v, i])
            prev_refresh_changed = True
            continue
        if op[0] == "recat":
            for i, cat in op[1].items():
                con.execute("update ev set cat = ? where id = ?", [cat, i])
            prev_refresh_changed = True
            continue
        # ---- a refresh: decide, from the real tables, what the property promises for it
        before = sorted(fetch_rollup(con, g, tname))
        exists = before != [(-1, -1, -1, -1)]
        W = con.execute("select max(d_%s) from %s" % (g, tname)).fetchone()[0] if exists else None
        Wd = W if W is not None else EPOCH
        if isinstance(Wd, datetime.datetime):
            Wd = Wd.date()
        rollup_was_current = exists and sorted(before) == sorted(_full_of(con, "ev_synced", g))
        unchanged = con.execute("select count(*) from ((select * from ev except all select * from ev_synced) union all (select * from ev_synced except all select * from ev))").fetchone()[0] == 0
        expect = None     # None = the property promises nothing for this step
        kind = op[0] if op[0] != "cli" else "cli-" + op[1]
        if kind in ("full", "cli-full"):
            expect = "full"
        elif kind in ("merge", "cli-merge", "merge_m"):
            if kind == "merge_m":
                w = con.execute("select (cast(? as timestamp) - interval '%d month')::date" % op[1], [Wd]).fetchone()[0]
                month_days.append((Wd - w).days)
            else:
                L = op[1] if kind == "merge" else 0
                w = Wd - datetime.timedelta(days=L)
            if not exists:
                below = con.execute("select count(*) from ev where date_trunc('%s', d) < ?" % g, [w]).fetchone()[0]
                expect = "full" if below == 0 else None
            elif rollup_was_current:
                diff = con.execute(("select count(*) from ((select date_trunc('{g}', d) b, cat, sum(v) s, count(*) n from ev where date_trunc('{g}', d) < $1 group by 1, 2) except all "
                                    "(select date_trunc('{g}', d) b, cat, sum(v) s, count(*) n from ev_synced where date_trunc('{g}', d) < $1 group by 1, 2)) x").format(g=g), [w]).fetchone()[0]
                diff += con.execute(("select count(*) from ((select date_trunc('{g}', d) b, cat, sum(v) s, count(*) n from ev_synced where date_trunc('{g}', d) < $1 group by 1, 2) except all "
                                     "(select date_trunc('{g}', d) b, cat, sum(v) s, count(*) n from ev where date_trunc('{g}', d) < $1 group by 1, 2)) x").format(g=g), [w]).fetchone()[0]
                expect = "full" if diff == 0 else None
        elif kind in ("incr", "cli-incremental"):
            if not exists:
                pre1970 = con.execute("select count(*) from ev where date_trunc('%s', d) <= date '1970-01-01'" % g).fetchone()[0]
                expect = "full" if pre1970 == 0 else None
            elif rollup_was_current:
                removed = con.execute("select count(*) from (select * from ev_synced except all select * from ev)").fetchone()[0]
                late = con.execute("select count(*) from (select * from ev except all select * from ev_synced) x where date_trunc('%s', d) <= ?" % g, [Wd]).fetchone()[0]
                if unchanged:
                    expect = "unchanged"
                elif removed == 0 and late == 0:
                    expect = "full"
        # ---- run it
        if op[0] == "cli":
            con.close()
            from typer.testing import CliRunner
            from sidemantic.cli import app
            res = CliRunner().invoke(app, ["preagg", "refresh", os.path.join(workdir, "models"), "--db", dbfile, "--mode", op[1]])
            con = duckdb.connect(dbfile)
            if res.exit_code != 0:
                steps.append({"op": op, "rollup": "CLI-ERROR %s" % res.output[-300:], "expect": expect, "full": None, "before": before, "existed": exists})
                continue
        else:
            mode = {"full": "full", "incr": "incremental", "merge": "merge", "merge_m": "merge"}[op[0]]
            src = pre.generate_materialization_sql(model) if mode == "full" else source_sql(model, pre, ">" if mode == "incremental" else ">=")
            pre.refresh(connection=con, source_sql=src, table_name=tname, mode=mode,
                        watermark_column=None if mode == "full" else "d_%s" % g,
                        lookback=("%d days" % op[1]) if op[0] == "merge" and op[1] else ("%d month" % op[1]) if op[0] == "merge_m" else None)
        after = sorted(fetch_rollup(con, g, tname))
        steps.append({"op": op, "rollup": after, "expect": expect, "full": fresh_full(con, model, pre, g), "before": before, "existed": exists})
        con.execute("drop table ev_synced")
        con.execute("create table ev_synced as select * from ev")
    con.close()
    return steps


def _full_of(con, table, g):
    rows = con.execute("select date_trunc('%s', d), cat, sum(v), count(*) from %s group by 1, 2" % (g, table)).fetchall()
    out = []
    for b, c, s, n in rows:
        if isinstance(b, datetime.datetime):
            b = b.date()
        out.append((dn(b), -1 if c is None else c, int(s), n))
    return out


def judge(c, h, steps):
    """property oracle on the implementation's rollups; returns number of violations registered"""
    bad = 0
    for i, st in enumerate(steps):
        if isinstance(st["rollup"], str):
            c.violation("CLI refresh failed: %s" % st["rollup"][:200], {"kind": "history", "history": h, "step": i})
            bad += 1
            continue
        ok = True
        if st["expect"] == "full":
            ok = st["rollup"] == st["full"]
        elif st["expect"] == "unchanged":
            ok = st["rollup"] == st["before"]
        if ok:
            continue
        kind = st["op"][0] if st["op"][0] != "cli" else "cli-" + st["op"][1]
        if kind in ("cli-incremental", "cli-merge") and st["existed"] and c.is_open("C18-K1"):
            c.known("C18-K1")
            continue
        bad += 1
        c.violation("after %s the rollup is not what the property promises (%s)" % (kind, st["expect"]),
                    {"kind": "history", "history": h, "step": i, "rollup": st["rollup"], "expected_full": st["full"], "before": st["before"]})
    return bad


def witnesses(c, workdir):
    """replay the witnesses of the listed findings"""
    if c.is_open("C18-K1"):
        h = {"gran": "day", "cli": True, "ops": [("append", [(1, dn(datetime.date(2024, 1, 5)), 0, 10), (2, dn(datetime.date(2024, 1, 6)), 0, 5)]), ("cli", "incremental"), ("cli", "incremental")]}
        st = run_impl(h, workdir)
        if st[-1]["rollup"] != st[-1]["full"]:
            c.known("C18-K1")
    if c.is_open("C18-K2"):
        h = {"gran": "day", "cli": False, "ops": [("append", [(1, dn(datetime.date(1969, 12, 30)), 0, 10), (2, dn(datetime.date(2024, 1, 6)), 0, 5)]), ("incr",)]}
        st = run_impl(h, workdir)
        if st[-1]["rollup"] != st[-1]["full"]:
            c.known("C18-K2")


def regen_programs(c):
    """Gen/Refresh_gen.v from pre_aggregation.py (fail closed), then: the interpreter of the translator == CPython running the real
    methods against the same scripted connection, scenario by scenario (translator validation)."""
    from translator import gen_refresh
    try:
        text = gen_refresh.generate(lib.REPO)
        lib.write_if_changed(os.path.join(lib.COQ, "Gen", "Refresh_gen.v"), text)
        c.obligation("translator: statement programs of _refresh_full/_refresh_incremental/_refresh_merge and the mode dispatch regenerated", True, "translator")
    except Exception as e:
        c.obligation("translator: statement programs of _refresh_full/_refresh_incremental/_refresh_merge and the mode dispatch regenerated", False, "translator", repr(e)[-900:])
        return
    try:
        import ast as _ast
        from sidemantic.core.pre_aggregation import PreAggregation
        pre = PreAggregation(name="r", measures=["m"], dimensions=[], time_dimension="d", granularity="day")
        tree = _ast.parse(open(os.path.join(lib.REPO, "sidemantic/core/pre_aggregation.py")).read())
        cls = [n for n in tree.body if isinstance(n, _ast.ClassDef) and n.name == "PreAggregation"][0]
        funcs = {n.name: n for n in cls.body if isinstance(n, _ast.FunctionDef)}
        bad, n = [], 0
        for fname in ("_refresh_full", "_refresh_incremental", "_refresh_merge"):
            for ex in (False, True):
                for wm in (False, True):
                    for lb in ((False,) if fname == "_refresh_full" else (False, True)):
                        conn = gen_refresh.Conn(ex, gen_refresh.WMV if (ex and wm) else None)
                        real = _RealConn(conn)
                        args = [real, gen_refresh.SRC, gen_refresh.TABLE] if fname == "_refresh_full" else \
                            [real, gen_refresh.SRC, gen_refresh.TABLE, gen_refresh.COL, gen_refresh.LB if lb else None, None, None]
                        getattr(pre, fname)(*args)
                        got = [x for x in (gen_refresh.classify(q, ex and wm, lb) for q in conn.log) if x]
                        want = gen_refresh.run_mode(funcs, fname, ex, wm, lb)
                        n += 1
                        if got != want:
                            bad.append((fname, ex, wm, lb, got, want))
        c.obligation("translator validation: interpreted statement lists == the real methods run against the scripted connection (%d scenarios)" % n, not bad, "translator", repr(bad[:2])[:900])
    except Exception as e:
        c.obligation("translator validation: interpreted statement lists == the real methods run against the scripted connection", False, "translator", repr(e)[-900:])


class _RealConn:
    """adapts translator.gen_refresh.Conn for the real methods (its private exception becomes an ordinary one)"""

    def __init__(self, conn):
        self.conn = conn

    def execute(self, sql):
        from translator import gen_refresh
        try:
            return self.conn.execute(sql)
        except gen_refresh._Raise as e:
            raise RuntimeError(str(e))


def run(c):
    regen_programs(c)
    c.trusted += ["translator/gen_refresh.py: definitional interpreter over a whitelisted Python subset (fail closed) extracts the SQL statement programs of the three refresh "
                  "strategies per scenario; validated each run against CPython running the real methods on the same scripted connection; Model/RefreshProg.exec gives the statements their meaning",]
    c.trusted += ["modelled, not verified: Model/Refresh.v is a hand-written model of PreAggregation.refresh (full / incremental / merge, stateless watermark) and of the CLI's choice of source statement; "
                  "one dimension + sum + count stand for any dimension list and any decomposable measure",
                  "the API source statement is the harness's choice: the layer's materialisation statement with a bucket-level watermark predicate (> incremental, >= merge)",
                  "DuckDB 1.3.2 (DATE_TRUNC, INTERVAL arithmetic, DDL) and typer's CliRunner as oracles/drivers; Calendar.truncd as tr for evaluation"]
    c.build_props()
    workdir = tempfile.mkdtemp(prefix="verif_c18_")
    try:
        n_hist = 40 if c.tier == "quick" else 400
        max_len = 8 if c.tier == "quick" else 14
        hs = corpus_histories() + [gen_history(c.rng, c.rng.randint(2, max_len), cli=(i % 4 == 3)) for i in range(n_hist)]
        for i, h in enumerate(hs):
            if i % 3 == 1:
                h["update_window"] = ["7 day", "1 month", "2 day"][(i // 3) % 3]
        # every fifth generated history happens 75 years later (rows dated 2099: after any wall clock this check will ever run under) -- the guarantees do not depend on
        # where the data lies relative to "now"
        for i, h in enumerate(hs):
            if i >= len(hs) - n_hist and i % 5 == 2:
                h["ops"] = [(op[0], [(r[0], r[1] + 27398, r[2], r[3]) for r in op[1]]) + tuple(op[2:]) if op[0] == "append" else op for op in h["ops"]]
        model_ok = lib.coq_make(["Model/Refresh.vo", "Base/Calendar.vo"])[0]
        all_steps = [run_impl(h, workdir) for h in hs]          # the implementation first: calendar lookbacks get their day counts from the run
        traces = None
        if model_ok:
            try:
                traces = [parse_coq(x) for x in lib.coq_eval("c18_hist", PREAMBLE, [coq_history(h, h.get("_month_days", ())) for h in hs], chunk=25)]
            except Exception as e:
                c.obligation("model evaluation", False, "correspondence", repr(e)[-1500:])
        mism, nsteps, expected_steps = [], 0, 0
        ops_seen = {}
        for k, h in enumerate(hs):
            steps = all_steps[k]
            nsteps += len(steps)
            for st in steps:
                kk = st["op"][0] if st["op"][0] != "cli" else "cli-" + st["op"][1]
                ops_seen[kk] = ops_seen.get(kk, 0) + 1
                expected_steps += st["expect"] is not None
            judge(c, h, steps)
            if traces is not None:
                mt = traces[k]
                it = [st["rollup"] for st in steps]
                if len(mt) != len(it) or any(sorted(map(tuple, a)) != (sorted(b) if not isinstance(b, str) else b) for a, b in zip(mt, it)):
                    mism.append({"history": h, "model": mt, "impl": it})
            if len(c.samples) < 2:
                c.samples.append({"history": h, "rollup_after_each_refresh": [st["rollup"] for st in steps][:4]})
        if traces is not None:
            c.obligation("correspondence: Model/Refresh.v == PreAggregation.refresh / CLI on %d histories (%d refresh steps, rollup bags after every step)" % (len(hs), nsteps),
                         not mism, "correspondence", json.dumps(mism[:1], default=str)[:1800])
        c.obligation("oracle: rollup == fresh materialisation wherever the property promises it (%d of %d refresh steps)" % (expected_steps, nsteps), not c.violations, "correspondence")
        witnesses(c, workdir)
        c.coverage.update({"evaluations": nsteps, "distinct_nontrivial": len({json.dumps(h, default=str) for h in hs if len(h["ops"]) > 3}),
                           "rule": "random histories (length <= %d) over append in order / late inside and outside the lookback / update / full / incremental / merge(L) / CLI modes, "
                                   "with and without an existing rollup, day/week/month; non-trivial = distinct history with more than 3 operations" % max_len,
                           "traces_validated_against_impl": len(hs), "refresh_ops": ops_seen, "steps_with_a_promise": expected_steps, "exhaustive": False})
    finally:
        shutil.rmtree(workdir, ignore_errors=True)


def replay(path):
    body = json.load(open(path))
    r = body["replay"]
    workdir = tempfile.mkdtemp(prefix="verif_c18_")
    try:
        h = r["history"]
        h["ops"] = [tuple(o) if o[0] != "update" else ("update", {int(k): v for k, v in o[1].items()}) for o in h["ops"]]
        h["ops"] = [(o[0], [tuple(x) for x in o[1]]) if o[0] == "append" else (("recat", {int(k): v for k, v in o[1].items()}) if o[0] == "recat" else o) for o in h["ops"]]
        steps = run_impl(h, workdir)
        st = steps[r["step"]]
        print(json.dumps(st, default=str, indent=1)[:2500])
        ok = (st["expect"] != "full" or st["rollup"] == st["full"]) and (st["expect"] != "unchanged" or st["rollup"] == st["before"])
        return 0 if ok else 1
    finally:
        shutil.rmtree(workdir, ignore_errors=True)
