"""C02 — joins never multiply a metric (fan-out safety).

Proof:  Props/C02.v (safe-slot multiplicity for any join tree; metric value == reference value for plain-on-safe-slot,
        fan-out-insensitive and symmetric aggregates; side invariance).
Tie:    random model forests (2-5 models, many_to_one / one_to_many / one_to_one declared on either side, composite keys,
        NULL and dangling FKs, NULL measures) x queries whose dimensions, metrics and filters are spread over the models,
        executed by the real compile()+DuckDB and by Model/Plan.v + Model/Join.v inside Coq.
Oracle: `spec_join` — each metric over the distinct rows of its own model connected to the group.
"""
import json
import warnings

from harness import joingen as jg, lib, semgen as sg

warnings.filterwarnings("ignore")

PREAMBLE = """From Coq Require Import ZArith String List Bool DecimalString.
Require Import V.Base.PyLib V.Base.Calendar V.Base.CalendarFacts V.Model.Graph V.Model.Sem V.Model.Single V.Model.Mult V.Model.Join V.Model.Plan V.Proofs.C02_proofs.
Import ListNotations.
Open Scope string_scope.
""" + sg.SHOW + """
Definition JC : list string := ["id"; "id2"; "c0"; "c1"; "s0"; "fk_a"; "fk_b"].
Definition M (a : agg) (e : option expr) (fs : list expr) := {| ms_agg := a; ms_expr := e; ms_filters := fs |}.
Definition bs (b : bool) : string := if b then "1" else "0".
Definition showo (o : option (list out_row)) : string := match o with Some r => show r | None => "REJECTED" end.
Definition flags (q : jquery) : string :=
  String.concat "," (map (fun m => bs (jm_sym m) ++ bs (metric_safe q m) ++
     bs (existsb (fun r => is_null (raw_col (jm_pk m) (jm_measure m) r)) (nth (jm_slot m) (jq_tables q) []))) (jq_metrics q)).
(* the hash the model is executed with: injective on the keys that occur (integers, and the strings composite keys are rendered to) *)
Fixpoint str_code (s : string) (acc : Z) : Z :=
  match s with EmptyString => acc | String c r => str_code r (acc * 256 + Z.of_nat (Ascii.nat_of_ascii c))%Z end.
Definition hinj (v : val) : Z := match v with VInt z => (2 * z)%Z | VStr s => (2 * str_code s 1 + 1)%Z | _ => 0%Z end.
Definition go (ms : list pmodel) (q : pquery) : string :=
  match plan ms q with
  | PlanOk jq slots => "OK#" ++ showo (run_join hinj jq) ++ "#" ++ show (spec_join jq) ++ "#" ++ flags jq ++ "#" ++ String.concat "," slots
  | PlanMultiFact => "MULTIFACT"
  | PlanError w => "ERR " ++ w
  end.
"""

AGGS = ["sum", "count", "count_distinct", "avg", "min", "max", "median"]


def gen_query(rnd, f, single_metric_model=True):
    names = [m["name"] for m in f["models"]]
    dims = []
    for _ in range(rnd.choice([0, 1, 1, 2])):
        dims.append((rnd.choice(names), rnd.choice([jg.jcol("s0"), jg.jcol("c1"), jg.jcol("s0"), jg.jcol("s0"), jg.tdim(rnd.choice(["day", "week", "month", "quarter", "year"]))])))
    if rnd.random() < 0.12:
        # ONE time dimension of one model at week AND a calendar granularity: an ISO week is not nested in a month / quarter / year, so the
        # groups are the distinct (week, month) pairs
        tm = rnd.choice(names)
        dims = [(tm, jg.tdim2(g)) for g in rnd.sample(["week", rnd.choice(["month", "quarter", "year"])], 2)] + dims[:1]
    mm = rnd.choice(names)
    mets = []
    for _ in range(rnd.choice([1, 1, 2, 3])):
        model = mm if single_metric_model or rnd.random() < 0.6 else rnd.choice(names)
        agg = rnd.choice(AGGS)
        expr = None if (agg in ("count", "count_distinct") and rnd.random() < 0.5) else rnd.choice([jg.jcol("c0"), jg.jcol("c0"), ("add", jg.jcol("c0"), jg.jcol("c1"))])
        filt = [("cmp", rnd.choice([">", "<=", "<>"]), jg.jcol("c1"), sg.lit(rnd.choice([0, 1])))] if rnd.random() < 0.2 else []
        mets.append((model, agg, expr, filt))
    filters = []
    for _ in range(rnd.choice([0, 0, 0, 1, 2])):
        fm = rnd.choice(names)
        filters.append((fm, rnd.choice([("cmp", "=", jg.jcol("s0"), sg.lit("a")), ("cmp", ">", jg.jcol("c1"), sg.lit(0)), ("isnull", jg.jcol("c1")),
                                        ("not", ("isnull", jg.jcol("s0"))), ("in", jg.jcol("c1"), [0, 2]), ("cmp", "<>", jg.jcol("s0"), sg.lit("b"))])))
    return dict(dims=dims, mets=mets, filters=filters)


def gen_m2m_case(rnd):
    """targeted family: a many_to_many through a junction, declared on one side; the metric sits on EITHER end (the declaring or the other side)
    and the query reaches across the junction by a dimension or a filter -- several junction rows per end row fan the metric out"""
    f = jg.gen_m2m_forest(rnd)
    ends = ["ma", "mb"]
    rnd.shuffle(ends)
    base, other = ends
    agg = rnd.choice(["sum", "count", "avg", "sum", "min"])
    mets = [(base, agg, None if agg == "count" else jg.jcol("c0"), [])]
    if rnd.random() < 0.4:
        mets.append((base, "count", None, []))
    if rnd.random() < 0.6:
        return f, dict(dims=[(other, jg.jcol("s0"))] + ([(base, jg.jcol("s0"))] if rnd.random() < 0.4 else []), mets=mets, filters=[])
    return f, dict(dims=[(base, jg.jcol("s0"))] if rnd.random() < 0.6 else [], mets=mets, filters=[(other, ("not", ("isnull", jg.jcol("id"))))])


def gen_composite_case(rnd):
    """targeted family: the BASE model has a composite key whose values collide when written without a separator ((1,'1k') ~ (11,'k')), several children per
    parent row (fan-out: symmetric aggregates hash the composite key), equal measure values on colliding rows"""
    for _ in range(60):
        f = jg.gen_forest(rnd, nmodels=rnd.randint(2, 3), allow_m2m=False)
        comp = [(c, p) for (c, p, ty, cmp_) in f["links"] if cmp_ and ty == "m2o" and len(f["models"][p]["rows"]) >= 2 and len(f["models"][c]["rows"]) >= 2]
        if not comp:
            continue
        c, p = rnd.choice(comp)
        parent, child = f["models"][p], f["models"][c]
        v = rnd.choice([1, 2, 5])
        for r in parent["rows"]:
            r[jg.CI["c0"]] = v                      # colliding keys with EQUAL values: a DISTINCT over (key, value) would merge them
            r[jg.CI["s0"]] = "a"
        prows = parent["rows"]
        for i, r in enumerate(child["rows"]):       # every parent row gets children, the first one two of them
            tgt = prows[0] if i < 2 else prows[i % len(prows)]
            r[jg.CI["fk_a"]], r[jg.CI["fk_b"]] = tgt[0], tgt[1]
        agg = rnd.choice(["sum", "count", "avg", "sum"])
        q = dict(dims=[(parent["name"], jg.jcol("s0"))] if rnd.random() < 0.6 else [], mets=[(parent["name"], agg, None if agg == "count" else jg.jcol("c0"), []), (parent["name"], "count_distinct", None, [])],
                 filters=[(child["name"], ("not", ("isnull", jg.jcol("id"))))])
        return f, q
    f = jg.gen_forest(rnd)
    return f, gen_query(rnd, f)


def gen_stat_case(rnd):
    """targeted family: a sample standard deviation / variance (and a median) of the PARENT while a one_to_many child is reached by a dimension or a filter, several
    child rows per parent row, parent values spread out: such an aggregate cannot be made fan-out safe by the symmetric form, so the query is either refused or must
    equal the statistic over the distinct parent rows"""
    f = jg.gen_forest(rnd, nmodels=2, allow_m2m=False)
    parent, child = f["models"][0], f["models"][1]
    parent["composite"], child["composite"] = False, False
    parent.pop("pk", None)
    child.pop("pk", None)
    if rnd.random() < 0.5:
        parent["rels"], child["rels"] = [dict(name=child["name"], type="one_to_many", foreign_key="fk_a")], []
    else:
        parent["rels"], child["rels"] = [], [dict(name=parent["name"], type="many_to_one", foreign_key="fk_a")]
    n = rnd.choice([3, 4, 5])
    parent["rows"] = [[r + 1, "k%d" % (r + 1), [1, 10, 4, 25, 7][r], rnd.choice([0, 1, 2]), rnd.choice(["a", "a", "b"]), None, None] for r in range(n)]
    child["rows"] = []
    for i in range(rnd.choice([5, 6, 8])):
        k = 1 if i < 3 else rnd.randint(1, n)              # the first parent row has at least three child rows
        child["rows"].append([i + 1, "k%d" % (i + 1), rnd.choice([1, 2, 5]), rnd.choice([0, 1, 2]), rnd.choice(["x", "y"]), k, "k%d" % k])
    f["links"] = [(1, 0, "m2o", False)]
    agg = rnd.choice(["stddev", "variance", "stddev", "median"])
    mets = [(parent["name"], agg, jg.jcol("c0"), [])]
    if rnd.random() < 0.5:
        q = dict(dims=[], mets=mets, filters=[(child["name"], ("not", ("isnull", jg.jcol("id"))))])
    else:
        q = dict(dims=[(parent["name"], jg.jcol("s0"))], mets=mets, filters=[(child["name"], ("cmp", "<>", jg.jcol("s0"), sg.lit("zz")))])
    return f, q


def gen_detail_case(rnd):
    """targeted family: a DETAIL table -- the child's own composite primary key contains its foreign key (order lines keyed by (order id, line number)) -- declared
    one_to_many on the parent or many_to_one on the child, several lines per parent row; a sum / avg / count of the PARENT reaching the lines (dimension or filter
    on the lines): the hop still fans the parent out"""
    f = jg.gen_forest(rnd, nmodels=2, allow_m2m=False)
    parent, child = f["models"][0], f["models"][1]
    parent["composite"], child["composite"] = False, False
    parent.pop("pk", None)
    child["pk"] = ["fk_a", "id"]
    if rnd.random() < 0.5:
        parent["rels"], child["rels"] = [dict(name=child["name"], type="one_to_many", foreign_key="fk_a")], []
    else:
        parent["rels"], child["rels"] = [], [dict(name=parent["name"], type="many_to_one", foreign_key="fk_a")]
    n = rnd.choice([2, 3, 4])
    parent["rows"] = [[r + 1, "k%d" % (r + 1), rnd.choice([1, 2, 5, 10]), rnd.choice([0, 1, 2]), rnd.choice(["a", "a", "b"]), None, None] for r in range(n)]
    child["rows"] = []
    for i in range(rnd.choice([3, 4, 6])):
        k = 1 if i < 2 else rnd.randint(1, n)              # the first parent row has at least two lines
        child["rows"].append([i + 1, "k%d" % (i + 1), rnd.choice([1, 2, 5]), rnd.choice([0, 1, 2]), rnd.choice(["x", "y"]), k, "k%d" % k])
    f["links"] = [(1, 0, "m2o", False)]
    agg = rnd.choice(["sum", "avg", "count", "sum"])
    mets = [(parent["name"], agg, None if agg == "count" else jg.jcol("c0"), [])]
    if rnd.random() < 0.5:
        q = dict(dims=[(child["name"], jg.jcol("s0"))], mets=mets, filters=[])
    else:
        q = dict(dims=[(parent["name"], jg.jcol("s0"))] if rnd.random() < 0.5 else [], mets=mets, filters=[(child["name"], ("not", ("isnull", jg.jcol("id"))))])
    return f, q


def gen_keydim_case(rnd):
    """targeted family: a dimension NAMED like a key column of its model (the child's foreign key, the parent's primary key) whose SQL is not that column
    (fk_a + 1, id * 2, ...), requested in a query that joins through that key: the hop must still compare the declared key columns, and the
    dimension must still show its own expression"""
    for _ in range(40):
        f = jg.gen_forest(rnd, nmodels=rnd.randint(2, 3), allow_m2m=False)
        links = [(c, p) for (c, p, ty, comp) in f["links"] if not comp and not f["models"][c]["composite"] and not f["models"][c].get("pk")
                 and len(f["models"][c]["rows"]) >= 2 and len(f["models"][p]["rows"]) >= 2]
        if not links:
            continue
        c, p = rnd.choice(links)
        child, parent = f["models"][c], f["models"][p]
        which = rnd.choice(["fk", "pk", "fk"])
        if which == "fk":
            dims = [(child["name"], (rnd.choice(["add", "mul"]), jg.jcol("fk_a"), sg.lit(rnd.choice([1, 2])))), (parent["name"], jg.jcol("s0"))]
            names = {0: "fk_a"}
        else:
            dims = [(parent["name"], ("add", jg.jcol("id"), sg.lit(1))), (child["name"], jg.jcol("s0"))]
            names = {0: "id"}
        mm = rnd.choice([child, parent])["name"]
        agg = rnd.choice(["sum", "count", "max", "min"])
        q = dict(dims=dims, dim_names=names, mets=[(mm, agg, None if agg == "count" else jg.jcol("c0"), [])], filters=[])
        return f, q
    f = jg.gen_forest(rnd)
    return f, gen_query(rnd, f)


def gen_mixed_query(rnd, f):
    """a base-model metric with the other models referenced in the order [fan-out child, non-fan-out parent] (or the reverse): the
    fan-out verdict must be accumulated over ALL joined models, whichever comes last.  None when the forest has no such triple."""
    names = [m["name"] for m in f["models"]]
    for (c, p, ty, _) in rnd.sample(list(f["links"]), len(f["links"])):
        if ty != "m2o":
            continue
        # base = p (its child c fans it out); a non-fan-out neighbour of p: p's own parent, or a one-to-one partner
        ups = [l[1] for l in f["links"] if l[0] == p] + [l[0] for l in f["links"] if l[1] == p and l[2] == "o2o" and l[0] != c]
        if not ups:
            continue
        x, y, b = names[c], names[rnd.choice(ups)], names[p]
        order = [x, y] if rnd.random() < 0.8 else [y, x]
        agg = rnd.choice(["sum", "count", "avg", "sum"])
        mets = [(b, agg, None if agg == "count" else jg.jcol("c0"), [])]
        if rnd.random() < 0.5:
            return dict(dims=[(b, jg.jcol("s0"))], mets=mets, filters=[(m, ("not", ("isnull", jg.jcol("id")))) for m in order])
        return dict(dims=[(m, jg.jcol("s0")) for m in order], mets=mets, filters=[])
    return None


def field_names(q):
    """unique dimension / metric names per model; returns (dims_by_model, metrics_by_model, dim refs, metric refs)"""
    dbm, mbm, drefs, mrefs = {}, {}, [], []
    named = q.get("dim_names") or {}
    for i, (m, e) in enumerate(q["dims"]):
        # q["dim_names"] = {position: name}: the Dimension is declared under that name (e.g. the name of a key column) instead of d<i>
        dn = named.get(i) or named.get(str(i))
        dbm.setdefault(m, []).append((dn or jg.dim_name(i, e), e))
        drefs.append("%s.%s" % (m, dn or jg.dim_col(i, e)))
    for j, (m, a, e, fl) in enumerate(q["mets"]):
        mbm.setdefault(m, []).append(("m%d" % j, a, e, fl))
        mrefs.append("%s.m%d" % (m, j))
    return dbm, mbm, drefs, mrefs


def real(f, q):
    dbm, mbm, drefs, mrefs = field_names(q)
    L = jg.real_layer(f, mbm, dbm)
    sql = L.compile(metrics=mrefs, dimensions=drefs, filters=[jg.jsql(e, m + ".") for m, e in q["filters"]])
    cur = L.conn.execute(sql)
    return [d[0] for d in cur.description], jg.canon_times(cur.fetchall()), sql


SWAP = {"one_to_many": "one_to_one", "one_to_one": "one_to_many"}


def real_after_edit(f, q):
    """history: the layer is first built with every parent-side relationship declared at the OTHER cardinality (one_to_many <-> one_to_one) and answers the
    query once; then the declarations are corrected in place (rel.type = ...; graph.build_adjacency()) and the query is asked again.  None if nothing to edit."""
    import copy
    if not any(r["type"] in SWAP for m in f["models"] for r in m["rels"]):
        return None
    g = copy.deepcopy(f)
    for m in g["models"]:
        for r in m["rels"]:
            r["type"] = SWAP.get(r["type"], r["type"])
    dbm, mbm, drefs, mrefs = field_names(q)
    L = jg.real_layer(g, mbm, dbm)
    kw = dict(metrics=mrefs, dimensions=drefs, filters=[jg.jsql(e, m + ".") for m, e in q["filters"]])
    try:
        L.conn.execute(L.compile(**kw)).fetchall()
    except Exception:
        pass
    for m in f["models"]:
        # matched by related model and key (not by position: a model registered through inheritance resolution keeps its items in another order)
        pool = list(L.graph.models[m["name"]].relationships)
        for want in m["rels"]:
            have = next(h for h in pool if h.name == want["name"] and h.foreign_key == want.get("foreign_key") and h.type == SWAP.get(want["type"], want["type"]))
            pool.remove(have)
            have.type = want["type"]
    L.graph.build_adjacency()
    cur = L.conn.execute(L.compile(**kw))
    return jg.canon_times(cur.fetchall())


def coq_term(f, q):
    dims = "; ".join("{| pd_model := %s; pd_expr := %s |}" % (lib.coq_string(m), sg.coq(e)) for m, e in q["dims"])
    mets = "; ".join("{| pmt_model := %s; pmt_measure := M (%s) %s [%s] |}" % (lib.coq_string(m), sg.COQ_AGG[a], "None" if e is None else "(Some %s)" % sg.coq(e),
                                                                               "; ".join(sg.coq(x) for x in fl)) for m, a, e, fl in q["mets"])
    fls = "; ".join("{| pf_model := %s; pf_expr := %s |}" % (lib.coq_string(m), sg.coq(e)) for m, e in q["filters"])
    return "go %s {| pq_dims := [%s]; pq_metrics := [%s]; pq_filters := [%s] |}" % (jg.coq_forest(f), dims, mets, fls)


def compare(q, impl_rows, mrows, exempt):
    """bag comparison of implementation rows with model/spec rows; metric columns in `exempt` are not compared"""
    nd = len(q["dims"])
    if len(impl_rows) != len(mrows):
        return False
    rest = list(mrows)
    for a in impl_rows:
        hit = None
        for i, (k, cells) in enumerate(rest):
            if list(a[:nd]) == k and all(j in exempt or sg.cell_matches(a[nd + j], cells[j], q["mets"][j][1]) for j in range(len(cells))):
                hit = i
                break
        if hit is None:
            return False
        rest.pop(hit)
    return True


def regen_symagg(c):
    """Gen/SymAgg_gen.v from symmetric_aggregate.py + generator._has_fanout_joins (fail closed), then the translator's interpreter against
    CPython running the real functions on the same inputs"""
    import os
    from translator import gen_symagg
    try:
        lib.write_if_changed(os.path.join(lib.COQ, "Gen", "SymAgg_gen.v"), gen_symagg.generate(lib.REPO))
        c.obligation("translator: symmetric-aggregate SQL shapes (10 aggregation literals) and the _has_fanout_joins decision table (111 scripted scenarios) regenerated", True, "translator")
    except Exception as e:
        c.obligation("translator: symmetric-aggregate SQL shapes and the _has_fanout_joins decision table regenerated", False, "translator", repr(e)[-900:])
        return
    try:
        from translator import gen_required
        lib.write_if_changed(os.path.join(lib.COQ, "Gen", "Required_gen.v"), gen_required.generate(lib.REPO))
        same = gen_required.table(lib.REPO) == gen_required.table(lib.REPO, real=True)
        c.obligation("translator: model list of _find_required_models (315 scripted queries) regenerated; interpreted == the real method under CPython", same, "translator")
    except Exception as e:
        c.obligation("translator: model list of _find_required_models regenerated", False, "translator", repr(e)[-900:])
    try:
        a = gen_symagg.sym_shapes(lib.REPO) == gen_symagg.real_sym_shapes(lib.REPO)
        b = gen_symagg.fanout_table(lib.REPO) == gen_symagg.real_fanout_table(lib.REPO)
        c.obligation("translator validation: interpreted build_symmetric_aggregate_sql / _has_fanout_joins == the real functions under CPython on the same inputs", a and b, "translator",
                     "shapes equal: %s, decision table equal: %s" % (a, b))
    except Exception as e:
        c.obligation("translator validation: interpreted build_symmetric_aggregate_sql / _has_fanout_joins == the real functions", False, "translator", repr(e)[-900:])


def run(c):
    c.trusted += ["translator/pyinterp.py + gen_symagg.py: definitional interpreter over a whitelisted Python subset (fail closed) extracts the SQL shape per aggregation literal and the fan-out decision table "
                  "over scripted join paths; validated each run against CPython; the SQL text -> shape parser (regular expressions) is trusted",
                  "modelled, not verified: Model/Plan.v (planning decisions) and Model/Join.v (joined query over wide rows, symmetric aggregates with the hash as a parameter) are hand-written; tied by executing the same cases",
                  "hypotheses of C02_metric_value: declared cardinalities hold in the data (card_truthful); for the symmetric form: unique non-NULL key, hash injective on the keys present (64-bit collisions are outside the model), "
                  "integer measure values below 2^39",
                  "DuckDB 1.3.2 (HASH, HUGEINT arithmetic, joins) as oracle; DOUBLE / DECIMAL measures are only exercised on the implementation (witness of C02-K3), not modelled"]
    regen_symagg(c)
    lib.regen_cte(c)
    c.build_props()
    n = 300 if c.tier == "quick" else 5000
    cases = []
    for _ in range(n):
        f = jg.gen_forest(c.rng)
        q = gen_mixed_query(c.rng, f) if c.rng.random() < 0.25 else None
        cases.append((f, q or gen_query(c.rng, f, single_metric_model=c.rng.random() < 0.7)))
    cases += [gen_m2m_case(c.rng) for _ in range(max(10, n // 10))] + [gen_composite_case(c.rng) for _ in range(max(10, n // 10))] + [gen_detail_case(c.rng) for _ in range(max(10, n // 10))] + [gen_keydim_case(c.rng) for _ in range(max(10, n // 10))]
    import random as _random
    rng_stat = _random.Random(c.seed * 13 + 2)           # a stream of its own: the cases above stay what they were
    cases += [gen_stat_case(rng_stat) for _ in range(max(8, n // 25))]
    # every fourth case under model names that contain one another (items / line_items / order_line_items / itemsx / items_raw)
    cases = [jg.rename_case(f_, q_) if k_ % 4 == 1 else (f_, q_) for k_, (f_, q_) in enumerate(cases)]
    cf = jg.corpus_forest()
    cases[:0] = [
        (cf, dict(dims=[("mb", jg.jcol("s0"))], mets=[("ma", "sum", jg.jcol("c0"), [])], filters=[])),                       # K1: non-base metric through many_to_one
        (cf, dict(dims=[], mets=[("ma", "sum", jg.jcol("c0"), [])], filters=[("mb", ("not", ("isnull", jg.jcol("id"))))])),  # K2: NULL measure under the symmetric SUM
        (cf, dict(dims=[("ma", jg.jcol("s0"))], mets=[("ma", "sum", jg.jcol("c1"), []), ("ma", "count", None, [])], filters=[("mb", ("cmp", "=", jg.jcol("s0"), sg.lit("a")))])),
    ]
    # a dimension NAMED like a key column: the code projects the key column under that name and never evaluates the dimension's own SQL (listed class C02-K4).
    # Its model is therefore the SHADOW query (the dimension's expression replaced by the key column); the reference semantics is that of the query as written.
    shadow = {}
    for i, (f, q) in enumerate(list(cases)):
        if q.get("dim_names"):
            q2 = dict(q, dims=[(m, jg.jcol(q["dim_names"][k]) if k in q["dim_names"] else e) for k, (m, e) in enumerate(q["dims"])])
            q2.pop("dim_names")
            shadow[i] = len(cases)
            cases.append((f, q2))
    outs = None
    if lib.coq_make(["Proofs/C02_proofs.vo", "Model/Plan.vo"])[0]:
        try:
            outs = lib.coq_eval("c02_cases", PREAMBLE, [coq_term(f, q) for f, q in cases], chunk=40)
        except RuntimeError as e:
            c.obligation("model evaluation", False, "correspondence", str(e)[-1500:])
    fid_bad, stats = [], {"multifact": 0, "rejected": 0, "joined": 0, "symmetric": 0, "k1": 0, "k2": 0, "impl_error": 0, "compared": 0}
    nontrivial = 0
    for i, (f, q) in enumerate(cases):
        out = sg.unquote(outs[i]) if outs is not None else None
        if out == "MULTIFACT":
            stats["multifact"] += 1
            continue                              # the multi-fact form is C03's subject
        try:
            cols, rows, sql = real(f, q)
            err = None
        except Exception as e:
            rows, sql, err = None, "", e
        if out is None:
            continue
        if out.startswith("ERR"):
            if err is None:
                fid_bad.append({"forest": f, "query": q, "model": out, "impl": "compiled"})
            continue
        _, m_line, s_line, flags, slots = out.split("#")
        flags = flags.split(",") if flags else []
        stats["joined"] += len(slots.split(",")) > 1
        if m_line == "REJECTED":
            stats["rejected"] += 1
            if err is None:
                fid_bad.append({"forest": f, "query": q, "model": "REJECTED", "impl": "compiled"})
                # the code now answers a query the modelled planner refuses: is the answer right?  (the failing-input search)
                if s_line and s_line != "REJECTED" and not compare(q, rows, sg.parse_show(s_line), set()):
                    c.violation("a query the modelled planner refuses (fan-out with a non-decomposable aggregate) is now answered, and wrongly",
                                {"kind": "case", "forest": f, "query": q, "impl_rows": [list(map(str, r)) for r in rows[:10]], "spec_rows": s_line[:700], "sql": sql[-900:]})
            continue                              # rejected with an error: allowed
        if err is not None:
            stats["impl_error"] += 1
            c.violation("multi-model query fails: %s: %s" % (type(err).__name__, str(err)[:150]), {"kind": "case", "forest": f, "query": q, "error": str(err)[:600]})
            continue
        stats["compared"] += 1
        if i % 2 == 0 and len(slots.split(",")) > 1:
            from harness import dbutil
            try:
                again = real_after_edit(f, q)
            except Exception as e:
                again = "error: %s" % str(e)[:200]
            if again is not None:
                stats["edited"] = stats.get("edited", 0) + 1
                if isinstance(again, str) or dbutil.canon_rows(again) != dbutil.canon_rows(rows):
                    c.violation("after the relationship cardinalities were corrected in place (and the adjacency rebuilt), the query returns other rows than on a layer declared that way from the start",
                                {"kind": "edited", "forest": f, "query": q, "fresh_rows": [list(map(str, r)) for r in rows[:10]], "rows_after_edit": again if isinstance(again, str) else [list(map(str, r)) for r in again[:10]]})
                    continue
        srows, mrows = sg.parse_show(s_line), sg.parse_show(m_line)
        # known-finding classes, per metric column
        exempt_spec, exempt_model, kinds = set(), set(), set()
        for j, fl in enumerate(flags):
            sym, safe, hasnull = fl[0] == "1", fl[1] == "1", fl[2] == "1"
            agg = q["mets"][j][1]
            stats["symmetric"] += sym
            if (not sym) and (not safe) and agg in ("sum", "avg", "count", "median"):
                exempt_spec.add(j)
                kinds.add("C02-K1")
            if sym and agg in ("sum", "avg", "count") and hasnull:
                exempt_spec.add(j)
                kinds.add("C02-K2")
                if agg in ("sum", "avg"):
                    exempt_model.add(j)           # the value depends on the real hash
        shadow_srows = None
        if i in shadow and outs is not None and sg.unquote(outs[shadow[i]]).startswith("OK#"):
            _, sh_m, sh_s, _, _ = sg.unquote(outs[shadow[i]]).split("#")
            if sh_m != "REJECTED":
                mrows, shadow_srows = sg.parse_show(sh_m), sg.parse_show(sh_s)
        if not compare(q, rows, mrows, exempt_model):
            fid_bad.append({"forest": f, "query": q, "model": m_line[:400], "impl": [list(map(str, r)) for r in rows[:8]], "sql": sql[-700:]})
        if compare(q, rows, srows, set()):
            pass
        elif shadow_srows is not None and c.is_open("C02-K4") and (compare(q, rows, shadow_srows, set()) or (compare(q, rows, shadow_srows, exempt_spec) and all(c.is_open(k) for k in kinds))):
            c.known("C02-K4")             # exactly the rows of the query whose dimension is the raw key column: nothing else is excused
            stats["k4"] = stats.get("k4", 0) + 1
        elif compare(q, rows, srows, exempt_spec) and all(c.is_open(k) for k in kinds):
            for k in kinds:
                c.known(k)
                stats["k1" if k == "C02-K1" else "k2"] += 1
        else:
            c.violation("a metric's value in a joined query differs from its aggregation over the distinct connected rows of its own model",
                        {"kind": "case", "forest": f, "query": q, "impl_rows": [list(map(str, r)) for r in rows[:10]], "spec_rows": s_line[:700], "flags": flags, "sql": sql[-900:]})
        if len(rows) > 1 and len(slots.split(",")) > 1:
            nontrivial += 1
        if len(c.samples) < 3 and len(slots.split(",")) > 2:
            c.samples.append({"models": [(m["name"], m["rels"], len(m["rows"])) for m in f["models"]], "query": q, "slots": slots, "impl_rows": [list(map(str, r)) for r in rows[:4]]})
    if outs is not None:
        c.obligation("correspondence: Model/Plan+Join == compile()+DuckDB on %d forests/queries" % len(cases), not fid_bad, "correspondence", json.dumps(fid_bad[:1], default=str)[:1800])
    c.obligation("oracle: every metric == aggregation over the distinct connected rows of its model (outside the listed finding classes)", not c.violations, "correspondence")
    witness_k3(c)
    c.coverage.update({"evaluations": len(cases), "distinct_nontrivial": nontrivial,
                       "rule": "random forests of 2-5 models (m2o / o2m / o2o declared on either side, composite keys, NULL / dangling FKs, NULL measures, 0-6 rows per table) x queries with "
                               "0-2 dimensions, 1-3 metrics (sum/count/count_distinct/avg/min/max/median, optional filters) and 0-2 single-model filters spread over any models; "
                               "non-trivial = joined query returning more than one row", "traces_validated_against_impl": stats["compared"], "distribution": stats, "exhaustive": False})


def witness_k3(c):
    """C02-K3: DOUBLE measure under the symmetric SUM (implementation only; the model has exact integers)"""
    if not c.is_open("C02-K3"):
        return
    from sidemantic import Dimension, Metric, Model, Relationship
    from harness import dbutil
    L = dbutil.fresh_layer()
    L.conn.execute("create table cu(id bigint, bal double)")
    L.conn.execute("insert into cu values (1, 100.5), (2, 50.25)")
    L.conn.execute("create table od(id bigint, cu_id bigint, st varchar)")
    L.conn.execute("insert into od values (1,1,'a'),(2,1,'b'),(3,2,'a')")
    L.add_model(Model(name="cu", table="cu", primary_key="id", relationships=[Relationship(name="od", type="one_to_many", foreign_key="cu_id")], metrics=[Metric(name="tb", agg="sum", sql="bal")]))
    L.add_model(Model(name="od", table="od", primary_key="id", dimensions=[Dimension(name="st", type="categorical")], metrics=[Metric(name="n", agg="count")]))
    rows = L.conn.execute(L.compile(metrics=["cu.tb"], dimensions=[], filters=["od.st <> 'zz'"])).fetchall()
    if abs(float(rows[0][0]) - 150.75) > 1e-6:
        c.known("C02-K3")


def replay(path):
    body = json.load(open(path))
    r = body["replay"]
    f, q = r["forest"], r["query"]
    q["dims"] = [(m, sg_t(e)) for m, e in q["dims"]]
    q["mets"] = [(m, a, sg_t(e) if e else None, [sg_t(x) for x in fl]) for m, a, e, fl in q["mets"]]
    q["filters"] = [(m, sg_t(e)) for m, e in q["filters"]]
    out = sg.unquote(lib.coq_eval("c02_replay", PREAMBLE, [coq_term(f, q)])[0])
    print(out[:1500])
    try:
        cols, rows, sql = real(f, q)
    except Exception as e:
        print("impl error:", e)
        return 1
    print(sql)
    print(rows)
    if r.get("kind") == "edited":
        from harness import dbutil
        again = real_after_edit(f, q)
        print("after the edit history:", again)
        return 0 if again is None or dbutil.canon_rows(again) == dbutil.canon_rows(rows) else 1
    if not out.startswith("OK#"):
        return 0
    _, m_line, s_line, flags, slots = out.split("#")
    return 0 if compare(q, rows, sg.parse_show(s_line), set()) else 1


def sg_t(e):
    from harness.props.c01 import _t
    return _t(e)
