"""C03 — a metric's value does not depend on its companions in the query.

Proof:  Props/C03.v (two-way FULL OUTER JOIN of key-unique sub-results = union of groups, each once, values preserved; 3-way refuted).
Tie:    forests x queries with metrics of >= 2 models: the real joint query vs Model/MultiFact.v evaluated inside Coq.
Oracle: (the property's own observation) the FULL OUTER JOIN, computed by the harness, of the IMPLEMENTATION'S single-metric
        results for the same dimensions and filters.
"""
import json
import warnings

from harness import joingen as jg, lib, semgen as sg
from harness.props import c02

warnings.filterwarnings("ignore")

PREAMBLE = c02.PREAMBLE.replace("V.Model.Plan V.Proofs.C02_proofs.", "V.Model.Plan V.Model.MultiFact V.Proofs.C02_proofs.") + """
Definition gomf (ms : list pmodel) (q : pquery) : string :=
  match run_multifact hinj ms q with
  | MfRows rows => "ROWS#" ++ show rows ++ "#" ++ String.concat "," (metric_models q)
  | MfRejected => "REJECTED" | MfUnbound => "UNBOUND" | MfNotMultiFact => "NOTMF" end.
"""


def gen_query(rnd, f):
    names = [m["name"] for m in f["models"]]
    q = c02.gen_query(rnd, f, single_metric_model=False)
    # force metrics of at least two different models
    if len({m for m, *_ in q["mets"]}) < 2 and len(names) >= 2:
        other = rnd.choice([n for n in names if n != q["mets"][0][0]])
        q["mets"].append((other, rnd.choice(["sum", "count", "min", "max", "count_distinct"]), None if rnd.random() < 0.3 else jg.jcol("c0"), []))
        if q["mets"][-1][1] in ("sum", "min", "max") and q["mets"][-1][2] is None:
            q["mets"][-1] = (other, "count", None, [])
    if rnd.random() < 0.6:
        q["filters"] = []
    return q


def gen_straddle_case(rnd):
    """targeted family: metrics of two models separated by a many_to_one hop (the multi-fact form), grouped by ONE time dimension at week
    AND month / quarter / year, on data where one ISO week lies in two months (column values 0, 1 -> January, 2 -> February, same week): the
    groups are the distinct (week, month) pairs and every sub-result must be matched on BOTH columns"""
    for _ in range(60):
        f = jg.gen_forest(rnd, nmodels=rnd.randint(2, 3))
        links = [(c, p) for (c, p, ty, comp) in f["links"] if ty == "m2o" and len(f["models"][c]["rows"]) >= 3 and len(f["models"][p]["rows"]) >= 2]
        if not links:
            continue
        c, p = rnd.choice(links)
        child, parent = f["models"][c], f["models"][p]
        for m in (child, parent):
            for i, r in enumerate(m["rows"]):
                r[jg.CI["c1"]] = [0, 2, 1, 2, None, 0][i % 6]
        tm = rnd.choice([child, parent])["name"]
        grans = ["week", rnd.choice(["month", "month", "quarter", "year"])]
        rnd.shuffle(grans)
        dims = [(tm, jg.tdim2(g)) for g in grans]
        if rnd.random() < 0.3:
            dims.append((rnd.choice([child, parent])["name"], jg.jcol("s0")))
        mets = [(child["name"], rnd.choice(["sum", "count", "max"]), jg.jcol("c0"), []), (parent["name"], rnd.choice(["sum", "count", "min"]), jg.jcol("c0"), [])]
        return f, dict(dims=dims, mets=mets, filters=[])
    f = jg.gen_forest(rnd, nmodels=2)
    return f, gen_query(rnd, f)


def gen_extension_case(rnd):
    """targeted family: an EXTENSION table -- a model keyed by its own foreign key (shipments keyed by order id), declared many_to_one on the
    extension side, with parent rows that have no extension row and extension rows whose parent is missing; metrics of both models, dimensions
    of neither or of one side only"""
    f = jg.gen_forest(rnd, nmodels=2, allow_m2m=False)
    parent, ext = f["models"][0], f["models"][1]
    parent["composite"], ext["composite"] = False, False
    parent.pop("pk", None)
    parent["rels"], ext["rels"] = [], [dict(name=parent["name"], type="many_to_one", foreign_key="fk_a")]
    ext["pk"] = "fk_a"
    parent["rows"] = [[r + 1, "k%d" % (r + 1), rnd.choice([None, 1, 2, 5, 10]), rnd.choice([None, 0, 1, 2]), rnd.choice([None, "a", "a", "b"]), None, None] for r in range(rnd.choice([3, 4, 6]))]
    keys = rnd.sample(range(1, len(parent["rows"]) + 1), rnd.randint(1, len(parent["rows"]) - 1)) + rnd.sample([97, 98, 99], rnd.randint(0, 2))
    ext["rows"] = [[i + 1, "k%d" % (i + 1), rnd.choice([None, 1, 2, 5, 10]), rnd.choice([None, 0, 1, 2]), rnd.choice([None, "a", "b", "b"]), k, "k%d" % k] for i, k in enumerate(keys)]
    f["links"] = [(1, 0, "m2o", False)]
    dims = rnd.choice([[], [], [(parent["name"], jg.jcol("s0"))], [(ext["name"], jg.jcol("s0"))]])
    mets = [(parent["name"], rnd.choice(["sum", "count", "max"]), jg.jcol("c0"), []), (ext["name"], rnd.choice(["sum", "count", "min"]), jg.jcol("c0"), [])]
    if rnd.random() < 0.5:
        mets.reverse()
    return f, dict(dims=dims, mets=mets, filters=[])


def gen_long_chain_case(rnd):
    """targeted family: two metric models SIX relationships apart -- two chains of three many_to_one hops that meet in a shared root (l0 -> l1 -> l2 -> root <- r2 <- r1 <- r0),
    several rows per parent on every hop -- with a dimension of the root or of a model half way: the metrics of the two ends fan each other out through the root, so the
    joint query must take the multi-fact form however long the path between them is"""
    names = ["l0", "l1", "l2", "root", "r2", "r1", "r0"]
    models = [dict(name=x, composite=False, rels=[], rows=[]) for x in names]
    links = [(0, 1, "m2o", False), (1, 2, "m2o", False), (2, 3, "m2o", False), (4, 3, "m2o", False), (5, 4, "m2o", False), (6, 5, "m2o", False)]
    for ci, pi, _, _ in links:
        models[ci]["rels"].append(dict(name=names[pi], type="many_to_one", foreign_key="fk_a"))
    parent_of = {ci: pi for ci, pi, _, _ in links}
    sizes = {3: 2, 2: 3, 4: 3, 1: 4, 5: 4, 0: 6, 6: 5}
    for i in (3, 2, 4, 1, 5, 0, 6):
        for r in range(sizes[i]):
            fk = None
            if i in parent_of:
                fk = (r % sizes[parent_of[i]]) + 1 if rnd.random() < 0.9 else None
            models[i]["rows"].append([r + 1, "k%d" % (r + 1), rnd.choice([1, 2, 5, 10, 3]), rnd.choice([0, 1, 2]), rnd.choice(["a", "b"]), fk, None if fk is None else "k%d" % fk])
    f = dict(models=models, links=links)
    dm = rnd.choice(["root", "root", "l2", "r2"])
    mets = [("l0", rnd.choice(["sum", "count"]), jg.jcol("c0"), []), ("r0", rnd.choice(["sum", "count"]), jg.jcol("c0"), [])]
    if rnd.random() < 0.5:
        mets.reverse()
    return f, dict(dims=[(dm, jg.jcol("s0"))], mets=mets, filters=[])


def default_time_family(c):
    """two related metric models that EACH declare a default time dimension, asked without naming any time dimension: the answer is the answer of the same query with the
    two default time dimensions written out at their default grains (C07's rule, applied once per metric model) -- one row per group, each metric with its own value"""
    import random
    from harness import dbutil
    rng = random.Random(c.seed * 47 + 14)          # a stream of its own
    n = 0
    for _ in range(6 if c.tier == "quick" else 60):
        f, q = gen_extension_case(rng)
        q = dict(q, dims=[d for d in q["dims"]][:1])
        dbm, mbm, drefs, mrefs = c02.field_names(q)
        names = [m["name"] for m in f["models"]]
        grains = {m: rng.choice(["month", "day", "year"]) for m in names}
        for m in names:
            dbm.setdefault(m, []).append(("dt_" + m, ("tdim", "day", 3)))          # a name of its own per model (like-named dimensions of two models are another subject)
        kw = {m: {"default_time_dimension": "dt_" + m, "default_grain": grains[m]} for m in names}
        try:
            L = jg.real_layer(f, mbm, dbm, extra_model_kw=kw)
            implicit = L.conn.execute(L.compile(metrics=mrefs, dimensions=drefs)).fetchall()
            explicit = L.conn.execute(L.compile(metrics=mrefs, dimensions=drefs + ["%s.dt_%s__%s" % (m, m, grains[m]) for m in sorted({r.split(".")[0] for r in mrefs}, key=[r.split(".")[0] for r in mrefs].index)])).fetchall()
        except Exception as e:
            c.violation("a query over two models with default time dimensions fails: %s" % str(e)[:160], {"kind": "default_time", "forest": f, "query": q, "grains": grains})
            continue
        n += 1
        a, b = dbutil.canon_rows(jg.canon_times(implicit)), dbutil.canon_rows(jg.canon_times(explicit))
        if sorted(map(sorted_key, a)) != sorted(map(sorted_key, b)):
            c.violation("metrics of two models that each declare a default time dimension: the query without a time dimension is not the query with both defaults written out",
                        {"kind": "default_time", "forest": f, "query": q, "grains": grains, "implicit_rows": [list(map(str, r)) for r in a[:10]], "explicit_rows": [list(map(str, r)) for r in b[:10]]})
    return n


def sorted_key(row):
    return tuple(sorted(str(x) for x in row))


def fill_family(c):
    """simple measures that declare fill_nulls_with, of two models, over groups in which one of them has no rows (an extension table with unmatched rows on both
    sides): whatever a measure shows for such a group next to its companion is what it shows for it alone"""
    import random
    rng = random.Random(c.seed * 31 + 6)          # a stream of its own
    n = 0
    for _ in range(8 if c.tier == "quick" else 80):
        f, q = gen_extension_case(rng)
        q["mets"] = [(m, rng.choice(["sum", "max", "min", "avg"]), e, fl) for (m, a, e, fl) in q["mets"]]
        dbm, mbm, drefs, mrefs = c02.field_names(q)
        try:
            for m, lst in mbm.items():
                for (mn, a, e, fl) in lst:
                    jg.METRIC_KW[(m, mn)] = {"fill_nulls_with": rng.choice([0, 0, -1, 7])}
            ok, detail = joint_vs_alone(f, q)
        except Exception as e:
            ok, detail = False, "error: %s" % str(e)[:200]
        finally:
            fills = {"%s.%s" % k: v for k, v in jg.METRIC_KW.items()}
            jg.METRIC_KW.clear()
        n += 1
        if not ok:
            c.violation("a measure with fill_nulls_with shows another value next to a companion of another model than alone", {"kind": "fill", "forest": f, "query": q, "fills": fills, "detail": str(detail)[:900]})
    return n


def run_impl(f, q, metric_idx=None, extra_filters=(), **kw):
    """joint query (metric_idx None) or the query with only metric number metric_idx; returns {colname: ...} rows as dicts"""
    dbm, mbm, drefs, mrefs = c02.field_names(q)
    L = jg.real_layer(f, mbm, dbm)
    mr = mrefs if metric_idx is None else [mrefs[metric_idx]]
    sql = L.compile(metrics=mr, dimensions=drefs, filters=[jg.jsql(e, m + ".") for m, e in q["filters"]] + list(extra_filters), **kw)
    cur = L.conn.execute(sql)
    cols = [d[0] for d in cur.description]
    return cols, jg.canon_times(cur.fetchall()), sql


def as_map(q, cols, rows):
    """rows -> {dimension tuple: {metric name: value}} ; None if some group appears twice"""
    nd = len(q["dims"])
    dn = [jg.dim_col(i, e) for i, (_, e) in enumerate(q["dims"])]
    out = {}
    for r in rows:
        d = dict(zip(cols, r))
        k = tuple(d[x] for x in dn)
        if k in out:
            return None
        out[k] = {c: v for c, v in d.items() if c not in dn}
    return out


def values_equal(a, b):
    import decimal
    if a is None or b is None:
        return a is None and b is None
    if isinstance(a, decimal.Decimal):
        a = float(a)
    if isinstance(b, decimal.Decimal):
        b = float(b)
    if isinstance(a, (int, float)) and isinstance(b, (int, float)):
        return abs(float(a) - float(b)) <= 1e-9 * max(1.0, abs(float(a)))
    return a == b


def joint_vs_alone(f, q):
    """the property's observation on one case: the joint query against the full outer join of the single-metric queries.  -> (ok, detail)"""
    alone = []
    for j in range(len(q["mets"])):
        cols, rows, _ = run_impl(f, q, j)
        a = as_map(q, cols, rows)
        if a is None:
            return True, "a single-metric query has duplicate groups (outside this comparison)"
        alone.append(a)
    cols, rows, sql = run_impl(f, q)
    joint = as_map(q, cols, rows)
    expected = {}
    for j, a in enumerate(alone):
        for k, vals in a.items():
            expected.setdefault(k, {})["m%d" % j] = vals["m%d" % j]
    ok = joint is not None and set(joint) == set(expected) and all(values_equal(joint[k].get("m%d" % j), expected[k].get("m%d" % j)) for k in expected for j in range(len(q["mets"])))
    return ok, {"joint_rows": [list(map(str, r)) for r in rows[:12]], "expected": {str(k): v for k, v in list(expected.items())[:12]}, "sql": sql[-900:]}


def slice_checks(c, f, q, rnd, stats):
    """ORDER BY / LIMIT / OFFSET and filters over a metric's VALUE on a joint query whose plain result already agrees with the
    single-metric results: the sliced result must be the slice (and the value-filtered result the filtered rows) of that result.
    Expected rows are derived from the implementation's own unsliced, unfiltered joint result."""
    import decimal
    dbm, mbm, drefs, mrefs = c02.field_names(q)
    if not drefs:
        return
    try:
        cols, full, _ = run_impl(f, q, order_by=drefs)
    except Exception:
        return
    if len(full) < 2:
        return
    nd = len(drefs)
    key = lambda r: tuple(r[:nd])
    if len({key(r) for r in full}) != len(full):
        return
    variants = []
    k = rnd.randint(1, max(1, len(full) - 1))
    o = rnd.choice([0, 0, 1, 2])
    variants.append(("limit", dict(order_by=drefs, limit=k), (), full[:k]))
    variants.append(("limit+offset", dict(order_by=drefs, limit=k, offset=o), (), full[o:o + k]))
    # a filter over one metric's value (applied after aggregation): keep the groups whose value passes
    j = rnd.randrange(len(mrefs))
    mname = "m%d" % j
    vals = sorted(float(r[cols.index(mname)]) for r in full if r[cols.index(mname)] is not None)
    if vals and max(abs(v) for v in vals) < 2 ** 53:      # beyond 2^53 (the garbled symmetric sums of C02-K2) a float threshold is not the value the database compares with
        thr = vals[len(vals) // 2]
        thr_txt = repr(int(thr)) if float(thr).is_integer() else repr(thr)
        op = rnd.choice([">=", "<", ">"])
        import operator
        pyop = {">=": operator.ge, "<": operator.lt, ">": operator.gt}[op]
        keep = [r for r in full if r[cols.index(mname)] is not None and pyop(float(r[cols.index(mname)]), thr)]
        flt = "%s %s %s" % (mrefs[j], op, thr_txt)
        variants.append(("value filter", dict(order_by=drefs), (flt,), keep))
        if keep:
            kk = rnd.randint(1, len(keep))
            variants.append(("value filter+limit", dict(order_by=drefs, limit=kk), (flt,), keep[:kk]))
    for what, kw, extra, want in variants:
        stats["slices"] += 1
        try:
            cols2, got, sql = run_impl(f, q, extra_filters=extra, **kw)
            err = None
        except Exception as e:
            got, sql, err = [], "", e
        same = err is None and cols2 == cols and len(got) == len(want) and all(
            len(a) == len(b) and all(values_equal(x, y) for x, y in zip(a, b)) for a, b in zip(got, want))
        if not same:
            c.violation("joint query with %s is not the corresponding part of the joint result%s" % (what, (" (%s)" % str(err)[:150]) if err else ""),
                        {"kind": "slice", "forest": f, "query": q, "variant": what, "kw": kw, "extra_filters": list(extra),
                         "got": [list(map(str, r)) for r in got[:10]], "want": [list(map(str, r)) for r in want[:10]], "sql": sql[-1200:]})


def run(c):
    c.trusted += ["modelled, not verified: Model/MultiFact.v (sub-query per metric model, FULL OUTER JOIN chain on the first sub-query, COALESCE, filter partitioning) hand-written; sub-queries reuse Model/Plan.v + Model/Join.v",
                  "oracle = the implementation's own single-metric results combined by a harness-side full outer join (as the property prescribes)"]
    try:
        import os
        from translator import gen_multifact
        lib.write_if_changed(os.path.join(lib.COQ, "Gen", "MultiFact_gen.v"), gen_multifact.generate(lib.REPO))
        c.obligation("translator: verdict table of _needs_preaggregation_for_fanout (2744 scripted scenarios) regenerated", True, "translator")
        same = gen_multifact.table(lib.REPO) == gen_multifact.table(lib.REPO, real=True)
        c.obligation("translator validation: interpreted _needs_preaggregation_for_fanout == the real method under CPython on the same scenarios", same, "translator")
    except Exception as e:
        c.obligation("translator: verdict table of _needs_preaggregation_for_fanout regenerated", False, "translator", repr(e)[-900:])
    c.trusted.append("translator/pyinterp.py + gen_multifact.py (fail-closed definitional interpreter; validated against CPython each run)")
    try:
        from translator import gen_mfshape
        lib.write_if_changed(os.path.join(lib.COQ, "Gen", "MultiFactShape_gen.v"), gen_mfshape.generate(lib.REPO))
        c.obligation("translator: structure of the multi-fact statement (_generate_with_preaggregation, 260 scripted queries) regenerated", True, "translator")
        same = gen_mfshape.table(lib.REPO) == gen_mfshape.table(lib.REPO, real=True)
        c.obligation("translator validation: interpreted _generate_with_preaggregation == the real method under CPython on the same scripted queries", same, "translator")
    except Exception as e:
        c.obligation("translator: structure of the multi-fact statement regenerated", False, "translator", repr(e)[-900:])
    c.trusted.append("gen_mfshape.py: generate(), segment resolution, filter classification, sqlglot's constructors and the instrumentation comment are scripted; the text -> structure parser (regular expressions) is trusted")
    c.build_props()
    n = 160 if c.tier == "quick" else 2500
    cases = []
    while len(cases) < n:
        f = jg.gen_forest(c.rng, nmodels=c.rng.randint(2, 4))
        cases.append((f, gen_query(c.rng, f)))
    cases += [gen_straddle_case(c.rng) for _ in range(max(8, n // 8))]
    cases += [gen_extension_case(c.rng) for _ in range(max(8, n // 10))]
    import random as _random
    rng_long = _random.Random(c.seed * 3 + 33)          # a stream of its own: the cases above stay what they were
    cases += [gen_long_chain_case(rng_long) for _ in range(max(4, n // 40))]
    # every fourth case under model names that contain one another (items / line_items / order_line_items / itemsx / items_raw)
    cases = [jg.rename_case(f_, q_) if k_ % 4 == 1 else (f_, q_) for k_, (f_, q_) in enumerate(cases)]
    cf = jg.corpus_forest()
    cases[:0] = [
        (cf, dict(dims=[], mets=[("ma", "count", None, []), ("mb", "sum", jg.jcol("c0"), [])], filters=[("mb", ("cmp", "=", jg.jcol("s0"), sg.lit("a")))])),   # K1
        (cf, dict(dims=[], mets=[("ma", "count", None, []), ("mb", "sum", jg.jcol("c0"), [])], filters=[("mc", ("cmp", "=", jg.jcol("s0"), sg.lit("p")))])),   # K2
        (cf, dict(dims=[], mets=[("ma", "count", None, []), ("mc", "count", None, [])], filters=[])),                                                          # K4
        (cf, dict(dims=[("ma", jg.jcol("s0"))], mets=[("ma", "count", None, []), ("mb", "sum", jg.jcol("c0"), [])], filters=[])),                              # a plain two-model multi-fact query
    ]
    outs = None
    if lib.coq_make(["Model/MultiFact.vo", "Proofs/C02_proofs.vo"])[0]:
        try:
            outs = lib.coq_eval("c03_cases", PREAMBLE, ["gomf " + c02.coq_term(f, q)[3:] for f, q in cases], chunk=30)
        except RuntimeError as e:
            c.obligation("model evaluation", False, "correspondence", str(e)[-1500:])
    fid_bad, stats = [], {"multifact": 0, "single_path": 0, "k1": 0, "k2": 0, "k4": 0, "joint_errors_allowed": 0, "compared": 0, "slices": 0}
    nontrivial = 0
    for i, (f, q) in enumerate(cases):
        out = sg.unquote(outs[i]) if outs is not None else None
        is_mf = out is not None and out != "NOTMF"
        stats["multifact" if is_mf else "single_path"] += 1
        metric_models = []
        for m, *_ in q["mets"]:
            if m not in metric_models:
                metric_models.append(m)
        # the property's observation: every metric alone
        alone, alone_err = [], False
        for j in range(len(q["mets"])):
            try:
                cols, rows, _ = run_impl(f, q, j)
                alone.append(as_map(q, cols, rows))
            except Exception:
                alone_err = True
                alone.append(None)
        try:
            cols, rows, sql = run_impl(f, q)
            joint = as_map(q, cols, rows)
            jerr = None
        except Exception as e:
            joint, rows, sql, jerr = None, [], "", e
        # known-finding classes (multi-fact only)
        kinds = set()
        if is_mf:
            if any(fm in metric_models for fm, _ in q["filters"]):
                kinds.add("C03-K1")
            if any(fm not in metric_models for fm, _ in q["filters"]):
                kinds.add("C03-K2")
        elif len(metric_models) >= 2:
            kinds.add("C03-K4")
        # fidelity of the model
        if is_mf and out is not None:
            if out in ("REJECTED", "UNBOUND"):
                if jerr is None:
                    fid_bad.append({"forest": f, "query": q, "model": out, "impl": "returned rows"})
            elif jerr is not None:
                fid_bad.append({"forest": f, "query": q, "model": "rows", "impl": str(jerr)[:300]})
            else:
                _, m_line, order = out.split("#")
                mrows = sg.parse_show(m_line)
                # model metric columns are grouped by model in `order`
                names = [("m%d" % j) for mm in order.split(",") for j, (m, *_r) in enumerate(q["mets"]) if m == mm]
                nd = len(q["dims"])
                impl_rows = [tuple(dict(zip(cols, r))[jg.dim_col(k, q["dims"][k][1])] for k in range(nd)) + tuple(dict(zip(cols, r))[nm] for nm in names) for r in rows]
                q2 = dict(q, mets=[q["mets"][int(nm[1:])] for nm in names])
                exempt = {jj for jj, nm in enumerate(names) if q2["mets"][jj][1] in ("sum", "avg")}   # hash-dependent values under K2 stay exempt
                if not c02.compare(q2, impl_rows, mrows, exempt if False else set()) and not c02.compare(q2, impl_rows, mrows, exempt):
                    fid_bad.append({"forest": f, "query": q, "model": m_line[:400], "impl": [list(map(str, r)) for r in impl_rows[:8]], "sql": sql[-600:]})
        # property oracle
        if alone_err or any(a is None for a in alone):
            if jerr is None and not alone_err:
                pass
            continue              # a single-metric query itself fails or has duplicate groups: nothing to compare against (other properties' subject)
        expected = {}
        for j, a in enumerate(alone):
            for k, vals in a.items():
                expected.setdefault(k, {})["m%d" % j] = vals["m%d" % j]
        ok = jerr is None and joint is not None and set(joint) == set(expected) and all(
            values_equal(joint[k].get("m%d" % j), expected[k].get("m%d" % j)) for k in expected for j in range(len(q["mets"])))
        stats["compared"] += 1
        if ok:
            if len(expected) > 1:
                nontrivial += 1
            if is_mf and not q["filters"]:
                slice_checks(c, f, q, c.rng, stats)
        elif kinds and all(c.is_open(k) for k in kinds):
            for k in kinds:
                c.known(k)
                stats[k[-2:].lower()] += 1
        else:
            c.violation("querying metrics together changes, duplicates or drops values compared with querying each alone" + (" (joint query fails: %s)" % str(jerr)[:120] if jerr else ""),
                        {"kind": "case", "forest": f, "query": q, "joint_rows": [list(map(str, r)) for r in rows[:10]], "expected": {str(k): v for k, v in list(expected.items())[:10]}, "sql": sql[-900:], "multifact": is_mf})
        if len(c.samples) < 3 and is_mf and ok and len(expected) > 1:
            c.samples.append({"models": [(m["name"], m["rels"], len(m["rows"])) for m in f["models"]], "query": q, "joint_rows": [list(map(str, r)) for r in rows[:4]]})
    if outs is not None:
        c.obligation("correspondence: Model/MultiFact == joint compile()+DuckDB on the %d multi-fact cases" % stats["multifact"], not fid_bad, "correspondence", json.dumps(fid_bad[:1], default=str)[:1800])
    c.obligation("oracle: joint result == full outer join of the implementation's single-metric results (%d cases); ORDER BY/LIMIT/OFFSET and metric-value filters on a joint query "
                 "return the corresponding part of it (%d sliced / filtered queries)" % (stats["compared"], stats["slices"]), not c.violations, "correspondence")
    stats["fill_cases"] = fill_family(c)
    stats["default_time_cases"] = default_time_family(c)
    c.coverage.update({"evaluations": len(cases) + stats["fill_cases"], "distinct_nontrivial": nontrivial,
                       "rule": "forests of 2-4 models x queries with metrics of >= 2 models, 0-2 dimensions on any model, filters on metric and non-metric models in 40% of the cases; "
                               "non-trivial = joint result agrees with the single-metric results on more than one group", "traces_validated_against_impl": stats["compared"], "distribution": stats, "exhaustive": False})


def replay(path):
    body = json.load(open(path))
    r = body["replay"]
    f, q = r["forest"], r["query"]
    q["dims"] = [(m, c02.sg_t(e)) for m, e in q["dims"]]
    q["mets"] = [(m, a, c02.sg_t(e) if e else None, [c02.sg_t(x) for x in fl]) for m, a, e, fl in q["mets"]]
    q["filters"] = [(m, c02.sg_t(e)) for m, e in q["filters"]]
    if r.get("kind") == "slice":
        cols, got, sql = run_impl(f, q, extra_filters=r["extra_filters"], **r["kw"])
        print(sql)
        print("got ", [list(map(str, x)) for x in got[:10]])
        print("want", r["want"])
        return 0 if [list(map(str, x)) for x in got[:10]] == r["want"] else 1
    try:
        cols, rows, sql = run_impl(f, q)
        print(sql)
        print(cols, rows)
        joint = as_map(q, cols, rows)
    except Exception as e:
        print("joint query fails:", e)
        return 1
    exp = {}
    for j in range(len(q["mets"])):
        cols, rows, _ = run_impl(f, q, j)
        print("alone m%d:" % j, rows)
        for k, v in as_map(q, cols, rows).items():
            exp.setdefault(k, {})["m%d" % j] = v["m%d" % j]
    ok = joint is not None and set(joint) == set(exp) and all(values_equal(joint[k].get(m), exp[k].get(m)) for k in exp for m in ["m%d" % j for j in range(len(q["mets"]))])
    return 0 if ok else 1
