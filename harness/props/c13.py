"""C13 — directory loading detects each file's format consistently.

Proof:  Props/C13.v (detection depends only on the file's own suffix and markers; a signature passing the finite check is detected for
        every sub-list of its optional markers; generated obligation over the signatures measured on this run; merge is order-free for
        distinct model names).
Ties:   translator/gen_detect.py regenerates the decision tree from loaders.py; it is validated by running the REAL cascade on synthetic
        files holding random marker subsets (adapters patched to report which one was chosen) against `detect` evaluated in Coq.
Oracle: directories assembled from exporter outputs and shipped fixture files of several formats, in different layouts: every file whose
        own adapter extracts models must be handled by that adapter and contribute exactly those models, whatever lies next to it.
Partial: signatures are measured, not derived from the exporters; the SML-repository short-circuit and python files are exercised only.
"""
import importlib
import json
import logging
import os
import shutil
import tempfile
import warnings

from harness import lib, semgen as sg
from harness.props import c12

warnings.filterwarnings("ignore")
LOADER_NAME = {"cube": "Cube", "metricflow": "MetricFlow", "lookml": "LookML", "hex": "Hex", "rill": "Rill", "superset": "Superset", "omni": "Omni", "bsl": "BSL", "gooddata": "GoodData",
               "snowflake": "Snowflake", "malloy": "Malloy", "osi": "OSI", "thoughtspot": "ThoughtSpot", "holistics": "Holistics", "sidemantic": "Sidemantic"}
FEATS = [("agg", "sum"), ("agg", "count_distinct"), ("filtered", None), ("dim_type", "boolean"), ("composite_pk", None), ("sql_model", None), ("relationship", "one_to_many"), ("segment", None), ("count_star", None), ("dims_only_single", None), ("user_text", "regex_class")]
PREAMBLE = "From Coq Require Import String List Bool.\nRequire Import V.Model.Loader V.Gen.Detect_gen.\nImport ListNotations.\nOpen Scope string_scope.\n" \
           "Definition so (o : option string) : string := match o with Some s => s | None => \"-\" end.\n"


def adapter_cls(key):
    if key == "sidemantic":
        from sidemantic.adapters.sidemantic import SidemanticAdapter
        return SidemanticAdapter
    return c12.adapter(key)


def export_files(key, feat, root):
    """export the cell's graph with the adapter into a fresh directory under root; -> list of file paths"""
    d = tempfile.mkdtemp(prefix="x_", dir=root)
    suf = ".yml" if key == "sidemantic" else c12.ADAPTERS[key][1]
    out = os.path.join(d, "out" + suf) if suf else os.path.join(d, "out")
    if feat[0] == "dims_only_single":
        # one model per file, and the model has dimensions only (a lookup table): the file holds no measure / metric section
        from sidemantic import Dimension, Model
        g = c12.layer_with([Model(name="lookup_t", table="customers", primary_key="id", dimensions=[Dimension(name="region", type="categorical")])]).graph
    else:
        g = c12.layer_with(c12.base_models(*feat)).graph
    adapter_cls(key)().export(g, out)
    return [os.path.join(r, f) for r, _, fs in os.walk(d) for f in fs]


def measure_signatures(c, markers, root):
    """per (adapter, suffix): the marker sets observed in the exported files from which the format's own adapter extracts valid models"""
    sig = {}
    for key in LOADER_NAME:
        if key == "atscale_sml":
            continue
        for feat in FEATS:
            try:
                files = export_files(key, feat, root)
            except Exception:
                continue
            for fp in files:
                if not own_models(key, fp):
                    continue
                text = open(fp, errors="replace").read()
                present = tuple(sorted(m for m in markers if m in text))
                if listed_class(c, key, feat):
                    continue
                sig.setdefault((key, os.path.splitext(fp)[1].lower()), set()).add(present)
    return [("%s%s" % (key, suffix), suffix, sorted(sets), LOADER_NAME[key]) for (key, suffix), sets in sorted(sig.items())]


def listed_class(c, key, feat):
    """known-finding classes of C13: sql-backed models written by the Hex / Omni exporters carry no marker the cascade looks for"""
    if not c.is_open("C13-%s" % key):
        return False
    return (feat[0] == "sql_model" and key == "omni") or (feat[0] == "dims_only_single" and key in ("hex", "omni", "superset"))


class Detected(Exception):
    pass


def real_detect(suffix, present, root):
    """run the real cascade on one synthetic file whose content holds exactly the markers in `present`; adapters are patched to report"""
    from sidemantic import SemanticLayer
    from sidemantic.loaders import load_from_directory
    d = tempfile.mkdtemp(prefix="s_", dir=root)
    with open(os.path.join(d, "f" + suffix), "w") as f:
        f.write("\n".join(present) + "\n")
    chosen = []
    mods = ["bsl", "cube", "gooddata", "hex", "lookml", "metricflow", "omni", "osi", "rill", "sidemantic", "snowflake", "superset", "thoughtspot", "yardstick", "malloy", "holistics"]
    saved = []
    try:
        for mn in mods:
            mod = importlib.import_module("sidemantic.adapters.%s" % mn)
            for name in dir(mod):
                cls = getattr(mod, name)
                if isinstance(cls, type) and name.endswith("Adapter") and cls.__module__ == mod.__name__ and "parse" in cls.__dict__:
                    saved.append((cls, cls.__dict__["parse"]))

                    def fake(self, path, _n=name):
                        chosen.append(_n.replace("Adapter", ""))
                        raise Detected(_n)
                    cls.parse = fake
        logging.disable(logging.CRITICAL)
        L = SemanticLayer(connection="duckdb:///:memory:", auto_register=False)
        load_from_directory(L, d)
    finally:
        for cls, fn in saved:
            cls.parse = fn
        logging.disable(logging.NOTSET)
        shutil.rmtree(d, ignore_errors=True)
    return chosen[0] if chosen else "-"


def run(c):
    from translator import gen_detect
    c.trusted += ["translator/gen_detect.py (fail-closed walk of the detection chain; validated against the real cascade on synthetic marker subsets each run)",
                  "the exporter signatures are MEASURED over the exporter x feature outputs of this run (C13_signatures is relative to them)",
                  "modelled, not verified: Model/Loader.v merge (dict update per file); relationship inference and registration after the merge are exercised end to end only"]
    root = tempfile.mkdtemp(prefix="c13_")
    try:
        gen_ok = True
        try:
            markers = gen_detect.markers(lib.REPO)
            sigs = measure_signatures(c, markers, root)
            lib.write_if_changed(os.path.join(lib.COQ, "Gen", "Detect_gen.v"), gen_detect.generate(lib.REPO, sigs))
            c.obligation("translator: Detect_gen regenerated (%d markers, %d measured file kinds)" % (len(markers), len(sigs)), True, "translator")
        except Exception as e:
            gen_ok, markers, sigs = False, [], []
            c.obligation("translator: Detect_gen regenerated", False, "translator", repr(e)[:800])
        built = gen_ok and c.build_props()
        evals = 0
        # translator validation on synthetic marker subsets
        if gen_ok and lib.coq_make(["Gen/Detect_gen.vo"])[0]:
            cases = []
            for suffix in (".yml", ".yaml", ".json", ".sql", ".lkml", ".tml", ".aml", ".malloy", ".txt"):
                pool = [m for m in markers if (m.startswith('"')) == (suffix == ".json")]
                for _ in range(14 if suffix in (".yml", ".json") else 2):
                    chosen = c.rng.sample(pool, c.rng.randint(0, min(5, len(pool))))
                    text = "\n".join(chosen)
                    cases.append((suffix, [m for m in markers if m in text]))           # closed under substring (e.g. "columns:" inside "worksheet_columns:")
            terms = ['so (detect detection_tree "%s" (fun m => mem m [%s]))' % (s, "; ".join('"%s"' % m.replace('"', '""') for m in pres)) for s, pres in cases]
            try:
                outs = lib.coq_eval("c13_tr", PREAMBLE, terms, chunk=100)
                bad = []
                for (s, pres), o in zip(cases, outs):
                    want = real_detect(s, pres, root)
                    got = sg.unquote(o)
                    if got != want and not (s == ".sql"):
                        bad.append((s, pres, got, want))
                c.obligation("translator: Gen/Detect_gen.detection_tree == the real cascade on %d synthetic (suffix, marker subset) files" % len(cases), not bad, "translator", repr(bad[:3]))
                evals += len(cases)
            except Exception as e:
                c.obligation("translator validation", False, "translator", repr(e)[-800:])
        # if the obligation over the signatures failed: name the file kinds
        if gen_ok and not built:
            try:
                outs = lib.coq_eval("c13_sig", PREAMBLE, ['map (fun sg => let \'(l, _, _, _) := sg in l) (filter (fun sg => negb (observed_ok detection_tree sg)) signatures)'])
                c.notes.append("file kinds not detected as their own format: " + outs[0][:300])
            except Exception:
                pass
        evals += e2e(c, root)
        c.obligation("oracle: every exported / shipped file is handled by its own format's adapter and contributes exactly its models, in every layout", not c.violations, "correspondence")
        c.coverage.update({"evaluations": evals, "distinct_nontrivial": c.coverage.get("files_checked", 0),
                           "rule": "directories assembled from the outputs of 14 exporters (9 features each) and from shipped fixture files, several formats side by side, two layouts (flat with shuffled names / nested); "
                                   "non-trivial = file whose own adapter extracts at least one model", "exhaustive": False})
    finally:
        shutil.rmtree(root, ignore_errors=True)


FIXTURE_DIRS = {"cube": "Cube", "metricflow": "MetricFlow", "lookml": "LookML", "hex": "Hex", "rill": "Rill", "superset": "Superset", "omni": "Omni", "bsl": "BSL", "gooddata": "GoodData",
                "snowflake": "Snowflake", "malloy": "Malloy", "osi": "OSI", "thoughtspot": "ThoughtSpot", "holistics": "Holistics", "sidemantic": "Sidemantic"}


def own_models(key, path):
    """models the format's own adapter extracts from one file (None when it fails or finds nothing valid)"""
    from sidemantic.validation import validate_model
    try:
        g = adapter_cls(key)().parse(path)
    except Exception:
        return None
    if any(validate_model(m) for m in g.models.values()):
        return None                    # some extracted model fails the layer's validation: outside the property's premise
    return list(g.models) or None


def e2e(c, root):
    from sidemantic import SemanticLayer
    from sidemantic.loaders import load_from_directory
    rng = c.rng
    pool = []          # (format key, source file path)
    for key in LOADER_NAME:
        if key == "atscale_sml":
            continue
        for feat in rng.sample(FEATS[:-1], 2) + [FEATS[-1]]:
            try:
                for fp in export_files(key, feat, root):
                    pool.append((key, fp, "exported-listed" if listed_class(c, key, feat) else "exported"))
            except Exception:
                pass
    fx = os.path.join(lib.REPO, "tests", "fixtures")
    for key in FIXTURE_DIRS:
        d = os.path.join(fx, key)
        if os.path.isdir(d):
            files = sorted(f for f in os.listdir(d) if os.path.isfile(os.path.join(d, f)))
            for f in rng.sample(files, min(len(files), 3 if c.tier == "quick" else 10)):
                pool.append((key, os.path.join(d, f), "fixture"))
    stats = {"files": 0, "with_models": 0, "directories": 0, "by_format": {}}
    rounds = 6 if c.tier == "quick" else 30
    checked = 0
    for r in range(rounds):
        picks = rng.sample(pool, min(len(pool), rng.randint(3, 8)))
        # avoid two files defining the same model name in one directory (later files overwrite earlier ones: not this check's subject)
        seen, chosen = set(), []
        for key, fp, origin in picks:
            names = own_models(key, fp)
            if names and not (set(names) & seen):
                seen |= set(names)
                chosen.append((key, fp, origin, names))
        if not chosen:
            continue
        for layout in ("flat", "nested", "under_hidden_parent"):
            if layout == "under_hidden_parent":
                # the directory that is loaded lies BELOW a hidden directory (~/.config/..., .worktrees/...): only names inside the loaded tree
                # may decide anything
                os.makedirs(os.path.join(root, ".projects", "node_modules"), exist_ok=True)
                d = tempfile.mkdtemp(prefix="d_", dir=os.path.join(root, ".projects", "node_modules"))
            else:
                d = tempfile.mkdtemp(prefix="d_", dir=root)
            placed = []
            for i, (key, fp, origin, names) in enumerate(chosen):
                sub = d if layout != "nested" else os.path.join(d, "z%d" % (len(chosen) - i), key)
                os.makedirs(sub, exist_ok=True)
                base = os.path.basename(fp)
                target = os.path.join(sub, base)          # file names are kept: some formats (Rill, Hex, ...) name the model after the file
                if os.path.exists(target):
                    continue
                shutil.copy(fp, target)
                placed.append((key, target, origin, names))
            stats["directories"] += 1
            logging.disable(logging.CRITICAL)
            try:
                L = SemanticLayer(connection="duckdb:///:memory:", auto_register=False)
                load_from_directory(L, d)
                err = None
            except Exception as e:
                err = e
            finally:
                logging.disable(logging.NOTSET)
            if err is not None:
                c.violation("loading a directory of exporter outputs / shipped files fails: %s" % str(err)[:140], {"kind": "dir", "files": [(k, os.path.basename(t), o) for k, t, o, _ in placed], "layout": layout})
                continue
            for key, target, origin, names in placed:
                stats["files"] += 1
                stats["with_models"] += 1
                stats["by_format"][key] = stats["by_format"].get(key, 0) + 1
                checked += 1
                for n in names:
                    m = L.graph.models.get(n)
                    fmt = getattr(m, "_source_format", None) if m is not None else None
                    if m is None or fmt != LOADER_NAME[key]:
                        fid = "C13-%s" % key
                        if c.is_open(fid) and origin == "exported-listed":
                            c.known(fid)
                            continue
                        c.violation("a %s file (%s) is not handled by its own adapter: model %s %s" % (key, origin, n, "is missing" if m is None else "was loaded as " + str(fmt)),
                                    {"kind": "file", "format": key, "origin": origin, "file": os.path.basename(target), "source": fp_rel(target, placed), "model": n, "loaded_as": fmt,
                                     "neighbours": [(k, os.path.basename(t)) for k, t, _, _ in placed], "layout": layout})
            shutil.rmtree(d, ignore_errors=True)
    # witnesses of the listed classes: the exporter's file of a sql-backed model, alone in a directory
    for key, wfeat, wmodel in (("omni", ("sql_model", None), "orders"), ("hex", ("dims_only_single", None), "lookup_t"), ("superset", ("dims_only_single", None), "lookup_t")):
        try:
            files = [fp for fp in export_files(key, wfeat, root) if wmodel in (own_models(key, fp) or [])]
            d = tempfile.mkdtemp(prefix="w_", dir=root)
            for fp in files:
                shutil.copy(fp, d)
            logging.disable(logging.CRITICAL)
            L = SemanticLayer(connection="duckdb:///:memory:", auto_register=False)
            load_from_directory(L, d)
            logging.disable(logging.NOTSET)
            m = L.graph.models.get(wmodel)
            if files and (m is None or getattr(m, "_source_format", None) != LOADER_NAME[key]):
                if c.is_open("C13-%s" % key):
                    c.known("C13-%s" % key)
                else:
                    c.violation("the %s exporter's file of a sql-backed model is not loaded by its own adapter" % key, {"kind": "witness", "format": key})
        except Exception as e:
            logging.disable(logging.NOTSET)
            c.notes.append("witness run for %s failed: %s" % (key, str(e)[:100]))
    # every format's file of a dimension-only model, alone in a directory (a file kind random assembly may not pick)
    for key in LOADER_NAME:
        if key == "atscale_sml" or listed_class(c, key, ("dims_only_single", None)):
            continue
        try:
            files = [fp for fp in export_files(key, ("dims_only_single", None), root) if "lookup_t" in (own_models(key, fp) or [])]
            if not files:
                continue
            d = tempfile.mkdtemp(prefix="o_", dir=root)
            for fp in files:
                shutil.copy(fp, d)
            logging.disable(logging.CRITICAL)
            L = SemanticLayer(connection="duckdb:///:memory:", auto_register=False)
            load_from_directory(L, d)
            logging.disable(logging.NOTSET)
            m = L.graph.models.get("lookup_t")
            checked += 1
            if m is None or getattr(m, "_source_format", None) != LOADER_NAME[key]:
                c.violation("the %s exporter's file of a dimension-only model is not handled by its own adapter (%s)" % (key, "model missing" if m is None else "loaded as %s" % getattr(m, "_source_format", None)),
                            {"kind": "dims_only", "format": key, "files": [os.path.basename(f) for f in files], "content": open(files[0], errors="replace").read()[:600]})
        except Exception as e:
            logging.disable(logging.NOTSET)
            c.notes.append("dimension-only run for %s failed: %s" % (key, str(e)[:100]))
    # EVERY shipped fixture file of every format, alone in a directory (exhaustive and deterministic: the assembled directories above
    # only sample them)
    nfix = 0
    for key in sorted(FIXTURE_DIRS):
        d0 = os.path.join(fx, key)
        if not os.path.isdir(d0):
            continue
        for f in sorted(os.listdir(d0)):
            src = os.path.join(d0, f)
            if not os.path.isfile(src):
                continue
            names = own_models(key, src)
            if not names:
                continue
            d = tempfile.mkdtemp(prefix="f_", dir=root)
            shutil.copy(src, d)
            logging.disable(logging.CRITICAL)
            try:
                L = SemanticLayer(connection="duckdb:///:memory:", auto_register=False)
                load_from_directory(L, d)
                err = None
            except Exception as e:
                err = e
            finally:
                logging.disable(logging.NOTSET)
            if err is not None and "validation failed" in str(err):
                stats["fixture_files_outside_premise"] = stats.get("fixture_files_outside_premise", 0) + 1
                shutil.rmtree(d, ignore_errors=True)
                continue           # the file's own definitions fail the layer's validation at registration (metrics over measures of another file): outside the premise
            nfix += 1
            checked += 1
            wrong = [] if err is None else [("*", "loading fails: %s" % str(err)[:100])]
            if err is None:
                for n in names:
                    m = L.graph.models.get(n)
                    fmt = getattr(m, "_source_format", None) if m is not None else None
                    if m is None or fmt != LOADER_NAME[key]:
                        wrong.append((n, "missing" if m is None else "loaded as %s" % fmt))
            if wrong:
                fid = "C13-fixture:%s/%s" % (key, f)
                if c.is_open(fid):
                    c.known(fid)
                else:
                    c.violation("the shipped %s file %s is not handled by its own adapter: %s" % (key, f, wrong[:4]), {"kind": "fixture", "format": key, "file": f, "models": wrong[:8]})
            shutil.rmtree(d, ignore_errors=True)
    stats["fixture_files_alone"] = nfix
    checked += ordered_pairs(c, root, stats)
    checked += project_folder_neighbours(c, root, stats)
    checked += stem_names(c, root, stats)
    c.coverage["files_checked"] = checked
    c.coverage["distribution"] = stats
    c.coverage["traces_validated_against_impl"] = checked
    return checked


STEMS = ["catalog", "atscale", "profiles", "packages", "dbt_project", "selectors", "dependencies", "schema", "sources", "config", "index", "models", "metrics", "cubes", "views"]


def stem_names(c, root, stats):
    """a model whose NAME is the stem of a well-known configuration file (profiles, packages, dbt_project, schema, ...): exporters that name the file after the
    model (Rill, Hex, Superset, Omni, ...) write profiles.yml etc.; the file is still that format's file and contributes its model"""
    from sidemantic import Dimension, Metric, Model, SemanticLayer
    from sidemantic.loaders import load_from_directory
    done = 0
    for key in LOADER_NAME:
        if key == "atscale_sml" or listed_class(c, key, ("agg", "sum")):
            continue
        # control: the same model under a harmless name is handled by the format's own adapter
        ok_names = []
        for stem in ["lookup_m"] + (STEMS if c.tier == "thorough" else STEMS[:7] + [STEMS[7 + c.seed % 8]]):
            d = tempfile.mkdtemp(prefix="s_", dir=root)
            try:
                g = c12.layer_with([Model(name=stem, table="customers", primary_key="id", dimensions=[Dimension(name="region", type="categorical")], metrics=[Metric(name="cnt", agg="count")])]).graph
                suf = ".yml" if key == "sidemantic" else c12.ADAPTERS[key][1]
                adapter_cls(key)().export(g, os.path.join(d, "out" + suf) if suf else os.path.join(d, "out"))
                files = [os.path.join(r, f) for r, _, fs in os.walk(d) for f in fs]
                if not any(stem in (own_models(key, fp) or []) for fp in files):
                    continue                       # the format's own adapter does not read this model back: outside the premise
                # loaded from the export's parent folder and from the folder that DIRECTLY holds the model's file (a file called catalog.yml at the top of the loaded
                # directory is still its own format's file)
                own_dir = next(os.path.dirname(fp) for fp in files if stem in (own_models(key, fp) or []))
                good, err, m = True, None, None
                for load_dir in dict.fromkeys([d, own_dir]):
                    logging.disable(logging.CRITICAL)
                    try:
                        L = SemanticLayer(connection="duckdb:///:memory:", auto_register=False)
                        load_from_directory(L, load_dir)
                        err = None
                    except Exception as e:
                        err = e
                    finally:
                        logging.disable(logging.NOTSET)
                    m = None if err is not None else L.graph.models.get(stem)
                    good = m is not None and getattr(m, "_source_format", None) == LOADER_NAME[key]
                    if not good:
                        break
                if stem == "lookup_m":
                    if not good:
                        break                      # control fails: a listed / other problem of this format, not a matter of names
                    continue
                done += 1
                if not good:
                    c.violation("the %s exporter's file for a model named %r (%s) is not handled by its own adapter: %s" % (
                                    key, stem, ", ".join(os.path.basename(f) for f in files)[:80], ("loading fails: %s" % str(err)[:80]) if err is not None else "model missing" if m is None else "loaded as %s" % getattr(m, "_source_format", None)),
                                {"kind": "stem", "format": key, "model_name": stem, "files": [os.path.basename(f) for f in files]})
            except Exception as e:
                c.notes.append("stem-name run for %s / %s failed: %s" % (key, stem, str(e)[:100]))
            finally:
                shutil.rmtree(d, ignore_errors=True)
    stats["stem_named_models"] = done
    return done


def ordered_pairs(c, root, stats):
    """two formats side by side in ONE folder, in BOTH enumeration orders: format A's export of the standard models next to format B's export of a
    lookup model.  The enumeration order of Path.rglob is the file system's (hash order here), so B's file is renamed until the wanted order is seen."""
    import pathlib
    from sidemantic import SemanticLayer
    from sidemantic.loaders import load_from_directory
    keys = [k for k in LOADER_NAME if k != "atscale_sml"]
    reg, look = {}, {}
    for k in keys:
        try:
            if not listed_class(c, k, ("agg", "sum")):
                fs = export_files(k, ("agg", "sum"), root)
                if len(fs) == 1 and own_models(k, fs[0]):
                    reg[k] = fs[0]
            if not listed_class(c, k, ("dims_only_single", None)):
                fs = [fp for fp in export_files(k, ("dims_only_single", None), root) if "lookup_t" in (own_models(k, fp) or [])]
                if len(fs) == 1:
                    look[k] = fs[0]
        except Exception:
            pass
    done = 0
    pairs = [(a, b) for a in sorted(reg) for b in sorted(look) if a != b]
    if c.tier == "quick":
        pairs = [pr for i, pr in enumerate(pairs) if i % 3 == c.seed % 3 or "sidemantic" in pr or "metricflow" in pr]
    for a, b in pairs:
        for first in (a, b):
            d = tempfile.mkdtemp(prefix="p_", dir=root)
            ta = os.path.join(d, "std_" + os.path.basename(reg[a]))
            shutil.copy(reg[a], ta)
            ext = os.path.splitext(look[b])[1]
            tb = None
            for stem in ["lookup_t", "lookup_t2", "a_lookup", "z_lookup", "m1", "q7", "k_03", "dims", "x", "lk", "ref_table", "t9"]:
                cand = os.path.join(d, stem + ext)
                shutil.copy(look[b], cand)
                order = [str(x) for x in pathlib.Path(d).rglob("*") if x.is_file()]
                if (order.index(ta) < order.index(cand)) == (first == a) and own_models(b, cand):
                    tb = cand
                    break
                os.remove(cand)
            if tb is None:
                shutil.rmtree(d, ignore_errors=True)
                continue
            want = [(a, ta, own_models(a, ta)), (b, tb, own_models(b, tb))]
            logging.disable(logging.CRITICAL)
            try:
                L = SemanticLayer(connection="duckdb:///:memory:", auto_register=False)
                load_from_directory(L, d)
                err = None
            except Exception as e:
                err = e
            finally:
                logging.disable(logging.NOTSET)
            done += 1
            for key, target, names in want:
                for n in names or []:
                    m = None if err is not None else L.graph.models.get(n)
                    fmt = getattr(m, "_source_format", None) if m is not None else None
                    if err is not None or m is None or fmt != LOADER_NAME[key]:
                        c.violation("a %s file next to a %s file in one folder (%s enumerated first) is not handled by its own adapter: model %s %s" % (
                                        key, b if key == a else a, first, n, ("loading fails: %s" % str(err)[:100]) if err is not None else "is missing" if m is None else "was loaded as " + str(fmt)),
                                    {"kind": "pair", "formats": [a, b], "enumerated_first": first, "files": [os.path.basename(ta), os.path.basename(tb)], "model": n, "loaded_as": fmt,
                                     "content_a": open(ta, errors="replace").read()[:500], "content_b": open(tb, errors="replace").read()[:500]})
                        break
            shutil.rmtree(d, ignore_errors=True)
    stats["ordered_pairs"] = done
    return done


def project_folder_neighbours(c, root, stats):
    """a format whose export is a FOLDER with a project file and a sub-folder of model files (Omni: model.yaml + views/): another format's single-file export of a lookup
    model is put next to the project file, and into the sub-folder -- every file still goes to the adapter of its own format"""
    from sidemantic import SemanticLayer
    from sidemantic.loaders import load_from_directory
    done = 0
    for host in ("omni",):
        if listed_class(c, host, ("relationship", "many_to_one")):
            continue
        look = {}
        for k in [k for k in LOADER_NAME if k not in ("atscale_sml", host)]:
            try:
                if not listed_class(c, k, ("dims_only_single", None)):
                    fs = [fp for fp in export_files(k, ("dims_only_single", None), root) if "lookup_t" in (own_models(k, fp) or [])]
                    if len(fs) == 1:
                        look[k] = fs[0]
            except Exception:
                pass
        for b in sorted(look):
            for where in ("", "views"):
                try:
                    files = export_files(host, ("relationship", "many_to_one"), root)
                except Exception:
                    break
                top = os.path.commonpath(files)
                hosted = [(fp, own_models(host, fp)) for fp in files]
                tb = os.path.join(top, where, "lookup_t" + os.path.splitext(look[b])[1])
                if not os.path.isdir(os.path.dirname(tb)):
                    continue
                shutil.copy(look[b], tb)
                if not own_models(b, tb):
                    continue
                logging.disable(logging.CRITICAL)
                try:
                    L = SemanticLayer(connection="duckdb:///:memory:", auto_register=False)
                    load_from_directory(L, top)
                    err = None
                except Exception as e:
                    err = e
                finally:
                    logging.disable(logging.NOTSET)
                done += 1
                want = [(host, fp, names) for fp, names in hosted if names] + [(b, tb, own_models(b, tb))]
                for key, target, names in want:
                    bad = None
                    for n in names or []:
                        m = None if err is not None else L.graph.models.get(n)
                        fmt = getattr(m, "_source_format", None) if m is not None else None
                        if err is not None or m is None or fmt != LOADER_NAME[key]:
                            bad = (n, ("loading fails: %s" % str(err)[:100]) if err is not None else "is missing" if m is None else "was loaded as " + str(fmt))
                            break
                    if bad:
                        c.violation("a %s file inside a %s project folder (%s) is not handled by its own adapter / disturbs the project's files: model %s %s" % (b, host, where or "next to the project file", bad[0], bad[1]),
                                    {"kind": "project_folder", "host": host, "other": b, "placed_in": where or ".", "file_of_model": os.path.relpath(target, top), "model": bad[0],
                                     "content_other": open(tb, errors="replace").read()[:500]})
                        break
    stats["project_folder_neighbours"] = done
    return done


def fp_rel(target, placed):
    return os.path.basename(target)


def replay(path):
    body = json.load(open(path))
    print(json.dumps(body["replay"], indent=1)[:2000])
    return 1
