"""C19 — concurrent queries on a shared layer behave as if run alone (shared planning state).

Proof:  Props/C19.v — C19_prog (the access skeleton extracted from semantic_graph.py on this run equals the
        build-locally / publish-once / snapshot-once program) and C19_safe (any number of threads, any schedule).
Tie:    the skeleton is regenerated on every run; line-granular schedules of 2-3 real threads are driven through
        find_relationship_path / compile() with a sys.settrace scheduler and every call must return its serial result.
When C19_prog breaks: bounded search of the model (vm_compute) for a bad schedule of the extracted skeleton, then a
        search of line-granular plans on the real code; the failing plan is the replay.
Partial: the CPython scheduler itself, DuckDB connections and the riffq thread pool are not modelled.
"""
import itertools
import json
import os
import warnings

from harness import dbutil, lib, sched
from translator import gen_adjprog

warnings.filterwarnings("ignore")


def target_files():
    import sidemantic.core.semantic_graph as sg
    return [sg.__file__]


GRAPHS = {
    "chain3": [("a", [("b", "many_to_one")]), ("b", [("c", "many_to_one")]), ("c", [])],
    "star": [("a", [("b", "many_to_one"), ("c", "many_to_one"), ("d", "one_to_many")]), ("b", []), ("c", []), ("d", [])],
    "chain4": [("a", [("b", "one_to_many")]), ("b", [("c", "many_to_one")]), ("c", [("d", "many_to_one")]), ("d", [])],
    # a model that EXTENDS another one and is registered unresolved (Python API / native YAML): whatever the graph makes of it, it must make the same of it under every schedule
    "ext": [("p", [("c", "many_to_one")]), ("c", [("r", "many_to_one")]), ("r", [("p", "one_to_many")]), ("e", [], "p")],
    # a many_to_one that names a key of the related model OTHER than its primary key (orders.customer_code -> customers.code), declared from both ends
    "altkey": [("a", [("b", "many_to_one", "code")]), ("b", [("a", "one_to_many"), ("c", "many_to_one", "code")]), ("c", [])],
}


def mk_layer(gname):
    from sidemantic import Dimension, Metric, Model, Relationship
    L = dbutil.fresh_layer()
    for name, rels, *ext in GRAPHS[gname]:
        L.add_model(Model(name=name, table=name, primary_key="id", **({"extends": ext[0]} if ext else {}),
                          relationships=[Relationship(name=r[0], type=r[1], foreign_key=(r[0] + "_id") if r[1] == "many_to_one" else (name + "_id"), **({"primary_key": r[2]} if len(r) > 2 else {})) for r in rels],
                          dimensions=[Dimension(name="x", type="categorical")], metrics=[Metric(name="n", agg="count")]))
    return L


def job_path(L, a, b):
    def f():
        p = L.graph.find_relationship_path(a, b)
        return [(h.from_model, h.to_model, tuple(h.from_columns), tuple(h.to_columns), h.relationship) for h in p]
    return f


def job_compile(L, a, b):
    def f():
        return L.compile(metrics=[a + ".n"], dimensions=[b + ".x"])
    return f


def serial(gname, kind, a, b):
    L = mk_layer(gname)
    try:
        return (job_path if kind == "path" else job_compile)(L, a, b)()
    except Exception as e:            # same rendering as sched.run_plan gives a failing job
        return "%s: %s" % (type(e).__name__, e)


def run_case(gname, kind, endpoints, plan):
    L = mk_layer(gname)
    jobs = {"T%d" % (i + 1): (job_path if kind == "path" else job_compile)(L, a, b) for i, (a, b) in enumerate(endpoints)}
    res, trace = sched.run_plan(jobs, plan, target_files())
    bad = {}
    for i, (a, b) in enumerate(endpoints):
        want = serial(gname, kind, a, b)
        got = res.get("T%d" % (i + 1), "<no result>")
        if got != want:
            bad["T%d" % (i + 1)] = {"serial": repr(want)[:300], "concurrent": repr(got)[:300]}
    return bad, len(trace)


def plans(rng, n, nthreads):
    out = []
    for _ in range(n):
        k = rng.randint(2, 5)      # number of slices before free run = pre-emptions + 1
        p = []
        last = None
        for _ in range(k):
            t = rng.choice([x for x in range(1, nthreads + 1) if x != last])
            last = t
            p.append(("T%d" % t, rng.choice([1, 2, 3, 4, 5, 6, 8, 12, 20, 32, 45, 60])))
        out.append(p)
    return out


def model_bad_schedule(prog_names):
    """bounded search IN THE MODEL (support for finding a failing input, not a proof): 2 threads, all schedules with <= 3 switches"""
    prog = "[" + "; ".join("(%s)" % a if " " in a else a for a in prog_names) + "]"
    n = len(prog_names)
    scheds = []
    for cuts in itertools.product(range(0, n + 1), repeat=3):
        a, b, c = cuts
        s = [1] * a + [0] * b + [1] * c + [0] * (n + 1) + [1] * (n + 1)
        scheds.append(s)
    scheds = [list(x) for x in {tuple(s) for s in scheds}]
    terms = ["negb (all_reads_good %s 2 [%s])" % (prog, "; ".join(map(str, s))) for s in scheds]
    res = lib.coq_eval("c19_search", "From Coq Require Import List Bool.\nRequire Import V.Model.Conc.\nImport ListNotations.", terms)
    for s, r in zip(scheds, res):
        if r == "true":
            return s, len(scheds)
    return None, len(scheds)


def run(c):
    c.trusted += ["translator/gen_adjprog.py: fail-closed ast walk that extracts the accesses to self._adjacency / self._adjacency_dirty (line-tagged); trusted to list every shared access",
                  "Model/Conc.v: hand-written interleaving semantics (sequentially consistent atomic actions; CPython's GIL makes each extracted action atomic at line granularity)",
                  "harness/sched.py: sys.settrace scheduler driving real threads at source-line granularity",
                  "not modelled: the CPython scheduler, DuckDB connections, the riffq thread pool, registry ContextVar (per-query objects are not shared: semantic_layer.compile creates a fresh SQLGenerator)"]
    c.assumptions += ["BuildLocal computes the serial adjacency (C10's model) and does not read shared state; models are not registered concurrently with queries"]
    prog = None
    try:
        prog = gen_adjprog.program(lib.REPO)
        lib.write_if_changed(os.path.join(lib.COQ, "Gen", "AdjProg_gen.v"), gen_adjprog.generate(lib.REPO))
        c.obligation("translator:AdjProg_gen", True, "translator")
    except Exception as e:
        c.obligation("translator:AdjProg_gen", False, "translator", "skeleton extraction failed: %r" % (e,))
    if prog is not None:
        c.build_props()
        c.samples.append({"extracted_skeleton": ["%s@%d" % x for x in prog]})
    evals = 0
    # correspondence / property oracle on the real code: scheduled threads must return serial results
    n_plans = 150 if c.tier == "quick" else 2500
    cases = []
    for gname, kind, eps in [("chain3", "path", [("a", "c"), ("a", "c")]), ("chain3", "path", [("a", "c"), ("c", "a")]), ("star", "path", [("b", "d"), ("c", "d")]),
                             ("chain4", "compile", [("a", "d"), ("d", "a")]), ("chain3", "compile", [("a", "c"), ("b", "c")]), ("chain4", "path", [("a", "d"), ("b", "d"), ("d", "a")])]:
        for plan in plans(c.rng, n_plans // 6, len(eps)):
            cases.append((gname, kind, eps, plan))
    import random
    rng_ext = random.Random(c.seed * 7 + 19)          # a stream of its own: the plans above stay what they were
    for gname, kind, eps in [("ext", "path", [("e", "r"), ("e", "r")]), ("ext", "compile", [("e", "c"), ("p", "r")]), ("altkey", "path", [("a", "c"), ("c", "a")]), ("altkey", "compile", [("a", "b"), ("a", "c")])]:
        for plan in plans(rng_ext, max(6, n_plans // 12), len(eps)):
            cases.append((gname, kind, eps, plan))
    # deterministic corpus: the slice pattern that exposes a clear-then-refill race (T2 enters on dirty, T1 builds and searches, T2 clears)
    for a in range(1, 6):
        for b in (20, 28, 32, 36, 45):
            cases.append(("chain3", "path", [("a", "c"), ("a", "c")], [("T2", a), ("T1", b), ("T2", 3), ("T1", 10 ** 6)]))
    # every ONE-pre-emption schedule of two threads on a freshly populated layer: T1 runs k traced lines (into the lazy rebuild, into its search, into a sort key ...),
    # T2 runs to completion, T1 finishes -- for every k up to the length of T1's own run
    for gname, kind, eps in (("chain3", "path", [("a", "c"), ("c", "a")]), ("chain4", "compile", [("a", "d"), ("b", "d")])):
        for k in range(1, 140 if kind == "path" else 200, 1 if c.tier == "thorough" or kind == "path" else 2):
            cases.append((gname, kind, eps, [("T1", k), ("T2", 10 ** 6), ("T1", 10 ** 6)]))
    bad_cases, lines = [], 0
    for gname, kind, eps, plan in cases:
        bad, ntrace = run_case(gname, kind, eps, plan)
        evals += 1
        lines += ntrace
        if bad:
            bad_cases.append({"kind": "schedule", "graph": gname, "call": kind, "endpoints": eps, "plan": plan, "differing": bad})
    for b in bad_cases[:3]:
        c.violation("a call on a shared layer returned a different result than when run alone (%s, plan %s)" % (b["call"], b["plan"]), b)
    c.obligation("schedules: %d line-granular schedules of 2-3 real threads return serial results" % len(cases), not bad_cases, "correspondence")
    if len(c.samples) < 3:
        c.samples.append({"graph": cases[0][0], "call": cases[0][1], "endpoints": cases[0][2], "plan": cases[0][3]})
    # when the skeleton obligation is broken and no random schedule failed: a systematic two-pre-emption sweep on real threads -- T1 runs k1 lines
    # (into the lazy rebuild), T2 runs k2 lines (through its first lookup into a later one), T1 finishes, T2 finishes
    if c.broken() and not bad_cases:
        found = None
        for gname, kind, eps in (("altkey", "path", [("a", "b"), ("a", "b")]), ("chain3", "compile", [("a", "c"), ("a", "c")]), ("chain4", "compile", [("a", "d"), ("b", "d")]), ("ext", "path", [("e", "r"), ("e", "r")]), ("ext", "compile", [("e", "c"), ("e", "r")])):
            for k1 in range(1, 14):
                for k2 in range(1, 170, 2):
                    plan = [("T1", k1), ("T2", k2), ("T1", 10 ** 6), ("T2", 10 ** 6)]
                    bad, ntrace = run_case(gname, kind, eps, plan)
                    evals += 1
                    if bad:
                        found = {"kind": "schedule", "graph": gname, "call": kind, "endpoints": eps, "plan": plan, "differing": bad}
                        break
                if found:
                    break
            if found:
                break
        if not found:
            # three pre-emptions, placed only around the lines that touch the shared attributes (taken from the trace of each call run alone): T1 stops at such a
            # line, T2 runs to such a line, T1 continues to a later one, T2 finishes, T1 finishes
            import linecache
            src = target_files()[0]

            def points(gname, kind, a, b):
                L = mk_layer(gname)
                _, tr = sched.run_plan({"T1": (job_path if kind == "path" else job_compile)(L, a, b)}, [("T1", 10 ** 6)], target_files())
                pts = set()
                for i, (_n, ln) in enumerate(tr):
                    if "_adjacency" in linecache.getline(src, ln):
                        pts.update((i, i + 1))
                return sorted(x for x in pts if x > 0)
            for gname, kind, eps in (("altkey", "path", [("a", "b"), ("a", "b")]), ("ext", "path", [("e", "r"), ("e", "r")]), ("ext", "compile", [("e", "c"), ("e", "r")]), ("chain3", "path", [("a", "c"), ("a", "c")]), ("chain4", "compile", [("a", "d"), ("b", "d")])):
                p1, p2 = points(gname, kind, *eps[0]), points(gname, kind, *eps[1])
                for k1 in p1:
                    for k2 in p2:
                        for k3 in [x - k1 for x in p1 if x > k1]:
                            plan = [("T1", k1), ("T2", k2), ("T1", k3), ("T2", 10 ** 6), ("T1", 10 ** 6)]
                            bad, ntrace = run_case(gname, kind, eps, plan)
                            evals += 1
                            if bad:
                                found = {"kind": "schedule", "graph": gname, "call": kind, "endpoints": eps, "plan": plan, "differing": bad}
                                break
                        if found:
                            break
                    if found:
                        break
                if found:
                    break
        if found:
            c.violation("a call on a shared layer returned a different result than when run alone (%s, plan %s; found by the systematic pre-emption sweeps)" % (found["call"], found["plan"]), found)
    # when the skeleton obligation is broken and no real schedule failed yet: search the model, report what it finds
    if c.broken() and prog is not None:
        try:
            s, n = model_bad_schedule([a for a, _ in prog])
            c.notes.append("model search over %d two-thread schedules of the extracted skeleton: %s" % (n, ("bad schedule %r" % s) if s else "no bad schedule"))
            evals += n
        except Exception as e:
            c.notes.append("model search failed: %r" % (e,))
    c.coverage.update({"evaluations": evals, "distinct_nontrivial": len({json.dumps(x[3]) + x[0] + x[1] for x in cases}),
                       "rule": "random plans of 2-5 slices (thread, #traced lines) over 3 graphs x {find_relationship_path, compile} x 2-3 threads on a freshly populated layer + a fixed corpus of clear/refill race plans; distinct = distinct (graph, call, plan)",
                       "traces_validated_against_impl": len(cases), "traced_lines": lines, "exhaustive": False})


def replay(path):
    body = json.load(open(path))
    r = body["replay"]
    if r.get("kind") == "schedule":
        bad, _ = run_case(r["graph"], r["call"], [tuple(x) for x in r["endpoints"]], [tuple(x) for x in r["plan"]])
        print(json.dumps(bad, indent=1))
        return 1 if bad else 0
    print(json.dumps(r, indent=1)[:3000])
    return 1
