"""C10 — join-path planning is correct, minimal and symmetric.

Proof:  Props/C10.v (any graph size) over Model/Graph.v + Gen/RelKeys_gen.v (regenerated each run).
Tie:    extracted model vs the real SemanticGraph on random graphs (all relationship types, composite keys, explicit
        primary keys, junctions, missing targets), every ordered pair + an unknown name: full hop lists, exception class,
        adjacency lists, validate_query's rejection, compile()'s refusal to cross join.
        thorough: the exhaustive 7^6 labelled 4-model graphs x 12 ordered pairs.
Independent property oracle on the implementation (not the model): returned paths are chains of declared relationships,
        minimal (vs an all-pairs BFS over the *declared* relationships), symmetric in existence.
"""
import itertools
import json
import multiprocessing
import os
import warnings

from harness import lib
from translator import gen_relkeys

warnings.filterwarnings("ignore")
TYPES = ["many_to_one", "one_to_one", "one_to_many", "many_to_many"]
NAMES = ["a", "b", "c", "d", "e", "ab"]


# ------------------------------------------------------------------ generators
def gen_graph(rnd):
    n = rnd.randint(2, 6)
    names = NAMES[:n]
    models = []
    for m in names:
        pk = rnd.choice(["s:id", "s:id", "s:" + m + "_k", "l:k1,k2", "l:id"])
        rels = []
        for _ in range(rnd.choice([0, 1, 1, 2, 3])):
            tgt = rnd.choice(names + ["ghost"])
            ty = rnd.choice(TYPES)
            fk = rnd.choice(["-", "-", "s:" + tgt + "_fk", "l:f1,f2", "l:" + tgt + "_fk", "s:~"])
            rpk = rnd.choice(["-", "-", "-", "s:code", "l:k1,k2", "s:~"])
            thr = tfk = rfk = "-"
            if ty == "many_to_many":
                thr = rnd.choice(["-", rnd.choice(names), "ghost"])
                tfk = rnd.choice(["-", m + "_id"])
                rfk = rnd.choice(["-", tgt + "_id"])
                if fk.startswith("l:") and tfk == "-":
                    fk = "s:" + tgt + "_fk"     # a list-valued junction key is outside the modelled fragment (nested key list in the real edge)
            rels.append(dict(name=tgt, type=ty, fk=fk, pk=rpk, through=thr, tfk=tfk, rfk=rfk))
        models.append(dict(name=m, pk=pk, rels=rels))
    return models


def gen_long_graph(rnd):
    """seven to fourteen models on one long chain (each link declared on either side with any cardinality, some through a junction model that is itself on the
    chain's side), now and then a chord between two models far apart and a detached tail: paths of up to thirteen hops, and shortest paths that leave the chain"""
    n = rnd.randint(7, 14)
    names = ["n%d" % i for i in range(n)]
    models = {m: dict(name=m, pk="s:id", rels=[]) for m in names}
    cut = rnd.choice([None, None, rnd.randint(2, n - 2)])          # one link missing: two components
    for i in range(n - 1):
        if cut == i:
            continue
        a, b = (names[i], names[i + 1]) if rnd.random() < 0.5 else (names[i + 1], names[i])
        ty = rnd.choice(["many_to_one", "one_to_many", "one_to_one"])
        models[a]["rels"].append(dict(name=b, type=ty, fk=rnd.choice(["-", "s:" + b + "_fk"]), pk="-", through="-", tfk="-", rfk="-"))
    if rnd.random() < 0.4:
        i = rnd.randint(0, n - 6)
        j = rnd.randint(i + 4, n - 1)
        models[names[i]]["rels"].append(dict(name=names[j], type=rnd.choice(["many_to_one", "one_to_many"]), fk="s:chord_fk", pk="-", through="-", tfk="-", rfk="-"))
    return [models[m] for m in names]


def gen_keyed_graph(rnd):
    """three to five models with composite primary keys whose relationships use foreign keys that are PARTS of the declaring model's own key, the whole key, or the
    key in another order (order lines keyed by (order id, line number) pointing at orders through order id): the cardinality of a hop is what was declared, whatever
    the keys look like"""
    n = rnd.randint(3, 5)
    names = ["k%d" % i for i in range(n)]
    models = []
    for m in names:
        pk = rnd.choice(["l:k1,k2", "l:k1,k2", "l:k1,k2,k3", "s:k1"])
        cols = pk[2:].split(",")
        rels = []
        for _ in range(rnd.choice([1, 1, 2])):
            tgt = rnd.choice([x for x in names if x != m])
            ty = rnd.choice(["many_to_one", "many_to_one", "one_to_many", "one_to_one"])
            fk = rnd.choice(["s:" + cols[0], "s:" + cols[-1], "l:" + ",".join(cols), "l:" + ",".join(reversed(cols)), "s:" + tgt + "_fk"])
            rpk = rnd.choice(["-", "-", "s:k1", "l:k1,k2"])
            if fk.startswith("l:") and rpk.startswith("s:"):
                rpk = "-"
            rels.append(dict(name=tgt, type=ty, fk=fk, pk=rpk, through="-", tfk="-", rfk="-"))
        models.append(dict(name=m, pk=pk, rels=rels))
    return models


OPTS7 = [None, ("many_to_one", 0), ("many_to_one", 1), ("one_to_many", 0), ("one_to_many", 1), ("one_to_one", 0), ("one_to_one", 1)]
PAIRS4 = list(itertools.combinations(range(4), 2))


def graph_of_index(idx):
    """the idx-th (0 <= idx < 7^6) labelled 4-model graph: each unordered pair carries none or one relationship type on either side"""
    names = ["a", "b", "c", "d"]
    models = [dict(name=n, pk="s:id", rels=[]) for n in names]
    for (i, j) in PAIRS4:
        idx, o = divmod(idx, 7)
        if OPTS7[o] is None:
            continue
        ty, side = OPTS7[o]
        src, dst = (i, j) if side == 0 else (j, i)
        models[src]["rels"].append(dict(name=names[dst], type=ty, fk="-", pk="-", through="-", tfk="-", rfk="-"))
    return models


# ------------------------------------------------------------------ implementation side
def pykey(x):
    if x == "-":
        return None
    body = x[2:]
    if x.startswith("s:"):
        return "" if body == "~" else body
    return [] if body == "" else body.split(",")


def opt(x):
    return None if x == "-" else ("" if x == "~" else x)


def real_graph(models):
    from sidemantic import Model, Relationship
    from sidemantic.core.semantic_graph import SemanticGraph
    g = SemanticGraph()
    for m in models:
        rels = [Relationship(name=r["name"], type=r["type"], foreign_key=pykey(r["fk"]), primary_key=pykey(r["pk"]),
                             through=opt(r["through"]), through_foreign_key=opt(r["tfk"]), related_foreign_key=opt(r["rfk"])) for r in m["rels"]]
        g.add_model(Model(name=m["name"], table=m["name"], primary_key=pykey(m["pk"]), relationships=rels))
    return g


def show_hop(a, b, fk, tk, t):
    return "%s>%s[%s|%s]%s" % (a, b, ",".join(fk), ",".join(tk), t)


def real_queries(models, pairs, want_adj=False, validate_sets=()):
    g = real_graph(models)
    out = []
    for a, b in pairs:
        try:
            p = g.find_relationship_path(a, b)
            out.append("P:" + ";".join(show_hop(h.from_model, h.to_model, h.from_columns, h.to_columns, h.relationship) for h in p))
        except ValueError:
            out.append("NOPATH")
        except KeyError:
            out.append("KEYERR")
    adj = []
    if want_adj:
        g.build_adjacency()
        for m in models:
            adj.append(";".join(show_hop(m["name"], to, fk, tk, t) for (to, fk, tk, t) in g._adjacency.get(m["name"], [])))
    val = []
    for ms in validate_sets:
        from sidemantic.validation import validate_query  # noqa
        val.append(_validate_pairs(g, ms))
    return out, adj, val


def incremental_registration(c, graphs):
    """models registered one by one with path lookups in between: every answer must equal the answer of a graph built afresh from the models
    registered so far (a lookup before a junction / target model exists must not freeze the adjacency)"""
    from sidemantic import Model, Relationship
    from sidemantic.core.semantic_graph import SemanticGraph
    n = 0
    def ask(g, a, b):
        try:
            p = g.find_relationship_path(a, b)
            return "P:" + ";".join(show_hop(h.from_model, h.to_model, h.from_columns, h.to_columns, h.relationship) for h in p)
        except ValueError:
            return "NOPATH"
        except KeyError:
            return "KEYERR"
    # targeted family: a many_to_many through a junction model that has no relationships of its own and is registered LAST
    targeted = []
    for k in range(12):
        extra = [dict(name="md", pk="s:id", rels=[dict(name="ma", type="many_to_one", fk="-", pk="-", through="-", tfk="-", rfk="-")])] if k % 2 else []
        fk = "s:mb_fk" if k % 3 == 0 else "-"
        targeted.append(("fixed", [dict(name="ma", pk="s:id", rels=[dict(name="mb", type="many_to_many", fk=fk, pk="-", through="mj", tfk="ma_id", rfk="mb_id")]),
                                   dict(name="mb", pk="s:id", rels=[])] + extra + [dict(name="mj", pk="s:id", rels=[])]))
    for item in targeted + [("shuffled", m) for m in graphs]:
        mode, models = item
        order = list(models)
        if mode == "shuffled":
            c.rng.shuffle(order)
        g = SemanticGraph()
        for i, m in enumerate(order):
            rels = [Relationship(name=r["name"], type=r["type"], foreign_key=pykey(r["fk"]), primary_key=pykey(r["pk"]),
                                 through=opt(r["through"]), through_foreign_key=opt(r["tfk"]), related_foreign_key=opt(r["rfk"])) for r in m["rels"]]
            g.add_model(Model(name=m["name"], table=m["name"], primary_key=pykey(m["pk"]), relationships=rels))
            names = [x["name"] for x in order[:i + 1]]
            if len(names) < 2:
                continue
            fresh = real_graph(order[:i + 1])
            for _ in range(3):
                a, b = c.rng.sample(names, 2)
                n += 1
                got, want = ask(g, a, b), ask(fresh, a, b)
                if got != want:
                    c.violation("a path lookup after registering models one by one differs from the same lookup on a freshly built graph (%s -> %s)" % (a, b),
                                {"kind": "incremental", "models": order[:i + 1], "pair": [a, b], "incremental": got, "fresh": want})
                    break
    return n


def _validate_pairs(g, ms):
    """the join-path part of validate_query, observed through its error messages (pairs are unordered there: a set is iterated)"""
    from sidemantic import Dimension  # noqa
    from sidemantic.validation import validate_query
    # give every registered model a dimension 'x' so that only join-path errors can appear
    errs = validate_query([], ["%s.id" % m for m in ms], g)
    import re
    prs = set()
    for e in errs:
        mm = re.match(r"No join path found between models '([^']+)' and '([^']+)'", e)
        if mm:
            prs.add(frozenset(mm.groups()))
    return prs


def graph_lines(models):
    lines = ["G"]
    for m in models:
        lines.append("M %s %s %d" % (m["name"], m["pk"], len(m["rels"])))
        for r in m["rels"]:
            lines.append("R %s %s %s %s %s %s %s" % (r["name"], r["type"], r["fk"], r["pk"], r["through"], r["tfk"], r["rfk"]))
    return lines


# ------------------------------------------------------------------ independent property oracle (implementation only)
def declared_edges(models):
    """undirected connectivity + directed declared edges with keys, computed directly from the declarations (oracle side)"""
    names = {m["name"] for m in models}
    E = set()
    for m in models:
        for r in m["rels"]:
            if r["name"] not in names:
                continue
            if r["type"] == "many_to_many":
                j = opt(r["through"])
                if j and j in names:
                    js = opt(r["tfk"]) or pykey(r["fk"])
                    if js and opt(r["rfk"]):
                        E.add(frozenset((m["name"], j)) if m["name"] != j else frozenset((m["name"],)))
                        E.add(frozenset((j, r["name"])) if j != r["name"] else frozenset((j,)))
                elif pykey(r["fk"]):
                    E.add(frozenset((m["name"], r["name"])))
            else:
                E.add(frozenset((m["name"], r["name"])))
    return E


def _cols(k, default):
    v = pykey(k)
    if v is None:
        return default
    return [v] if isinstance(v, str) else list(v)


def declared_directed(models):
    """the directed hops (with key columns and cardinality) that the declarations justify, read off the property text"""
    by = {m["name"]: m for m in models}
    inv = {"many_to_one": "one_to_many", "one_to_many": "many_to_one"}
    H = set()
    for m in models:
        mpk = _cols(m["pk"], ["id"])
        for r in m["rels"]:
            if r["name"] not in by:
                continue
            rel_pk = _cols(r["pk"], None) if pykey(r["pk"]) else None
            tgt_pk = rel_pk if rel_pk is not None else _cols(by[r["name"]]["pk"], ["id"])
            fk = _cols(r["fk"], [r["name"] + "_id"] if r["type"] == "many_to_one" else ["id"])
            if r["type"] == "many_to_many":
                j = opt(r["through"])
                if j and j in by:
                    js = opt(r["tfk"]) or pykey(r["fk"])
                    jr = opt(r["rfk"])
                    if js and jr and isinstance(js, str):
                        H.add(show_hop(m["name"], j, mpk, [js], "one_to_many"))
                        H.add(show_hop(j, m["name"], [js], mpk, "many_to_one"))
                        H.add(show_hop(j, r["name"], [jr], tgt_pk, "many_to_one"))
                        H.add(show_hop(r["name"], j, tgt_pk, [jr], "one_to_many"))
                elif pykey(r["fk"]):
                    H.add(show_hop(m["name"], r["name"], mpk, fk, "one_to_many"))
                    H.add(show_hop(r["name"], m["name"], fk, mpk, "many_to_one"))
            elif r["type"] == "many_to_one":
                H.add(show_hop(m["name"], r["name"], fk, tgt_pk, "many_to_one"))
                H.add(show_hop(r["name"], m["name"], tgt_pk, fk, "one_to_many"))
            else:
                H.add(show_hop(m["name"], r["name"], mpk, fk, r["type"]))
                H.add(show_hop(r["name"], m["name"], fk, mpk, inv.get(r["type"], r["type"])))
    return H


def bfs_dist(models):
    names = [m["name"] for m in models]
    E = declared_edges(models)
    nb = {n: set() for n in names}
    for e in E:
        e = list(e)
        if len(e) == 2:
            nb[e[0]].add(e[1])
            nb[e[1]].add(e[0])
    dist = {}
    for a in names:
        d = {a: 0}
        fr = [a]
        while fr:
            nx = []
            for x in fr:
                for y in nb[x]:
                    if y not in d:
                        d[y] = d[x] + 1
                        nx.append(y)
            fr = nx
        dist[a] = d
    return dist


def oracle_check(models, pairs, results):
    """property oracle on the implementation's answers; returns a list of problems"""
    names = {m["name"] for m in models}
    dist = bfs_dist(models)
    probs = []
    res = dict(zip(pairs, results))
    H = declared_directed(models)
    for (a, b), r in res.items():
        if a not in names or b not in names or a == b:
            continue
        d = dist[a].get(b)
        if r == "NOPATH":
            if d is not None:
                probs.append(("no path reported but models are connected", a, b))
        elif r.startswith("P:"):
            hops = r[2:].split(";")
            if d is None:
                probs.append(("path reported between disconnected models", a, b))
            elif len(hops) != d:
                probs.append(("path is not minimal: %d hops, shortest %d" % (len(hops), d), a, b))
            cur = a
            for h in hops:
                fr, rest = h.split(">", 1)
                to = rest.split("[", 1)[0]
                if fr != cur or h not in H:
                    probs.append(("hop %s is not a declared relationship (keys / cardinality) chained from %s" % (h, cur), a, b))
                cur = to
            if cur != b:
                probs.append(("path does not end at the target", a, b))
        rb = res.get((b, a))
        if rb is not None and (r.startswith("P:") != rb.startswith("P:")):
            probs.append(("path exists in one direction only", a, b))
    return probs


def _worker(args):
    lo, hi = args
    out = []
    pairs = [(x, y) for x in "abcd" for y in "abcd" if x != y]
    for idx in range(lo, hi):
        models = graph_of_index(idx)
        r, _, _ = real_queries(models, pairs)
        out.append("\x1f".join(r))          # hop texts contain "|"
    return lo, out


# ------------------------------------------------------------------ run
def run(c):
    c.trusted += ["translator/py2v_typed.py + gen_relkeys.py (fail-closed; key-default functions re-validated against the Python properties on a finite domain each run)",
                  "extraction with ExtrOcamlBasic + ExtrOcamlString only; Extract/graph_driver.ml (text protocol, printers)",
                  "modelled, not verified: Model/Graph.v is a hand-written model of build_adjacency / find_relationship_path / validate_query's join check, tied by correspondence",
                  "outside the fragment: a LIST-valued junction key of a many_to_many relationship without through_foreign_key (the real edge then carries a nested key list)"]
    gen_ok = True
    try:
        lib.write_if_changed(os.path.join(lib.COQ, "Gen", "RelKeys_gen.v"), gen_relkeys.generate(lib.REPO))
        c.obligation("translator:RelKeys_gen", True, "translator")
    except Exception as e:
        gen_ok = False
        c.obligation("translator:RelKeys_gen", False, "translator", "translation failed: %r" % (e,))
    built = gen_ok and c.build_props(extra_targets=["Extract/ExtractGraph.vo"])
    model_ok = gen_ok and (built or getattr(c, "build_fail", None) is None or not str(c.build_fail[0]).startswith(("Gen/", "Model/", "Base/", "Extract/")))
    exe = None
    if model_ok:
        try:
            exe = lib.build_driver("graph_driver", "graph_model.ml", "graph_driver.ml")
        except Exception as e:
            c.obligation("extraction:graph_driver", False, "correspondence", str(e))
    rnd = c.rng
    evals = 0
    # 1. translator validation on a finite domain
    if exe:
        from sidemantic import Model, Relationship
        dom_fk = ["-", "s:x", "s:~", "l:x", "l:x,y", "l:"]
        lines, expect = [], []
        for nm in ["c", "ab"]:
            for ty in TYPES:
                for fk in dom_fk:
                    r = Relationship(name=nm, type=ty, foreign_key=pykey(fk))
                    lines.append("F %s %s %s" % (nm, ty, fk))
                    expect.append(",".join(r.foreign_key_columns))
                    for tfk in ["-", "t"]:
                        for rfk in ["-", "r"]:
                            r2 = Relationship(name=nm, type=ty, foreign_key=pykey(fk), through_foreign_key=opt(tfk), related_foreign_key=opt(rfk))
                            a, b = r2.junction_keys()
                            lines.append("J %s %s %s %s" % (ty, fk, tfk, rfk))
                            expect.append(("-" if a is None else ("s:" + a if isinstance(a, str) else "l:" + ",".join(a))) + " " + ("-" if b is None else b))
        for pk in dom_fk:
            lines.append("P %s" % pk)
            expect.append(",".join(Relationship(name="c", type="many_to_one", primary_key=pykey(pk)).primary_key_columns))
        for pk in ["s:x", "s:~", "l:x", "l:x,y", "l:"]:
            lines.append("MP %s" % pk)
            expect.append(",".join(Model(name="c", table="c", primary_key=pykey(pk)).primary_key_columns))
        got = lib.run_driver(exe, lines)
        bad = [(lines[i], got[i], expect[i]) for i in range(len(lines)) if got[i] != expect[i]]
        c.obligation("translator_validation: RelKeys_gen == Python properties on %d inputs" % len(lines), not bad, "correspondence", repr(bad[:5]))
        evals += len(lines)
    # 2. random graphs: model vs implementation, plus the property oracle on the implementation
    n_graphs = 1500 if c.tier == "quick" else 12000
    cases, lines = [], []
    for _ in range(n_graphs):
        models = gen_graph(rnd)
        names = [m["name"] for m in models] + ["ghost"]
        pairs = [(a, b) for a in names for b in names]
        vsets = [rnd.sample(names, k=min(len(names), rnd.randint(2, 4))) for _ in range(2)]
        cases.append((models, pairs, vsets))
        lines += graph_lines(models) + ["Q %s %s" % p for p in pairs] + ["A %s" % m["name"] for m in models] + ["V %s" % ",".join(v) for v in vsets]
    import random as _random
    rnd_long = _random.Random(c.seed * 5 + 10)          # a stream of its own: the graphs above stay what they were
    for _ in range(40 if c.tier == "quick" else 400):
        models = gen_long_graph(rnd_long)
        names = [m["name"] for m in models]
        pairs = [(a, b) for a in names for b in names]
        vsets = [[names[0], names[-1]], rnd_long.sample(names, k=3)]
        cases.append((models, pairs, vsets))
        lines += graph_lines(models) + ["Q %s %s" % p for p in pairs] + ["A %s" % m["name"] for m in models] + ["V %s" % ",".join(v) for v in vsets]
    rnd_key = _random.Random(c.seed * 9 + 77)          # a stream of its own
    for _ in range(60 if c.tier == "quick" else 600):
        models = gen_keyed_graph(rnd_key)
        names = [m["name"] for m in models]
        pairs = [(a, b) for a in names for b in names]
        vsets = [rnd_key.sample(names, k=2)]
        cases.append((models, pairs, vsets))
        lines += graph_lines(models) + ["Q %s %s" % p for p in pairs] + ["A %s" % m["name"] for m in models] + ["V %s" % ",".join(v) for v in vsets]
    got = lib.run_driver(exe, lines) if exe else None
    k = 0
    mism, oracle_bad, multi, validate_bad = [], [], set(), []
    kinds = {"P:": 0, "NOPATH": 0, "KEYERR": 0}
    for models, pairs, vsets in cases:
        r, adj, val = real_queries(models, pairs, want_adj=True, validate_sets=vsets)
        evals += len(pairs)
        for x in r:
            for kk in kinds:
                if x.startswith(kk):
                    kinds[kk] += 1
            if x.startswith("P:") and ";" in x:
                multi.add(x)
        for pr in oracle_check(models, pairs, r):
            oracle_bad.append({"problem": pr[0], "from": pr[1], "to": pr[2], "graph": models})
        # property oracle on the implementation's own answers: validation rejects a pair of registered models exactly when the planner has no path for it
        ans = {p_: r[i_] for i_, p_ in enumerate(pairs)}
        reg = {m_["name"] for m_ in models}
        for i, v in enumerate(vsets):
            vm = [x for x in dict.fromkeys(v) if x in reg]
            for ai, a_ in enumerate(vm):
                for b_ in vm[ai + 1:]:
                    nopath = not ans[(a_, b_)].startswith("P:")
                    reported = frozenset((a_, b_)) in val[i]
                    if nopath != reported and len(validate_bad) < 3:
                        validate_bad.append({"graph": models, "validate_models": v, "pair": [a_, b_], "planner": ans[(a_, b_)], "validation_reports_no_path": reported})
        if got is not None:
            for i, p in enumerate(pairs):
                if got[k + i] != r[i]:
                    mism.append({"graph": models, "query": p, "impl": r[i], "model": got[k + i]})
            k += len(pairs)
            for i, m in enumerate(models):
                if got[k + i] != adj[i]:
                    mism.append({"graph": models, "adjacency_of": m["name"], "impl": adj[i], "model": got[k + i]})
            k += len(models)
            for i, v in enumerate(vsets):
                mp = set(frozenset(x.split(",")) for x in got[k + i].split(";") if x)
                if mp != val[i]:
                    mism.append({"graph": models, "validate_models": v, "impl": sorted(map(sorted, val[i])), "model": sorted(map(sorted, mp))})
            k += len(vsets)
        if len(c.samples) < 3 and any(x.startswith("P:") and ";" in x for x in r):
            i = next(i for i, x in enumerate(r) if x.startswith("P:") and ";" in x)
            c.samples.append({"graph": models, "query": pairs[i], "impl_path": r[i]})
    if got is not None:
        c.obligation("correspondence: extracted model == SemanticGraph on %d random graphs (paths, exceptions, adjacency, validate_query pairs)" % n_graphs,
                     not mism, "correspondence", json.dumps(mism[:3])[:1500])
    for ob in oracle_bad[:3]:
        c.violation("join path property fails on the implementation: %s (%s -> %s)" % (ob["problem"], ob["from"], ob["to"]), {"kind": "graph", **ob})
    for vb in validate_bad:
        c.violation("validation and the planner disagree on %s / %s: the planner answers %s, validation %s" % (
            vb["pair"][0], vb["pair"][1], vb["planner"], "reports that no join path exists" if vb["validation_reports_no_path"] else "accepts the query"), {"kind": "validate", **vb})
    if mism and not oracle_bad and not validate_bad:
        c.notes.append("model/implementation disagreement without a property failure on the implementation's own answers: %s" % json.dumps(mism[0])[:600])
    # 3. compile() refuses to cross join disconnected models (generator + validation, end to end)
    evals += compile_rejects(c)
    # 4. thorough: exhaustive 7^6 graphs
    exhaustive = False
    if c.tier == "thorough":
        exhaustive = exhaustive_4(c, exe)
        evals += 117649 * 12
    # incremental registration: lookups interleaved with add_model must agree with a freshly built graph
    try:
        n_inc = incremental_registration(c, [gen_graph(rnd) for _ in range(60 if c.tier == "quick" else 600)])
        c.obligation("history: %d path lookups interleaved with model registration == lookups on a freshly built graph" % n_inc, not any(v["what"].startswith("a path lookup after registering") for v in c.violations), "correspondence")
        evals += n_inc
    except Exception as e:
        c.obligation("history: incremental registration", False, "correspondence", repr(e)[-600:])
    c.coverage.update({"evaluations": evals, "distinct_nontrivial": len(multi), "rule": "random labelled graphs of 2-6 models (every relationship type, str/list/None keys, explicit primary keys, junctions, unknown targets); "
                       "all ordered pairs incl. an unknown name; non-trivial = distinct multi-hop path returned by the implementation",
                       "traces_validated_against_impl": n_graphs, "outcome_kinds": kinds, "exhaustive": exhaustive})


def compile_rejects(c):
    from sidemantic import Dimension, Metric, Model, Relationship
    from harness import dbutil
    n = 0
    for conn in (False, True):
        layer = dbutil.fresh_layer()
        rels = [Relationship(name="b", type="many_to_one", foreign_key="b_id")] if conn else []
        layer.add_model(Model(name="a", table="a", primary_key="id", relationships=rels, dimensions=[Dimension(name="x", type="categorical")], metrics=[Metric(name="n", agg="count")]))
        layer.add_model(Model(name="b", table="b", primary_key="id", dimensions=[Dimension(name="y", type="categorical")], metrics=[Metric(name="k", agg="count")]))
        for kw in (dict(metrics=["a.n"], dimensions=["b.y"]), dict(metrics=["a.n", "b.k"], dimensions=[]), dict(metrics=["a.n"], dimensions=["a.x"], filters=["b.y = 'q'"])):
            n += 1
            try:
                sql = layer.compile(**kw)
                ok = conn
                what = "compiled"
            except Exception as e:
                ok = not conn
                what = type(e).__name__
                sql = ""
            if not ok:
                c.violation("compile() of a query over %s models: %s" % ("connected" if conn else "disconnected", what), {"kind": "compile", "connected": conn, "query": kw, "sql": sql[:800]})
            elif conn is False and "CROSS JOIN" in sql.upper():
                c.violation("cross join emitted for disconnected models", {"kind": "compile", "connected": conn, "query": kw, "sql": sql[:800]})
    c.obligation("e2e: compile() rejects disconnected models and joins connected ones (%d queries)" % n, not c.violations, "correspondence")
    return n


def exhaustive_4(c, exe):
    N = 7 ** 6
    step = 2000
    with multiprocessing.Pool(lib.NPROC) as pool:
        parts = pool.map(_worker, [(lo, min(lo + step, N)) for lo in range(0, N, step)])
    impl = {}
    for lo, out in parts:
        for i, x in enumerate(out):
            impl[lo + i] = x
    pairs = [(x, y) for x in "abcd" for y in "abcd" if x != y]
    bad_oracle, bad_model = [], []
    for idx in range(N):
        r = impl[idx].split("\x1f")
        pr = oracle_check(graph_of_index(idx), pairs, r)
        if pr:
            bad_oracle.append((idx, pr[0]))
    for idx, pr in bad_oracle[:3]:
        c.violation("join path property fails on 4-model graph #%d: %s" % (idx, pr[0]), {"kind": "graph4", "index": idx, "graph": graph_of_index(idx), "from": pr[1], "to": pr[2]})
    if exe:
        for lo in range(0, N, 20000):
            lines = []
            for idx in range(lo, min(lo + 20000, N)):
                lines += graph_lines(graph_of_index(idx)) + ["Q %s %s" % p for p in pairs]
            got = lib.run_driver(exe, lines)
            for j, idx in enumerate(range(lo, min(lo + 20000, N))):
                if "\x1f".join(got[j * 12:(j + 1) * 12]) != impl[idx]:
                    bad_model.append(idx)
        c.obligation("correspondence_exhaustive: model == implementation on all 7^6 labelled 4-model graphs x 12 ordered pairs", not bad_model, "correspondence", "first differing graph indices: %r" % bad_model[:5])
    c.obligation("oracle_exhaustive: chain / minimal / symmetric on all 7^6 x 12 implementation answers", not bad_oracle, "correspondence", repr(bad_oracle[:3]))
    return True


def replay(path):
    body = json.load(open(path))
    r = body["replay"]
    if r.get("kind") in ("graph", "graph4"):
        models = r["graph"]
        names = [m["name"] for m in models]
        pairs = [(a, b) for a in names for b in names]
        res, _, _ = real_queries(models, pairs)
        probs = oracle_check(models, pairs, res)
        print("\n".join("%s -> %s: %s" % (p[0], p[1], x) for p, x in zip(pairs, res)))
        print("problems:", probs)
        return 1 if probs else 0
    if r.get("kind") == "validate":
        a_, b_ = r["pair"]
        res, _, val = real_queries(r["graph"], [(a_, b_)], validate_sets=[r["validate_models"]])
        nopath = not res[0].startswith("P:")
        reported = frozenset((a_, b_)) in val[0]
        print("planner %s -> %s: %s; validation reports no path: %s" % (a_, b_, res[0], reported))
        return 1 if nopath != reported else 0
    print(json.dumps(r, indent=1)[:3000])
    return 1
