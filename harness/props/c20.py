"""C20 — validation is sound: accepted definitions work, bad references are rejected.

Proof:  Props/C20.v (every ill-formed reference class and every disconnected pair of query models is reported by validate_query,
        whatever form the references take; accepted queries resolve and are joinable; "_cte" recovery is the inverse of the
        CTE alias for names without "_cte").
Ties:   Model/Valid.validate_query evaluated in Coq vs the real validate_query on generated graphs / reference lists (error
        kinds in order, unjoinable pairs as a set); compile() must raise QueryValidationError exactly when the model reports
        an error, before any SQL is produced.
Oracle: (usability) every dimension (each granularity), simple / ratio / derived / expression metric and segment of generated
        ACCEPTED definitions with adversarial legal names is queried by itself on a table with the declared columns and must
        compile and execute.
"""
import json
import re
import warnings

from harness import dbutil, joingen as jg, lib, semgen as sg

warnings.filterwarnings("ignore")

PREAMBLE = """From Coq Require Import String List Bool.
Require Import V.Base.PyLib V.Model.Graph V.Model.Valid.
Import ListNotations.
Open Scope string_scope.
Definition se (e : verr) : string :=
  match e with
  | EModel m => "model:" ++ m | EMetric m f => "metric:" ++ m ++ "." ++ f | EBareMetric n => "gmetric:" ++ n | EDim m d => "dim:" ++ m ++ "." ++ d
  | EGran g => "gran:" ++ g | ENonTime m d => "nontime:" ++ m ++ "." ++ d | EFormat d => "format:" ++ d | ENoPath a b => "nopath:" ++ a ++ "," ++ b end.
Definition vq ms g gm metrics dims : string := String.concat ";" (map se (validate_query ms g gm metrics dims)).
Definition R (n ty : string) : rel := {| r_name := n; r_type := ty; r_fk := KNone; r_pk := KNone; r_through := None; r_tfk := None; r_rfk := None |}.
Definition D (m : option string) (d : string) (g : option string) : dref := {| dq_model := m; dq_dim := d; dq_gran := g |}.
"""
MODELS = ["orders", "customers", "items", "visits", "regions"]
DIMS = [("status", False), ("created", True), ("flag", False)]
METRICS = ["n", "total"]


# ---------------------------------------------------------------------------------------------
# part A: validate_query
# ---------------------------------------------------------------------------------------------
def gen_graph(rng):
    names = MODELS[:rng.randint(2, 5)]
    rels = {n: [] for n in names}
    for n in names[1:]:
        if rng.random() < 0.7:                       # otherwise the model stays disconnected
            tgt = rng.choice([x for x in names if x != n])
            ty = rng.choice(["many_to_one", "one_to_many", "one_to_one"])
            if not any(t == tgt for t, _ in rels[n]):
                rels[n].append((tgt, ty))
    gm = []
    if rng.random() < 0.7:
        gm.append(("g_total", "derived", "%s.total" % rng.choice(names)))          # dotted sql: names a model
    if rng.random() < 0.5:
        gm.append(("g_ratio", "ratio", None))
    return dict(names=names, rels=rels, gm=gm)


def gen_query(rng, G):
    names = G["names"]
    mets, dims = [], []
    for _ in range(rng.choice([0, 1, 1, 2])):
        r = rng.random()
        if r < 0.6:
            mets.append("%s.%s" % (rng.choice(names), rng.choice(METRICS)))
        elif r < 0.7:
            mets.append("ghost.%s" % rng.choice(METRICS))
        elif r < 0.8:
            mets.append("%s.nope" % rng.choice(names))
        elif r < 0.93:
            mets.append(rng.choice([g[0] for g in G["gm"]] or ["g_none"]))
        else:
            mets.append("g_unknown")
    for _ in range(rng.choice([0, 1, 1, 2, 3])):
        m = rng.choice(names)
        r = rng.random()
        if r < 0.35:
            dims.append("%s.%s" % (m, rng.choice(["status", "flag", "created"])))
        elif r < 0.65:
            dims.append("%s.created__%s" % (m, rng.choice(["hour", "day", "week", "month", "quarter", "year"])))
        elif r < 0.73:
            dims.append("%s.status__%s" % (m, rng.choice(["day", "month"])))                # granularity on a non-time field
        elif r < 0.8:
            dims.append("%s.created__%s" % (m, rng.choice(["decade", "minute", "Month"])))  # unknown granularity
        elif r < 0.86:
            dims.append("%s.nodim" % m)
        elif r < 0.92:
            dims.append("ghost.status%s" % rng.choice(["", "__day"]))
        elif r < 0.96:
            dims.append(rng.choice(["status", "created__day"]))                           # not in model.dimension format
        else:
            dims.append("%s.nodim__week" % m)
    return mets, dims


def real_layer(G, interleaved=False):
    """interleaved: the layer is used between registrations (a join-path lookup and a query over the models registered so far), as an application
    that registers models lazily does -- relationships may name models registered later"""
    from sidemantic import Dimension, Metric, Model, Relationship
    L = dbutil.fresh_layer()
    for k, n in enumerate(G["names"]):
        if interleaved and k:
            try:
                L.graph.build_adjacency()
                L.compile(metrics=["%s.n" % G["names"][0]], dimensions=["%s.status" % G["names"][k - 1]])
            except Exception:
                pass
        L.add_model(Model(name=n, table=n, primary_key="id", relationships=[Relationship(name=t, type=ty) for t, ty in G["rels"][n]],
                          dimensions=[Dimension(name="status", type="categorical"), Dimension(name="created", type="time", granularity="day"), Dimension(name="flag", type="boolean")],
                          metrics=[Metric(name="n", agg="count"), Metric(name="total", agg="sum", sql="amount")]))
    for name, ty, sql in G["gm"]:
        if ty == "derived":
            L.add_metric(Metric(name=name, type="derived", sql=sql))
        else:
            L.add_metric(Metric(name=name, type="ratio", numerator="%s.total" % G["names"][0], denominator="%s.n" % G["names"][0]))
    return L


def classify(msg):
    pats = [(r"^Model '(\w+)' not found", lambda m: "model:" + m.group(1)),
            (r"^Metric '(\w+)' not found in model '(\w+)'", lambda m: "metric:%s.%s" % (m.group(2), m.group(1))),
            (r"^Metric '(\w+)' not found$", lambda m: "gmetric:" + m.group(1)),
            (r"^Dimension '(\w+)' not found in model '(\w+)'", lambda m: "dim:%s.%s" % (m.group(2), m.group(1))),
            (r"^Invalid time granularity '(\w+)'", lambda m: "gran:" + m.group(1)),
            (r"^Time granularity '\w+' cannot be applied to non-time dimension '(\w+)' \(referenced in '(\w+)\.", lambda m: "nontime:%s.%s" % (m.group(2), m.group(1))),
            (r"^Dimension reference '(\w+)' must be", lambda m: "format:" + m.group(1)),
            (r"^No join path found between models '(\w+)' and '(\w+)'", lambda m: "nopath:%s,%s" % (m.group(1), m.group(2)))]
    for p, f in pats:
        mm = re.match(p, msg)
        if mm:
            return f(mm)
    return "other:" + msg[:60]


def canon_errs(errs):
    """error kinds: reference errors in order, unjoinable pairs as an unordered set of unordered pairs"""
    refs = [e for e in errs if not e.startswith("nopath:")]
    pairs = sorted(",".join(sorted(e[7:].split(","))) for e in errs if e.startswith("nopath:"))
    return refs, pairs


def coq_query(G, mets, dims):
    opt = lambda s: "None" if s is None else '(Some "%s")' % s
    ms = "[" + "; ".join('{| vm_name := "%s"; vm_dims := [%s]; vm_metrics := [%s] |}' % (
        n, "; ".join('("%s", %s)' % (d, "true" if t else "false") for d, t in DIMS), "; ".join('"%s"' % x for x in METRICS)) for n in G["names"]) + "]"
    g = "[" + "; ".join('{| g_name := "%s"; g_pk := KStr "id"; g_rels := [%s] |}' % (n, "; ".join('R "%s" "%s"' % (t, ty) for t, ty in G["rels"][n])) for n in G["names"]) + "]"
    # the models a graph-level metric draws on: the model of its dotted sql; the ratio is over measures of the first model
    gm = "[" + "; ".join('("%s", [%s])' % (name, ('"%s"' % sql.split(".")[0]) if sql and "." in sql else ('"%s"' % G["names"][0]) if ty == "ratio" else "") for name, ty, sql in G["gm"]) + "]"
    mrefs = "[" + "; ".join(('MQual "%s" "%s"' % tuple(m.split("."))) if "." in m else 'MBare "%s"' % m for m in mets) + "]"
    drefs = []
    for d in dims:
        gran = None
        if "__" in d:
            d, gran = d.rsplit("__", 1)
        if "." in d:
            mo, dn = d.split(".")
            drefs.append('D (Some "%s") "%s" %s' % (mo, dn, opt(gran)))
        else:
            drefs.append('D None "%s" %s' % (d, opt(gran)))
    return "vq %s %s %s %s [%s]" % (ms, g, gm, mrefs, "; ".join(drefs))


def part_a(c, n):
    from sidemantic.validation import QueryValidationError, validate_query
    cases = []
    for _ in range(n // 6):
        G = gen_graph(c.rng)
        for _ in range(6):
            cases.append((G, gen_query(c.rng, G)))
        # every declared relationship, used by itself: a metric of one end by a dimension of the other must be accepted
        for a in G["names"]:
            for b, _ty in G["rels"][a]:
                cases.append((G, (["%s.n" % a], ["%s.status" % b])))
        # references to KEY COLUMNS for which no dimension is declared (the primary key, the foreign key a relationship uses -- on whichever side the column lives):
        # not fields of the model, so they are rejected like any other unknown field
        for a in G["names"][:2]:
            for b, ty in G["rels"][a][:2]:
                fk = (b + "_id") if ty == "many_to_one" else "id"
                cases.append((G, (["%s.n" % a], ["%s.%s" % (a, fk)])))
                cases.append((G, (["%s.n" % b], ["%s.%s" % (b, fk), "%s.status" % a])))
    # fixed corpus: two disconnected models, the second reached only through a granular time dimension / a graph-level metric
    G0 = dict(names=["orders", "visits"], rels={"orders": [], "visits": []}, gm=[("g_total", "derived", "visits.total")])
    cases[:0] = [(G0, (["orders.n"], ["visits.created__month"])), (G0, ([], ["orders.status", "visits.created__week"])), (G0, (["orders.n"], ["visits.status"])),
                 (G0, (["orders.n", "g_total"], [])), (G0, (["orders.n"], ["orders.created__day"]))]
    outs = None
    if lib.coq_make(["Model/Valid.vo"])[0]:
        try:
            outs = lib.coq_eval("c20_cases", PREAMBLE, [coq_query(G, m, d) for G, (m, d) in cases], chunk=150)
        except RuntimeError as e:
            c.obligation("model evaluation", False, "correspondence", str(e)[-1500:])
    bad, stats = [], {"queries": len(cases), "rejected": 0, "accepted": 0, "with_nopath": 0, "error_kinds": {}}
    layers = {}
    for i, (G, (mets, dims)) in enumerate(cases):
        L = layers.get(id(G))
        if L is None:
            L = layers[id(G)] = real_layer(G, interleaved=len(layers) % 2 == 1)
            stats["interleaved_layers"] = stats.get("interleaved_layers", 0) + (len(layers) % 2 == 0)
        real = [classify(e) for e in validate_query(mets, dims, L.graph)]
        for e in real:
            k = e.split(":")[0]
            stats["error_kinds"][k] = stats["error_kinds"].get(k, 0) + 1
        stats["with_nopath"] += any(e.startswith("nopath") for e in real)
        stats["rejected" if real else "accepted"] += 1
        if outs is not None:
            model = [x for x in sg.unquote(outs[i]).split(";") if x]
            if canon_errs(real) != canon_errs(model):
                bad.append({"graph": G, "metrics": mets, "dimensions": dims, "impl": real, "model": model})
        else:
            model = None
        # rejection must happen in validation, as a QueryValidationError, before any SQL is produced
        expect_reject = bool(model) if model is not None else bool(real)
        if mets or dims:
            try:
                L.compile(metrics=mets, dimensions=dims)
                raised = None
            except Exception as e:
                raised = e
            if not expect_reject and raised is not None:
                c.violation("a well-formed query over accepted definitions is refused or fails to compile (%s)" % type(raised).__name__,
                            {"kind": "accept", "graph": G, "metrics": mets, "dimensions": dims, "interleaved_registration": True, "raised": repr(raised)[:300]})
            if expect_reject and not isinstance(raised, QueryValidationError):
                c.violation("an ill-formed query is not rejected with a validation error (%s)" % (type(raised).__name__ if raised else "it compiled"),
                            {"kind": "reject", "graph": G, "metrics": mets, "dimensions": dims, "expected_errors": model or real, "raised": repr(raised)[:300]})
    if outs is not None:
        c.obligation("correspondence: Model/Valid.validate_query == validation.validate_query on %d generated queries" % len(cases), not bad, "correspondence", json.dumps(bad[:2], default=str)[:1800])
    return len(cases), stats


# ---------------------------------------------------------------------------------------------
# part B: accepted definitions are usable
# ---------------------------------------------------------------------------------------------
PLAIN = ["orders", "status", "rev", "amount_total", "Region", "_x", "k2", "aB_c", "order", "group", "table", "value", "date", "count", "sum", "cnt_total", "x_raw_y", "id_"]
KEYWORDS = ["select", "from", "where", "case", "when", "join", "having", "union", "and", "not", "null", "true", "distinct", "by", "as", "on", "in", "is"]
COLS = ["c0", "c1", "s0", "ts", "id"]


def gen_defn(rng):
    r = rng.random()
    model = rng.choice(PLAIN) if r < 0.8 else rng.choice(["a_cte_b", "x_cte", "order items", "my-model", rng.choice(KEYWORDS)])
    names = rng.sample(PLAIN, 6)
    dim, meas, cnt, rat, der, seg = names
    r = rng.random()
    if r < 0.12:
        dim = rng.choice(KEYWORDS)
    elif r < 0.2:
        dim = meas + "_raw"
    elif r < 0.27:
        dim = rng.choice(COLS)
    elif r < 0.31:
        dim = "d__x"
    r = rng.random()
    if r < 0.1:
        meas = rng.choice(KEYWORDS)
    elif r < 0.2:
        meas = rng.choice(COLS)
    r = rng.random()
    if r < 0.12:
        cnt = meas + "_raw"            # a second MEASURE named like the first one's internal column: the ratio and the derived metric refer to both
    elif r < 0.2:
        cnt = meas + "_total"          # ... or simply a longer name with the first as a prefix
    elif r < 0.26:
        cnt = "n_" + meas
    # fill_nulls_with of every metric kind: numbers and strings, incl. strings with quotes (chosen from the names, not from the random stream)
    fill = [None, None, 0, "n/a", "it's", "'", "a''b"][(len(model) + 3 * len(meas) + 5 * len(rat) + len(der)) % 7]
    return dict(model=model, dim=dim, meas=meas, cnt=cnt, rat=rat, der=der, seg=seg, fill=fill, sql_backed=rng.random() < 0.25, composite=rng.random() < 0.25,
                inline=rng.random() < 0.5, meas_col=rng.choice(["c0", "c1", "c0 + c1"]),
                graph_metric=rng.choice([None, "before", "before", "after"]),
                sg_cat=rng.choice([None, None, ["day", "month"], ["year"], ["day", "week", "month", "quarter", "year"]]),
                sg_time=rng.choice([None, None, ["day", "month"], ["week", "quarter", "year"], ["hour", "day"]]))


def classify_defn(d):
    """listed classes of accepted-but-unusable definitions"""
    ident = lambda s: re.match(r"^[A-Za-z_][A-Za-z0-9_]*$", s) is not None
    out = set()
    if "_cte" in d["model"]:
        out.add("C20-K1")
    fields = [d["dim"], d["meas"], d["cnt"], d["rat"], d["der"], d["seg"]]
    if any(f.lower() in KEYWORDS for f in fields) or d["model"].lower() in KEYWORDS:
        out.add("C20-K2")
    if d["dim"] in (d["meas"] + "_raw", d["cnt"] + "_raw"):
        out.add("C20-K3")
    if not ident(d["model"]):
        out.add("C20-K4")
    if (d["inline"] and (set(COLS) & set(fields))) or "s0" in (d["meas"], d["cnt"], d["rat"], d["der"]):
        out.add("C20-K5")                       # the segment's SQL mentions s0, the inline expression c0
    if "__" in d["dim"]:
        out.add("C20-K6")
    return out


def try_defn(d):
    """-> (accepted?, {query label: error string}) for every single-field query"""
    from sidemantic import Dimension, Metric, Model
    from sidemantic.core.segment import Segment
    L = dbutil.fresh_layer()
    L.conn.execute("create table tbl1(id bigint, id2 bigint, c0 bigint, c1 bigint, s0 varchar, ts timestamp)")
    L.conn.execute("insert into tbl1 values (1,1,5,1,'a','2024-01-05 10:00:00'),(2,1,7,0,'b','2024-02-05 00:00:00'),(3,2,NULL,2,NULL,NULL)")
    fk = {} if not isinstance(d.get("fill"), (int, float)) else {"fill_nulls_with": d["fill"]}     # a number fills the numeric metrics; a string fills the text-valued ones below
    mets = [Metric(name=d["meas"], agg="sum", sql=d["meas_col"], **fk), Metric(name=d["cnt"], agg="count"),
            Metric(name=d["rat"], type="ratio", numerator=d["meas"], denominator=d["cnt"], **fk), Metric(name=d["der"], type="derived", sql="%s + %s" % (d["meas"], d["cnt"]), **fk)]
    if isinstance(d.get("fill"), str):
        mets.append(Metric(name="zz_lbl", agg="max", sql="s0", fill_nulls_with=d["fill"]))
        mets.append(Metric(name="zz_lbl_d", type="derived", sql="zz_lbl", fill_nulls_with=d["fill"]))
    if d["inline"]:
        mets.append(Metric(name="ex_inline", sql="SUM(c0) + COUNT(*)"))
    src = dict(sql="SELECT * FROM tbl1 WHERE c1 >= 0") if d["sql_backed"] else dict(table="tbl1")
    gfirst = d.get("graph_metric") == "before"
    if gfirst:
        # a graph-level derived metric over UNQUALIFIED measure names, accepted BEFORE the model that owns them is registered
        try:
            L.add_metric(Metric(name="gm_total", type="derived", sql="%s + %s" % (d["meas"], d["cnt"])))
        except Exception:
            gfirst = False
    try:
        from harness import inherit
        L.add_model(inherit.maybe(Model(name=d["model"], primary_key=(["id", "id2"] if d["composite"] else "id"),
                          dimensions=[Dimension(name=d["dim"], type="categorical", sql="s0", supported_granularities=d.get("sg_cat")),
                                      # the time dimension's SQL is a bare column, or an expression over it written with or without parentheses (chosen from the names, not from the random stream)
                                      Dimension(name="t_" + d["dim"][:6], type="time", granularity="day", sql=["ts", "ts + INTERVAL 1 DAY", "ts::timestamp", "CAST(ts AS TIMESTAMP)", "ts - INTERVAL 2 HOUR"][(len(d["dim"]) + len(d["meas"])) % 5],
                                                supported_granularities=d.get("sg_time"))],
                          # a second segment names the model's own DIMENSION (whose name is not a column of the source) instead of the raw column
                          metrics=mets, segments=[Segment(name=d["seg"], sql="{model}.s0 = 'a'")] + ([Segment(name="zz_by_dim", sql="{model}.\"%s\" = 'a'" % d["dim"])] if d["dim"] not in COLS else []), **src),
                                   sorted((k_, repr(v_)) for k_, v_ in d.items()), one_in=3))      # one definition in three: the same fields obtained through `extends`
    except Exception as e:
        return False, {"add_model": "%s: %s" % (type(e).__name__, str(e)[:100])}
    if d.get("graph_metric") == "after":
        try:
            L.add_metric(Metric(name="gm_total", type="derived", sql="%s + %s" % (d["meas"], d["cnt"])))
            gfirst = True
        except Exception:
            pass
    m = d["model"]
    qs = {"dim": dict(dimensions=["%s.%s" % (m, d["dim"])]), "meas": dict(metrics=["%s.%s" % (m, d["meas"])]), "count": dict(metrics=["%s.%s" % (m, d["cnt"])]),
          "ratio": dict(metrics=["%s.%s" % (m, d["rat"])]), "derived": dict(metrics=["%s.%s" % (m, d["der"])]),
          "segment": dict(metrics=["%s.%s" % (m, d["cnt"])], segments=["%s.%s" % (m, d["seg"])]),
          }
    if d["dim"] not in COLS:          # (a dimension named like a raw column is the column when a segment names it: no separate question)
        qs["segment_by_dimension"] = dict(metrics=["%s.%s" % (m, d["cnt"])], segments=["%s.zz_by_dim" % m])
    for gname in (d.get("sg_time") or ("hour", "day", "week", "month", "quarter", "year")):
        qs["time__" + gname] = dict(dimensions=["%s.t_%s__%s" % (m, d["dim"][:6], gname)])
    if isinstance(d.get("fill"), str):
        qs["text_fill"] = dict(metrics=["%s.zz_lbl" % m])
        qs["text_fill_derived"] = dict(metrics=["%s.zz_lbl_d" % m])
    if d["inline"]:
        qs["inline"] = dict(metrics=["%s.ex_inline" % m])
    if gfirst:
        qs["graph_metric"] = dict(metrics=["gm_total"])
    errs = {}
    for k, q in qs.items():
        try:
            L.conn.execute(L.compile(**q)).fetchall()
        except Exception as e:
            errs[k] = "%s: %s" % (type(e).__name__, str(e)[:110].replace("\n", " "))
    # a granularity on the NON-time dimension is rejected by validation, whatever attributes the dimension carries
    if "__" not in d["dim"]:
        from sidemantic.validation import QueryValidationError
        for gname in ("day", "month", "year"):
            try:
                L.compile(dimensions=["%s.%s__%s" % (m, d["dim"], gname)])
                errs["nontime__" + gname] = "NOT REJECTED: SQL was produced for a granularity on a non-time dimension"
            except QueryValidationError:
                pass
            except Exception as e:
                errs["nontime__" + gname] = "not a validation error: %s: %s" % (type(e).__name__, str(e)[:90].replace("\n", " "))
    return True, errs


def part_b(c, n):
    stats = {"definitions": 0, "accepted": 0, "single_field_queries": 0, "failing_known": 0, "rejected_at_registration": 0}
    for d in corpus_defns() + [gen_defn(c.rng) for _ in range(n)]:
        stats["definitions"] += 1
        ok, errs = try_defn(d)
        if not ok:
            stats["rejected_at_registration"] += 1
            continue
        stats["accepted"] += 1
        stats["single_field_queries"] += 12 + d["inline"]
        if not errs:
            if len(c.samples) < 3 and d["model"] not in ("orders",):
                c.samples.append({"definition": d, "single_field_queries": "all compile and execute"})
            continue
        kinds = classify_defn(d)
        if kinds and all(c.is_open(k) for k in kinds):
            for k in kinds:
                c.known(k)
            stats["failing_known"] += 1
            continue
        c.violation("an accepted definition has a field that cannot be queried by itself: %s" % json.dumps(errs)[:200], {"kind": "usable", "definition": d, "errors": errs})
    return stats


def corpus_defns():
    base = dict(model="orders", dim="status", meas="rev", cnt="cnt", rat="rat", der="der", seg="seg", sql_backed=False, composite=False, inline=False, meas_col="c0")
    return [base, dict(base, model="x_cte_y"), dict(base, dim="select"), dict(base, dim="rev_raw"), dict(base, model="order items"), dict(base, meas="c0", inline=True), dict(base, dim="d__x"),
            dict(base, composite=True, sql_backed=True, inline=True), dict(base, model="select", dim="order", meas="group", cnt="count")]


def run(c):
    c.trusted += ["modelled, not verified: Model/Valid.v (validate_query on parsed references) is hand-written, tied by comparing error kinds with the real function; it reuses Model/Graph.v (C10)",
                  "usability ('executes without error') is decided by DuckDB on the executed single-field queries: not a theorem",
                  "harness: splitting a reference at '__' and '.' the way validate_query does"]
    c.assumptions += ["references contain at most one dot (a second dot makes validate_query raise ValueError from tuple unpacking: outside the modelled fragment)"]
    try:
        import os
        from translator import gen_validate
        lib.write_if_changed(os.path.join(lib.COQ, "Gen", "Validate_gen.v"), gen_validate.generate(lib.REPO))
        c.obligation("translator: error table of validate_query (154 scripted scenarios) regenerated", True, "translator")
        same = gen_validate.table(lib.REPO) == gen_validate.table(lib.REPO, real=True)
        c.obligation("translator validation: interpreted validate_query == the real function under CPython on the same scenarios", same, "translator")
    except Exception as e:
        c.obligation("translator: error table of validate_query regenerated", False, "translator", repr(e)[-900:])
    c.trusted.append("translator/pyinterp.py + gen_validate.py (fail-closed definitional interpreter; the error-text classifier is trusted; validated against CPython each run)")
    lib.regen_small(c, "_parse_dimension_refs")
    lib.regen_cte(c)
    c.build_props()
    na = 420 if c.tier == "quick" else 6000
    nb = 90 if c.tier == "quick" else 1500
    n_a, stats_a = part_a(c, na)
    stats_b = part_b(c, nb)
    c.obligation("oracle: ill-formed queries raise QueryValidationError; every field of an accepted definition can be queried by itself (outside the listed classes)", not c.violations, "correspondence")
    c.coverage.update({"evaluations": n_a + stats_b["single_field_queries"], "distinct_nontrivial": stats_a["rejected"] + stats_b["accepted"],
                       "rule": "A: graphs of 2-5 models (random many_to_one / one_to_many / one_to_one links, some models disconnected, graph-level metrics) x reference lists mixing valid, unknown-model, unknown-field, "
                               "bad-granularity, granularity-on-non-time, unqualified and disconnected references (plain and granular); B: definitions with adversarial legal names (keywords, _cte / _raw suffixes, column names, "
                               "case, leading underscore, names needing quotes), table- or sql-backed, single / composite key, every metric kind, each of the 12-13 single-field queries executed; non-trivial = rejected query or accepted definition",
                       "traces_validated_against_impl": n_a, "distribution": {"validate_query": stats_a, "usability": stats_b}, "exhaustive": False})


def replay(path):
    body = json.load(open(path))
    r = body["replay"]
    if r.get("kind") == "usable":
        ok, errs = try_defn(r["definition"])
        print(ok, errs)
        return 1 if ok and errs else 0
    if r.get("kind") == "reject":
        from sidemantic.validation import QueryValidationError
        G = r["graph"]
        G["rels"] = {k: [tuple(x) for x in v] for k, v in G["rels"].items()}
        G["gm"] = [tuple(x) for x in G["gm"]]
        L = real_layer(G)
        try:
            L.compile(metrics=r["metrics"], dimensions=r["dimensions"])
            print("compiled")
            return 1
        except QueryValidationError as e:
            print("QueryValidationError", e)
            return 0
        except Exception as e:
            print(type(e).__name__, e)
            return 1
    print(json.dumps(r, indent=1)[:2000])
    return 1
