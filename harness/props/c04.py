"""C04 — filters restrict rows the same way wherever they are evaluated.

Proof:  Props/C04.v (conjunction = list = any order; pushdown = filter after the join; semi-join reading; metric filters are local).
Tie:    forests x queries with filters on fields of base and joined models (selected or not): the real rows vs Model/Plan+Join.
Oracle: (a) `spec_join` over the wide rows that satisfy the filters (semi-join), shared with C02;
        (b) metamorphic, on the implementation only: the same filters as one conjunction / split / reversed / as segments
            (with and without {model}) must return identical rows; a filter over a metric value must equal post-filtering
            the unfiltered result; a filter on one metric must leave the other metrics' columns unchanged.
"""
import json
import warnings

from harness import joingen as jg, lib, semgen as sg
from harness.props import c02

warnings.filterwarnings("ignore")
STRS = ["a", "b", "c", "it's", "ma.s0 = 'x'", "select", "a%", "a  b", "a b", " a"]   # incl. runs of blanks: literal content is data, not layout


def coq_like(e):
    return "(Like %s %s)" % (sg.coq(e[1]), lib.coq_string(e[2]))


def gen_filter(rnd):
    r = rnd.random()
    c1, s0 = jg.jcol("c1"), jg.jcol("s0")
    if rnd.random() < 0.15:
        # a filter on the model's KEY (or its foreign key) only: 99 is the dangling foreign-key value of the generated data, so a row of the
        # filtered model with key 99 does not exist and nothing may be "connected" to it
        k = rnd.choice([jg.jcol("id"), jg.jcol("id"), jg.jcol("fk_a")])
        return rnd.choice([("in", k, [rnd.choice([1, 2, 3]), 99]), ("cmp", "=", k, sg.lit(99)), ("cmp", ">=", k, sg.lit(rnd.choice([1, 2]))),
                           ("cmp", "<>", k, sg.lit(rnd.choice([1, 2]))), ("between", k, sg.lit(2), sg.lit(99))])
    if r < 0.2:
        return ("cmp", rnd.choice(["=", "<>", "<", ">="]), s0, sg.lit(rnd.choice(STRS)))
    if r < 0.4:
        return ("cmp", rnd.choice(list(sg.CMPS)), c1, sg.lit(rnd.choice([0, 1, 2])))
    if r < 0.5:
        return ("in", rnd.choice([c1, s0]) if False else c1, [rnd.choice([0, 1, 2, None]) for _ in range(rnd.randint(1, 3))])
    if r < 0.58:
        return ("in_s", s0, [rnd.choice(STRS) for _ in range(rnd.randint(1, 3))])
    if r < 0.66:
        return ("between", c1, sg.lit(rnd.choice([0, 1])), sg.lit(rnd.choice([1, 2])))
    if r < 0.74:
        return ("like", s0, rnd.choice(["a%", "%s", "_", "%'%", "%.%", "b", "%  %", "a _"]))
    if r < 0.84:
        return rnd.choice([("isnull", s0), ("not", ("isnull", c1)), ("not", ("isnull", s0))])
    if r < 0.92:
        return ("not", ("cmp", "=", s0, sg.lit(rnd.choice(STRS))))
    return ("or", ("cmp", "=", s0, sg.lit(rnd.choice(STRS))), ("cmp", ">", c1, sg.lit(rnd.choice([0, 1]))))


def fsql(e, q=""):
    if e[0] == "like":
        return "(%s LIKE %s)" % (fsql(e[1], q), sg.sql(sg.lit(e[2])))
    if e[0] == "in_s":
        return "(%s IN (%s))" % (fsql(e[1], q), ", ".join(sg.sql(sg.lit(v)) for v in e[2]))
    if e[0] == "not":
        return "(NOT %s)" % fsql(e[1], q)
    if e[0] in ("and", "or"):
        return "(%s %s %s)" % (fsql(e[1], q), e[0].upper(), fsql(e[2], q))
    return jg.jsql(e, q)


def fcoq(e):
    if e[0] == "like":
        return coq_like(e)
    if e[0] == "in_s":
        return "(InList %s [%s])" % (sg.coq(e[1]), "; ".join(sg.coq_val(v) for v in e[2]))
    if e[0] == "not":
        return "(Not %s)" % fcoq(e[1])
    if e[0] in ("and", "or"):
        return "(%s %s %s)" % (e[0].capitalize(), fcoq(e[1]), fcoq(e[2]))
    return sg.coq(e)


def gen_case(rnd):
    f = jg.gen_forest(rnd, nmodels=rnd.randint(1, 4))
    # richer string data for the filters
    for m in f["models"]:
        for r in m["rows"]:
            if rnd.random() < 0.5:
                r[jg.CI["s0"]] = rnd.choice(STRS + [None])
    names = [m["name"] for m in f["models"]]
    mm = rnd.choice(names)
    q = dict(dims=[(rnd.choice(names), rnd.choice([jg.jcol("s0"), jg.jcol("c1")])) for _ in range(rnd.choice([0, 1, 1, 2]))],
             mets=[(mm, rnd.choice(["sum", "count", "min", "max", "count_distinct", "avg"]), jg.jcol("c0"), []) for _ in range(rnd.choice([1, 2]))],
             filters=[(rnd.choice(names), gen_filter(rnd)) for _ in range(rnd.choice([1, 1, 2, 3]))])
    if rnd.random() < 0.3:
        q["mets"][0] = (mm, "count", None, [])
    if rnd.random() < 0.3:
        # a COMPUTED dimension (top operator of low precedence, written without outer parentheses) of any model, and a filter that names it under a
        # tighter-binding operator: the dimension's VALUE is what must be compared, on the base model and on joined models alike
        dm = rnd.choice(names)
        e = (rnd.choice(["sub", "add"]), jg.jcol("c0"), jg.jcol("c1"))
        q["dims"] = q["dims"][:1] + [(dm, e)]
        d = ("dref", len(q["dims"]) - 1, e)
        q["filters"].append((dm, rnd.choice([("cmp", rnd.choice([">=", "<", "<>"]), ("mul", d, sg.lit(rnd.choice([2, -1, 3]))), sg.lit(rnd.choice([0, 2, 4, -2]))),
                                             ("cmp", rnd.choice([">=", "<"]), ("sub", sg.lit(rnd.choice([1, 3])), d), sg.lit(rnd.choice([0, 1, 2]))),
                                             ("not", ("cmp", "=", ("mul", sg.lit(2), d), sg.lit(rnd.choice([0, 2, 4]))))])))
    return f, q


def gen_key_case(rnd):
    """targeted family: a filter (or segment) that mentions only the KEY of a model the rest of the query does not need, next to
    rows of the metric model whose foreign key is dangling (value 99, no row on the other side) or NULL.  The filter restricts the
    metric to rows CONNECTED to a row satisfying it -- a dangling row is connected to nothing, whatever its key value."""
    for _ in range(50):
        f = jg.gen_forest(rnd, nmodels=rnd.randint(2, 3))
        links = [(c, p) for (c, p, ty, comp) in f["links"] if not comp and len(f["models"][c]["rows"]) >= 2 and f["models"][p]["rows"]]
        if not links:
            continue
        c, p = rnd.choice(links)
        child, parent = f["models"][c], f["models"][p]
        rows = child["rows"]
        rows[0][jg.CI["fk_a"]], rows[0][jg.CI["fk_b"]] = 99, "k99"                    # dangling
        rows[1][jg.CI["fk_a"]], rows[1][jg.CI["fk_b"]] = parent["rows"][0][0], parent["rows"][0][1]
        k = jg.jcol("id")
        flt = rnd.choice([("in", k, [parent["rows"][0][0], 99]), ("cmp", "=", k, sg.lit(99)), ("cmp", ">=", k, sg.lit(1)), ("cmp", "<>", k, sg.lit(parent["rows"][0][0])),
                          ("between", k, sg.lit(1), sg.lit(99)), ("not", ("cmp", "=", k, sg.lit(parent["rows"][0][0])))])
        q = dict(dims=[(child["name"], jg.jcol("s0"))] if rnd.random() < 0.5 else [],
                 mets=[(child["name"], rnd.choice(["sum", "count", "max"]), jg.jcol("c0"), []), (child["name"], "count", None, [])],
                 filters=[(parent["name"], flt)])
        return f, q
    return gen_case(rnd)


def gen_negated_or_case(rnd):
    """targeted family: a single-model filter of the shape NOT ((p AND q) OR r) / NOT (p OR (q AND r)) / NOT (p OR q): the negation of a disjunction whose branch is a
    conjunction, on data where p and q are both false for some row (so NOT p AND q differs from NOT (p AND q))"""
    f, q = gen_case(rnd)
    m = rnd.choice(f["models"])["name"]
    c1, s0 = jg.jcol("c1"), jg.jcol("s0")
    p_ = ("cmp", "=", s0, sg.lit(rnd.choice(["a", "b"])))
    q_ = ("cmp", rnd.choice([">", ">="]), c1, sg.lit(rnd.choice([0, 1])))
    r_ = rnd.choice([("isnull", c1), ("cmp", "=", c1, sg.lit(2)), ("cmp", "=", s0, sg.lit("c"))])
    e = rnd.choice([("not", ("or", ("and", p_, q_), r_)), ("not", ("or", r_, ("and", p_, q_))), ("not", ("or", p_, q_)), ("not", ("and", ("or", p_, r_), q_))])
    q = dict(q, filters=[(m, e)] + [x for x in q["filters"] if x[0] != m][:1], bare_top=True)
    return f, q


def gen_same_predicate_case(rnd):
    """targeted family: the SAME predicate on two (or three) different models of one query -- as segments they carry the same name and the same SQL"""
    for _ in range(40):
        f = jg.gen_forest(rnd, nmodels=rnd.randint(2, 4), allow_m2m=False)
        if len(f["models"]) < 2 or not f["links"]:
            continue
        c0, p0 = rnd.choice([(c, p) for (c, p, ty, comp) in f["links"]])
        ms = [f["models"][c0]["name"], f["models"][p0]["name"]]
        e = rnd.choice([("cmp", ">", jg.jcol("c1"), sg.lit(0)), ("not", ("isnull", jg.jcol("s0"))), ("cmp", "<>", jg.jcol("s0"), sg.lit("b")), ("in", jg.jcol("c1"), [0, 2])])
        mm = rnd.choice(ms)
        q = dict(dims=[(rnd.choice(ms), jg.jcol("s0"))] if rnd.random() < 0.6 else [], mets=[(mm, rnd.choice(["sum", "count", "max"]), jg.jcol("c0"), []), (mm, "count", None, [])],
                 filters=[(m, e) for m in ms])
        return f, q
    return gen_case(rnd)


def strip_outer(t):
    """the text without ONE pair of enclosing parentheses, when the first '(' closes at the very end"""
    if not (t.startswith("(") and t.endswith(")")):
        return t
    depth, in_str = 0, False
    for i, ch in enumerate(t):
        if ch == "'":
            in_str = not in_str
        elif not in_str and ch == "(":
            depth += 1
        elif not in_str and ch == ")":
            depth -= 1
            if depth == 0 and i != len(t) - 1:
                return t
    return t[1:-1]


def run_variant(f, q, variant):
    """execute the query with its filters written in one of several equivalent ways; returns sorted canonical rows"""
    from sidemantic.core.segment import Segment
    if q.get("bare_top"):
        # filters as users write them: NOT (...) / a OR b without an enclosing pair of parentheses
        _fsql = lambda e, qq="": strip_outer(fsql(e, qq))
    else:
        _fsql = fsql
    dbm, mbm, drefs, mrefs = c02.field_names(q)
    extra = {}
    filters, segments = [], []
    fl = list(q["filters"])
    if variant == "reversed":
        fl = fl[::-1]
    if variant in ("list", "reversed"):
        filters = [_fsql(e, m + ".") for m, e in fl]
    elif variant == "conj":
        # one conjunction: the parts keep their own parentheses (a bare `a OR b` next to AND would change its meaning)
        filters = [" AND ".join(fsql(e, m + ".") for m, e in fl)]
    elif variant in ("segment_model", "segment_bare"):
        # the same predicate text gets the same segment NAME on every model that carries it (a soft-delete `live` segment declared on several models)
        texts = []
        for i, (m, e) in enumerate(fl):
            t = _fsql(e, "{model}." if variant == "segment_model" else "")
            if t not in texts:
                texts.append(t)
            nm = "sg%d" % texts.index(t)
            if not any(sgm.name == nm for sgm in extra.get(m, {}).get("segments", [])):
                extra.setdefault(m, {}).setdefault("segments", []).append(Segment(name=nm, sql=t))
            segments.append("%s.%s" % (m, nm))
    L = jg.real_layer(f, mbm, dbm, extra_model_kw=extra)
    sql = L.compile(metrics=mrefs, dimensions=drefs, filters=filters, segments=segments or None)
    cur = L.conn.execute(sql)
    cols = [d[0] for d in cur.description]
    return cols, cur.fetchall(), sql


def reuse_probe(f, q):
    """a caller keeps ONE filters list (holding the first filter) and passes it to two queries on one layer: first together with the other filters
    written as segments, then alone.  The second query names no segment, so it must return the rows of a fresh layer given a fresh list with that one filter."""
    from sidemantic.core.segment import Segment
    dbm, mbm, drefs, mrefs = c02.field_names(q)
    fl = list(q["filters"])
    rest = fl[1:] or [(fl[0][0], ("not", fl[0][1]))]
    extra, segments = {}, []
    for i, (m, e) in enumerate(rest):
        extra.setdefault(m, {}).setdefault("segments", []).append(Segment(name="sg%d" % i, sql=fsql(e, "{model}.")))
        segments.append("%s.sg%d" % (m, i))
    L = jg.real_layer(f, mbm, dbm, extra_model_kw=extra)
    text0 = fsql(fl[0][1], fl[0][0] + ".")
    shared, mlist, dlist, slist = [text0], list(mrefs), list(drefs), list(segments)
    first = L.conn.execute(L.compile(metrics=mlist, dimensions=dlist, filters=shared, segments=slist)).fetchall()
    second = L.conn.execute(L.compile(metrics=mlist, dimensions=dlist, filters=shared)).fetchall()
    L2 = jg.real_layer(f, mbm, dbm, extra_model_kw=extra)
    fresh = L2.conn.execute(L2.compile(metrics=list(mrefs), dimensions=list(drefs), filters=[text0])).fetchall()
    return first, second, fresh, dict(filters_list_before=[text0], filters_list_after=list(map(str, shared)), metrics_list_after=mlist, dimensions_list_after=dlist, segments_list_after=slist)


def canon(rows):
    from harness import dbutil
    return dbutil.canon_rows(rows)


def run(c):
    c.trusted += ["Model/Plan.v + Model/Join.v (shared with C02) as the model of pushdown / INNER-if-filtered; harness/semgen.py + this file render one filter AST to SQL text and to Gallina",
                  "sqlglot's parse/print of a filter inside the generator is an oracle (the harness feeds text); segments, relative-date rewriting and the text-level model.field -> cte.field rewrite are exercised end to end only",
                  "metamorphic relations are checked on the implementation alone (no model involved)"]
    try:
        import os
        from translator import gen_classify
        lib.write_if_changed(os.path.join(lib.COQ, "Gen", "Classify_gen.v"), gen_classify.generate(lib.REPO))
        c.obligation("translator: behaviour table of _classify_filters_for_pushdown (141 scripted filter lists, scripted sqlglot) regenerated", True, "translator")
        same = gen_classify.table(lib.REPO) == gen_classify.real_table(lib.REPO)
        c.obligation("translator validation: interpreted _classify_filters_for_pushdown == the real method under CPython on the same scripted parse trees", same, "translator")
    except Exception as e:
        c.obligation("translator: behaviour table of _classify_filters_for_pushdown regenerated", False, "translator", repr(e)[-900:])
    c.trusted.append("translator/pyinterp.py + gen_classify.py (fail-closed definitional interpreter; sqlglot's parse trees are scripted: the table covers the method's own logic, not sqlglot's parser)")
    lib.regen_small(c, "_join_conjuncts")
    lib.regen_cte(c)
    lib.regen_refrewrite(c)
    c.build_props()
    n = 120 if c.tier == "quick" else 1500
    cases = [gen_case(c.rng) for _ in range(n)] + [gen_key_case(c.rng) for _ in range(n // 6)] + [gen_same_predicate_case(c.rng) for _ in range(n // 8)] + [gen_negated_or_case(c.rng) for _ in range(max(12, n // 8))]
    # every fourth case under model names that contain one another (items / line_items / order_line_items / itemsx / items_raw)
    cases = [jg.rename_case(f_, q_) if k_ % 4 == 1 else (f_, q_) for k_, (f_, q_) in enumerate(cases)]
    outs = None
    if lib.coq_make(["Proofs/C02_proofs.vo", "Model/Plan.vo"])[0]:
        try:
            terms = []
            for f, q in cases:
                t = c02.coq_term(f, dict(q, filters=[]))
                fls = "; ".join("{| pf_model := %s; pf_expr := %s |}" % (lib.coq_string(m), fcoq(e)) for m, e in q["filters"])
                terms.append(t.replace("pq_filters := [] |}", "pq_filters := [%s] |}" % fls))
            outs = lib.coq_eval("c04_cases", c02.PREAMBLE, terms, chunk=30)
        except RuntimeError as e:
            c.obligation("model evaluation", False, "correspondence", str(e)[-1500:])
    stats = {"compared_spec": 0, "variants_run": 0, "joined": 0, "k_c02": 0, "having": 0, "metric_local": 0, "forms": {}}
    fid_bad, nontrivial = [], 0
    for i, (f, q) in enumerate(cases):
        for _, e in q["filters"]:
            stats["forms"][e[0]] = stats["forms"].get(e[0], 0) + 1
        results = {}
        errors = {}
        for v in ("list", "conj", "reversed", "segment_model", "segment_bare"):
            try:
                cols, rows, sql = run_variant(f, q, v)
                results[v] = (cols, canon(rows), rows, sql)
                stats["variants_run"] += 1
            except Exception as e:
                errors[v] = "%s: %s" % (type(e).__name__, str(e)[:200])
        if errors:
            c.violation("a filtered query fails in the form(s) %s" % sorted(errors), {"kind": "case", "forest": f, "query": q, "errors": errors})
            continue
        base = results["list"]
        diff = [v for v in results if results[v][1] != base[1]]
        if diff:
            c.violation("the same filters written as %s return different rows than as a list" % diff,
                        {"kind": "case", "forest": f, "query": q, "list_rows": [list(map(str, r)) for r in base[2][:8]], "other": {v: [list(map(str, r)) for r in results[v][2][:8]] for v in diff}, "sql": {v: results[v][3][-700:] for v in diff}})
            continue
        if q["filters"] and i % 3 == 0:
            try:
                first, second, fresh, after = reuse_probe(f, q)
                stats["reused_lists"] = stats.get("reused_lists", 0) + 1
                if (len(q["filters"]) > 1 and canon(first) != base[1]) or canon(second) != canon(fresh):
                    c.violation("a query is restricted by the segments of an EARLIER query that was given the same filters list object" if canon(second) != canon(fresh) else "the segment form returns other rows when the lists are the caller's own",
                                {"kind": "reuse", "forest": f, "query": q, "second_rows": [list(map(str, r)) for r in second[:8]], "unfiltered_rows": [list(map(str, r)) for r in fresh[:8]], "lists_after": after})
                    continue
            except Exception as e:
                c.violation("re-using the caller's lists fails: %s" % str(e)[:150], {"kind": "reuse", "forest": f, "query": q})
                continue
        if len(base[2]) > 1:
            nontrivial += 1
        # oracle (a): spec over the model
        if outs is not None:
            out = sg.unquote(outs[i])
            if out.startswith("OK#"):
                _, m_line, s_line, flags, slots = out.split("#")
                flags = flags.split(",") if flags else []
                stats["joined"] += len(slots.split(",")) > 1
                if m_line != "REJECTED":
                    exempt_spec, exempt_model = set(), set()
                    for j, fl in enumerate(flags):
                        sym, safe, hasnull = fl[0] == "1", fl[1] == "1", fl[2] == "1"
                        agg = q["mets"][j][1]
                        if ((not sym) and (not safe) and agg in ("sum", "avg", "count")) or (sym and agg in ("sum", "avg", "count") and hasnull):
                            exempt_spec.add(j)           # C02-K1 / C02-K2: the metric is multiplied / garbled whatever the filters are
                            if sym and agg in ("sum", "avg"):
                                exempt_model.add(j)
                    stats["k_c02"] += bool(exempt_spec)
                    if not c02.compare(q, base[2], sg.parse_show(m_line), exempt_model):
                        fid_bad.append({"forest": f, "query": q, "model": m_line[:300], "impl": [list(map(str, r)) for r in base[2][:8]]})
                    stats["compared_spec"] += 1
                    if not c02.compare(q, base[2], sg.parse_show(s_line), exempt_spec):
                        c.violation("a filtered query does not restrict the metrics to the rows connected to a row satisfying the filter",
                                    {"kind": "case", "forest": f, "query": q, "impl_rows": [list(map(str, r)) for r in base[2][:10]], "spec_rows": s_line[:700], "sql": base[3][-900:]})
        if len(c.samples) < 3 and len(base[2]) > 1:
            c.samples.append({"filters": [(m, fsql(e)) for m, e in q["filters"]], "dims": q["dims"], "metrics": [(m, a) for m, a, *_ in q["mets"]], "rows": [list(map(str, r)) for r in base[2][:4]]})
    if outs is not None:
        c.obligation("correspondence: Model/Plan+Join == compile()+DuckDB on filtered queries (%d compared)" % stats["compared_spec"], not fid_bad, "correspondence", json.dumps(fid_bad[:1], default=str)[:1800])
    having_and_local(c, stats)
    having_with_rollup(c, stats)
    suffix_names(c, stats)
    c.obligation("oracle: semi-join spec and metamorphic filter forms agree on %d queries x 5 forms" % len(cases), not c.violations, "correspondence")
    c.coverage.update({"evaluations": stats["variants_run"], "distinct_nontrivial": nontrivial,
                       "rule": "forests of 1-4 models x queries with 1-3 filters (comparisons, IN, BETWEEN, LIKE, IS [NOT] NULL, NOT, single-model OR, literals with quotes / model names / keywords) on selected and "
                               "non-selected fields of base and joined models, each executed as list / one conjunction / reversed / segment with {model} / segment with bare columns; non-trivial = more than one result row",
                       "traces_validated_against_impl": stats["compared_spec"], "distribution": stats, "exhaustive": False})


def having_and_local(c, stats):
    """(b) post-aggregation filters and locality of metric filters, on the implementation alone"""
    from harness import dbutil
    for k in range(12 if c.tier == "quick" else 120):
        f = jg.gen_forest(c.rng, nmodels=1)
        m = f["models"][0]["name"]
        q0 = dict(dims=[(m, jg.jcol("s0"))], mets=[(m, "sum", jg.jcol("c0"), []), (m, "count", None, [])], filters=[])
        dbm, mbm, drefs, mrefs = c02.field_names(q0)
        thr = c.rng.choice([0, 1, 2, 5])
        try:
            L = jg.real_layer(f, mbm, dbm)
            base = L.conn.execute(L.compile(metrics=mrefs, dimensions=drefs)).fetchall()
            hav = L.conn.execute(L.compile(metrics=mrefs, dimensions=drefs, filters=["%s.m1 > %d" % (m, thr)])).fetchall()
        except Exception as e:
            c.violation("metric-value filter fails: %s" % str(e)[:150], {"kind": "having", "forest": f, "threshold": thr})
            continue
        stats["having"] += 1
        if dbutil.canon_rows(hav) != dbutil.canon_rows([r for r in base if r[2] is not None and r[2] > thr]):
            c.violation("a filter over a metric's value is not applied after aggregation", {"kind": "having", "forest": f, "threshold": thr, "unfiltered": [list(map(str, r)) for r in base], "filtered": [list(map(str, r)) for r in hav]})
        # locality: adding a filter to metric m1 must not change column m0
        q1 = dict(q0, mets=[q0["mets"][0], (m, "count", None, [("cmp", ">", jg.jcol("c1"), sg.lit(0))])])
        dbm1, mbm1, _, _ = c02.field_names(q1)
        L1 = jg.real_layer(f, mbm1, dbm1)
        loc = L1.conn.execute(L1.compile(metrics=mrefs, dimensions=drefs)).fetchall()
        stats["metric_local"] += 1
        if dbutil.canon_rows([r[:2] for r in loc]) != dbutil.canon_rows([r[:2] for r in base]):
            c.violation("a filter declared on one metric changes another metric", {"kind": "local", "forest": f, "without": [list(map(str, r)) for r in base], "with": [list(map(str, r)) for r in loc]})


def having_with_rollup(c, stats):
    """a filter over a metric's value when a rollup of the model is available (use_preaggregations on and off): whatever table answers the query, the filter keeps
    exactly the groups of the unfiltered result whose value satisfies it -- also when a group's rollup rows lie on both sides of the threshold"""
    import random
    from harness import dbutil
    from sidemantic import Dimension, Metric, Model
    from sidemantic.core.pre_aggregation import PreAggregation
    rng = random.Random(c.seed * 17 + 5)          # a stream of its own
    for k in range(6 if c.tier == "quick" else 60):
        L = dbutil.fresh_layer()
        L.conn.execute("create table ev(id bigint, cat varchar, ts timestamp, amt bigint)")
        rows = []
        for i in range(rng.choice([8, 12, 16])):
            rows.append((i + 1, rng.choice(["a", "a", "b", "c"]), "2024-01-%02d 0%d:00:00" % (rng.choice([1, 1, 2, 3, 15]), rng.randint(0, 9)), rng.choice([5, 10, 20, 40, 60, 80])))
        L.conn.executemany("insert into ev values (?,?,?,?)", rows)
        model = Model(name="ev", table="ev", primary_key="id", dimensions=[Dimension(name="cat", type="categorical"), Dimension(name="ts", type="time", granularity="day", sql="ts")],
                      metrics=[Metric(name="total", agg="sum", sql="amt"), Metric(name="n", agg="count"), Metric(name="top", agg="max", sql="amt")],
                      pre_aggregations=[PreAggregation(name="r", measures=["total", "n", "top"], dimensions=["cat"], time_dimension="ts", granularity="day")])
        L.add_model(model)
        pre = model.pre_aggregations[0]
        L.conn.execute("create table %s as %s" % (pre.get_table_name("ev"), pre.generate_materialization_sql(model)))
        thr = rng.choice([15, 50, 70, 100])
        for dims in (["ev.cat"], ["ev.cat", "ev.ts__day"], ["ev.cat", "ev.ts__month"], []):
            for met, idx_name in (("ev.total", "total"), ("ev.n", "n"), ("ev.top", "top")):
                t = thr if met != "ev.n" else rng.choice([1, 2, 3])
                for use in (False, True):
                    kw = dict(metrics=["ev.total", "ev.n", "ev.top"], dimensions=dims, use_preaggregations=use)
                    try:
                        cur = L.conn.execute(L.compile(**kw))
                        cols = [d[0] for d in cur.description]
                        base = cur.fetchall()
                        hav = L.conn.execute(L.compile(filters=["%s > %d" % (met, t)], **kw)).fetchall()
                    except Exception as e:
                        c.violation("metric-value filter fails with a rollup available: %s" % str(e)[:150], {"kind": "having_rollup", "rows": rows, "dims": dims, "metric": met, "threshold": t, "use_preaggregations": use})
                        continue
                    stats["having"] += 1
                    j = cols.index(idx_name)
                    want = [r for r in base if r[j] is not None and r[j] > t]
                    if dbutil.canon_rows(hav) != dbutil.canon_rows(want):
                        c.violation("a filter over a metric's value is not applied after aggregation (rollup available, use_preaggregations=%s)" % use,
                                    {"kind": "having_rollup", "rows": rows, "dims": dims, "metric": met, "threshold": t, "use_preaggregations": use,
                                     "expected": [list(map(str, r)) for r in want[:8]], "filtered": [list(map(str, r)) for r in hav[:8]]})


def rename_forest(f, mapping):
    import copy
    g = copy.deepcopy(f)
    for m in g["models"]:
        m["name"] = mapping.get(m["name"], m["name"])
        for r in m["rels"]:
            r["name"] = mapping.get(r["name"], r["name"])
            if r.get("through"):
                r["through"] = mapping.get(r["through"], r["through"])
    return g


def suffix_names(c, stats):
    """(c) model names where one ends with the other (items / line_items): a filter over a metric's VALUE and a row filter, each on the longer-named model,
    in a query whose base model is the shorter-named one; the value filter must equal post-filtering of the unfiltered result"""
    from harness import dbutil
    for k in range(10 if c.tier == "quick" else 80):
        f0 = jg.gen_forest(c.rng, nmodels=2, allow_m2m=False, null_measures=False)
        if not f0["links"]:
            continue
        ci, pi, ty, comp = f0["links"][0]
        short, long_ = f0["models"][pi]["name"], f0["models"][ci]["name"]
        f = rename_forest(f0, {short: "items", long_: c.rng.choice(["line_items", "xitems", "order_items"])})
        child, parent = f["models"][ci]["name"], f["models"][pi]["name"]
        q0 = dict(dims=[(parent, jg.jcol("s0"))], mets=[(child, "sum", jg.jcol("c0"), [])], filters=[])
        dbm, mbm, drefs, mrefs = c02.field_names(q0)
        thr = c.rng.choice([0, 1, 2, 5])
        try:
            L = jg.real_layer(f, mbm, dbm)
            base = L.conn.execute(L.compile(metrics=mrefs, dimensions=drefs)).fetchall()
        except Exception as e:
            c.violation("query over models named %s / %s fails: %s" % (parent, child, str(e)[:150]), {"kind": "suffix_names", "forest": f, "threshold": thr})
            continue
        stats["suffix_names"] = stats.get("suffix_names", 0) + 1
        for flt, want in (("%s.m0 > %d" % (child, thr), [r for r in base if r[1] is not None and r[1] > thr]), ("%s.m0 >= %d AND %s.m0 < 1000000" % (child, thr, child), [r for r in base if r[1] is not None and r[1] >= thr])):
            try:
                got = L.conn.execute(L.compile(metrics=mrefs, dimensions=drefs, filters=[flt])).fetchall()
            except Exception as e:
                c.violation("a filter over a metric's value fails when one model's name ends with another's (%s / %s): %s" % (parent, child, str(e)[:140].replace("\n", " ")),
                            {"kind": "suffix_names", "forest": f, "filter": flt, "unfiltered": [list(map(str, r)) for r in base]})
                break
            if dbutil.canon_rows(got) != dbutil.canon_rows(want):
                c.violation("a filter over a metric's value is not applied after aggregation (models %s / %s)" % (parent, child),
                            {"kind": "suffix_names", "forest": f, "filter": flt, "unfiltered": [list(map(str, r)) for r in base], "filtered": [list(map(str, r)) for r in got]})
                break


def replay(path):
    body = json.load(open(path))
    r = body["replay"]
    print(json.dumps({k: v for k, v in r.items() if k != "forest"}, indent=1, default=str)[:3000])
    if r.get("kind") not in ("case", "reuse"):
        return 1
    f, q = r["forest"], r["query"]
    q["dims"] = [(m, c02.sg_t(e)) for m, e in q["dims"]]
    q["mets"] = [(m, a, c02.sg_t(e) if e else None, [c02.sg_t(x) for x in fl]) for m, a, e, fl in q["mets"]]
    q["filters"] = [(m, _ft(e)) for m, e in q["filters"]]
    res = {}
    if r.get("kind") == "reuse":
        first, second, fresh, after = reuse_probe(f, q)
        print("second:", second[:6], "fresh:", fresh[:6], after)
        return 0 if canon(second) == canon(fresh) else 1
    for v in ("list", "conj", "reversed", "segment_model", "segment_bare"):
        try:
            res[v] = canon(run_variant(f, q, v)[1])
        except Exception as e:
            print(v, "fails:", e)
            return 1
    return 0 if all(x == res["list"] for x in res.values()) else 1


def _ft(e):
    if isinstance(e, list):
        if e and e[0] in ("like",):
            return ("like", _ft(e[1]), e[2])
        if e and e[0] == "in_s":
            return ("in_s", _ft(e[1]), e[2])
        if e and e[0] == "in":
            return ("in", _ft(e[1]), e[2])
        return tuple(_ft(x) for x in e)
    return e
