"""C17 — window metrics follow their period definitions.

Proof:  Props/C17.v (cumulative = aggregate over the periods in scope within each combination of the other dimensions, for
        series of any length; LAG on gap-free series = the value k periods earlier; final calculations; the offset table
        regenerated from _calculate_lag_offset is exact on the matching-granularity entries).
Ties:   Gen/LagOffset_gen.v is regenerated from generator.py and compared with the Python function on its whole name domain;
        Model/Window.v is executed (vm_compute) on generated series next to the real compile() + DuckDB: every window column
        must agree with the model (fidelity) and with the reference semantics (property oracle).
"""
import datetime
import json
import math
import warnings
from fractions import Fraction

from harness import dbutil, lib, semgen as sg
from harness.calpy import dfc

warnings.filterwarnings("ignore")
UD = 86400000000
GCOQ = {"day": "Day", "week": "Week", "month": "Month", "quarter": "Quarter", "year": "Year"}
IDX = {"day": "day_idx", "week": "week_idx", "month": "month_idx"}
CALC = {"difference": "Difference", "percent_change": "PercentChange", "ratio": "Ratio"}
CTYPES = ["dod", "wow", "mom", "qoq", "yoy", "prior_period"]

PREAMBLE = """From Coq Require Import ZArith String List Bool DecimalString.
Require Import V.Base.PyLib V.Base.Calendar V.Base.CalendarFacts V.Model.Sem V.Model.Window V.Gen.LagOffset_gen.
Import ListNotations.
Open Scope string_scope.
""" + sg.SHOW + """
Definition skey (x : srow) : string := sz (s_t x) ++ "," ++ String.concat "," (map sv (s_key x)).
Definition showv (l : list (srow * val)) : string := String.concat ";" (map (fun '(x, v) => skey x ++ "|" ++ sv v) l).
Definition showr (l : list (srow * result)) : string := String.concat ";" (map (fun '(x, v) => skey x ++ "|" ++ sr v) l).
Definition R (t : Z) (k : list val) (v : val) := (t, k, v).
(* model#spec for a cumulative metric over the inner rows *)
Definition cum (g : gran) (base : agg) (k : cum_kind) (a : agg) (raw : list (Z * list val * val)) : string :=
  let rows := inner_rows g base raw in
  showr (cumulative k a rows) ++ "#" ++ showr (map (fun x => (x, spec_cumulative k a rows x)) rows).
Definition tc (g : gran) (idx : Z -> Z) (base : agg) (c : calc) (ct gr : option string) (raw : list (Z * list val * val)) : string :=
  let rows := inner_rows g base raw in let k := Z.to_nat (lag_offset ct gr) in
  showv (time_comparison c k rows) ++ "#" ++ showv (map (fun x => (x, compare_calc c (s_val x) (spec_prev idx k rows x))) rows).
Definition oratio (g : gran) (base : agg) (raw raw2 : list (Z * list val * val)) : string :=
  showv (offset_ratio (inner_rows g base raw) (inner_rows g ASum raw2)) ++ "#".
"""


def period_start(gran, start_day, i):
    """epoch day of the i-th period of a series that starts in the period containing start_day"""
    from harness.calpy import civil
    if gran == "day":
        return start_day + i
    if gran == "week":
        monday = start_day - ((start_day + 3) % 7)
        return monday + 7 * i
    y, m, _ = civil(start_day)
    mi = y * 12 + (m - 1) + i
    return dfc(mi // 12, mi % 12 + 1, 1)


def period_len(gran, day0):
    from harness.calpy import civil
    if gran == "day":
        return 1
    if gran == "week":
        return 7
    y, m, _ = civil(day0)
    mi = y * 12 + m
    return dfc(mi // 12, mi % 12 + 1, 1) - day0


def gen_case(rng, tier="quick"):
    gran = rng.choice(["day", "day", "week", "month"])
    n = rng.choice([1, 2, 3, 5, 8, 12] + ([16, 20] if tier == "thorough" else []))
    start = dfc(rng.choice([2023, 2024, 2024, 2025]), rng.choice([1, 2, 3, 6, 12, 12]), rng.choice([1, 15, 25, 28]))
    ndims = rng.choice([0, 0, 1, 1, 2])
    domains = [["a", "b"], ["x", "y", None]][:ndims]
    combos = [[]]
    for d in domains:
        combos = [c + [v] for c in combos for v in d]
    gappy = rng.random() < 0.15
    rows, rid = [], 0
    for i in range(n):
        d0 = period_start(gran, start, i)
        ln = period_len(gran, d0)
        for combo in combos:
            if gappy and rng.random() < 0.3:
                continue
            for _ in range(rng.choice([1, 1, 2, 3])):
                rid += 1
                t = (d0 + rng.randrange(ln)) * UD + rng.choice([0, 1, 3600 * 10 ** 6 * 7, UD - 1])
                rows.append((rid, t, combo, rng.choice([None, 0, 0, 1, 2, 5, 9, -3, 12]), rng.choice([0, 1, 2, 4, None])))
    base_agg = rng.choice(["sum", "sum", "sum", "count", "max"])
    mets = []
    for _ in range(rng.choice([1, 2, 3])):
        r = rng.random()
        if r < 0.55:
            kind = rng.choice(["running", "running", "range", "grain"])
            m = {"type": "cum", "kind": kind, "agg": rng.choice(["sum", "sum", "avg", "count", "min", "max", None])}
            if kind == "range":
                m["n"] = rng.choice([1, 2, 3, 7, 14, 30])
                m["unit"] = rng.choice(["days", "day", "days"])
            if kind == "grain":
                m["grain"] = rng.choice(["week", "month", "quarter", "year"])
            mets.append(m)
        elif r < 0.92:
            mets.append({"type": "tc", "ctype": rng.choice(CTYPES), "calc": rng.choice(["difference", "percent_change", "ratio", None])})
        else:
            mets.append({"type": "oratio"})
    filt = rng.choice([None, None, None, "v", "cat"]) if True else None
    if filt == "cat" and ndims == 0:
        filt = None
    bare = rng.random() < 0.15           # request the bare time dimension (no __gran suffix): its declared granularity applies
    return dict(gran=gran, rows=rows, ndims=ndims, base_agg=base_agg, mets=mets, filt=filt, gappy=gappy, bare=bare, unqualified=rng.random() < 0.3)


def period_index(gran, t):
    from harness.calpy import civil
    d = t // UD
    if gran == "day":
        return d
    if gran == "week":
        return (d + 3) // 7
    y, m, _ = civil(d)
    return y * 12 + m - 1


def is_gap_free(case):
    """consecutive periods within every combination of the other dimensions, after the query filter"""
    per = {}
    for r in case["rows"]:
        if kept(case, r):
            per.setdefault(tuple(r[2]), set()).add(period_index(case["gran"], r[1]))
    return all(max(s) - min(s) + 1 == len(s) for s in per.values())


def metric_defs(case):
    from sidemantic import Metric
    out = [Metric(name="tv", agg=case["base_agg"], sql="v"), Metric(name="tw", agg="sum", sql="w")]
    ref = "tv" if case.get("unqualified") else "t.tv"
    for j, m in enumerate(case["mets"]):
        nm = "m%d" % j
        if m["type"] == "cum":
            kw = dict(name=nm, type="cumulative", sql=ref)
            if m["agg"]:
                kw["agg"] = m["agg"]
            if m["kind"] == "range":
                kw["window"] = "%d %s" % (m["n"], m["unit"])
            if m["kind"] == "grain":
                kw["grain_to_date"] = m["grain"]
            out.append(Metric(**kw))
        elif m["type"] == "tc":
            kw = dict(name=nm, type="time_comparison", base_metric=ref, comparison_type=m["ctype"])
            if m["calc"]:
                kw["calculation"] = m["calc"]
            out.append(Metric(**kw))
        else:
            out.append(Metric(name=nm, type="ratio", numerator="t.tv", denominator="t.tw", offset_window="1 %s" % case["gran"]))
    return out


def kept(case, r):
    if case["filt"] == "v":
        return r[3] is not None and r[3] >= 1
    if case["filt"] == "cat":
        return r[2][0] == "a"
    return True


_PRIMED = []


def prime_process():
    """once per process, before any case: another layer compiles time-comparison and cumulative metrics that carry every optional declaration
    (a custom time_offset, each calculation, windows) at several grains -- what other dashboards of the same service did earlier.  No case may depend on it."""
    if _PRIMED:
        return
    _PRIMED.append(1)
    from sidemantic import Dimension, Metric, Model
    L = dbutil.fresh_layer()
    mets = [Metric(name="tv", agg="sum", sql="v")]
    for k, (ct, off) in enumerate([("prior_period", "2 weeks"), ("yoy", "2 years"), ("mom", "3 months"), ("wow", "2 weeks"), ("dod", "3 days"), ("qoq", "2 quarters"), ("prior_period", "1 month")]):
        for calc in ("difference", "percent_change", "ratio"):
            mets.append(Metric(name="p%d%s" % (k, calc[0]), type="time_comparison", base_metric="t.tv", comparison_type=ct, time_offset=off, calculation=calc))
    mets.append(Metric(name="cw", type="cumulative", sql="t.tv", window="14 days"))
    L.add_model(Model(name="t", table="t", primary_key="id", dimensions=[Dimension(name="ts", type="time", granularity="day", sql="ts")], metrics=mets))
    for g in ("day", "week", "month", "quarter", "year"):
        for m in mets[1:]:
            try:
                L.compile(metrics=["t." + m.name], dimensions=["t.ts__" + g])
            except Exception:
                pass


def real(case):
    """-> {metric name: {(t_us, key...): value}} from the real implementation"""
    from sidemantic import Dimension, Model
    prime_process()
    L = dbutil.fresh_layer()
    L.conn.execute("create table t(id bigint, ts timestamp, cat varchar, reg varchar, v bigint, w bigint)")
    for (i, t, combo, v, w) in case["rows"]:
        c = combo + [None, None]
        L.conn.execute("insert into t values (?, ?, ?, ?, ?, ?)", [i, dbutil.us_to_ts(t), c[0], c[1], v, w])
    L.add_model(Model(name="t", table="t", primary_key="id",
                      dimensions=[Dimension(name="ts", type="time", granularity=case["gran"], sql="ts"),
                                  # the other dimensions are NAMED like the time dimension plus a suffix (created / created_by, order_date / order_date_type): still their own dimensions
                                  Dimension(name="ts_cat", type="categorical", sql="cat"), Dimension(name="tsreg", type="categorical", sql="reg")],
                      metrics=metric_defs(case)))
    tdim = "t.ts" if case["bare"] else "t.ts__%s" % case["gran"]
    dims = [tdim] + ["t.ts_cat", "t.tsreg"][:case["ndims"]]
    if case.get("dims_first"):
        dims = dims[1:] + dims[:1]
    filters = {"v": ["t.v >= 1"], "cat": ["t.ts_cat = 'a'"], None: []}[case["filt"]]
    params = None
    import zlib
    if filters and zlib.crc32(repr((case["gran"], case["filt"], case["ndims"], len(case["rows"]), case["mets"])).encode()) % 2:
        # every other filtered case writes the same filter through a declared parameter whose DEFAULT selects other rows than the value the caller supplies
        from sidemantic.core.parameter import Parameter
        L.graph.add_parameter(Parameter(name="minv", type="number", default_value=1000))
        L.graph.add_parameter(Parameter(name="wanted", type="string", default_value="zz"))
        filters = {"v": ["t.v >= {{ minv }}"], "cat": ["t.ts_cat = {{ wanted }}"]}[case["filt"]]
        params = {"minv": 1, "wanted": "a"}
    sql = L.compile(metrics=["t.m%d" % j for j in range(len(case["mets"]))], dimensions=dims, filters=filters, **({"parameters": params} if params else {}))
    cur = L.conn.execute(sql)
    cols = [d[0] for d in cur.description]
    rows = cur.fetchall()
    tcol = cols.index("ts" if case["bare"] else "ts__%s" % case["gran"])
    kcols = [cols.index(x) for x in ["ts_cat", "tsreg"][:case["ndims"]]]
    out = {}
    for j in range(len(case["mets"])):
        nm = "m%d" % j
        ci = cols.index(nm) if nm in cols else cols.index("t." + nm)
        d = {}
        for r in rows:
            key = (dbutil.canon_val(r[tcol])[1],) + tuple(r[k] for k in kcols)
            if key in d:
                raise AssertionError("duplicate output row for %r" % (key,))
            d[key] = r[ci]
        out[nm] = d
    return out, sql


def coq_raw(case, col=3):
    rows = [r for r in case["rows"] if kept(case, r)]
    return "[" + "; ".join("R (%d) [%s] %s" % (t, "; ".join(sg.coq_val(x) for x in combo), sg.coq_val(r[col])) for r in rows for (_, t, combo) in [r[:3]]) + "]"


def coq_terms(case):
    g = GCOQ[case["gran"]]
    base = sg.COQ_AGG[case["base_agg"]]
    raw = coq_raw(case)
    out = []
    for m in case["mets"]:
        if m["type"] == "cum":
            kind = {"running": "CRunning", "range": "(CRange (%d))" % (m.get("n", 0) * UD), "grain": "(CGrain %s)" % GCOQ.get(m.get("grain"), "Day")}[m["kind"]]
            out.append("cum %s %s %s %s %s" % (g, base, kind, sg.COQ_AGG[m["agg"] or "sum"], raw))
        elif m["type"] == "tc":
            # the code passes the requested granularity suffix to the offset table; the bare dimension passes None
            gr = "None" if case["bare"] else '(Some "%s")' % case["gran"]
            out.append('tc %s %s %s %s (Some "%s") %s %s' % (g, IDX[case["gran"]], base, CALC[m["calc"] or "percent_change"], m["ctype"], gr, raw))
        else:
            out.append("oratio %s %s %s %s" % (g, base, raw, coq_raw(case, 4)))
    return out


def parse(line):
    d = {}
    if line == "":
        return d
    for item in line.split(";"):
        k, v = item.split("|")
        ks = k.split(",")
        key = (int(ks[0]),) + tuple(sg.parse_val(x) for x in ks[1:] if x != "")
        d[key] = sg.parse_val(v)
    return d


def same(real_v, cell):
    import decimal
    if isinstance(real_v, decimal.Decimal):
        real_v = float(real_v)
    if cell is None or real_v is None:
        return cell is None and real_v is None
    if isinstance(cell, Fraction):
        return math.isclose(float(cell), float(real_v), rel_tol=1e-9, abs_tol=1e-9)
    return float(cell) == float(real_v)


def dict_match(impl, model):
    return set(impl) == set(model) and all(same(impl[k], model[k]) for k in impl)


def classify_known(c, case, m):
    return None


def check_lagoffset(c):
    """translator validation: the regenerated lag_offset == the Python function on the whole name domain"""
    from sidemantic.sql.generator import SQLGenerator
    from sidemantic.core.semantic_graph import SemanticGraph
    gen = SQLGenerator(SemanticGraph())
    cts = [None, "", "dod", "wow", "mom", "qoq", "yoy", "prior_period", "ytd", "weekly"]
    grs = [None, "", "hour", "day", "week", "month", "quarter", "year", "decade"]
    opt = lambda s: "None" if s is None else '(Some "%s")' % s
    pairs = [(a, b) for a in cts for b in grs]
    outs = lib.coq_eval("c17_lag", "From Coq Require Import ZArith String List.\nRequire Import V.Gen.LagOffset_gen.\nOpen Scope string_scope.\n",
                        ["lag_offset %s %s" % (opt(a), opt(b)) for a, b in pairs], chunk=200)
    bad = []
    for (a, b), o in zip(pairs, outs):
        got = int(o.replace("%Z", "").replace("(", "").replace(")", "").strip())
        want = gen._calculate_lag_offset(a, b)
        if got != want:
            bad.append((a, b, got, want))
    c.obligation("translator: Gen/LagOffset_gen.lag_offset == SQLGenerator._calculate_lag_offset on %d name pairs" % len(pairs), not bad, "translator", str(bad[:3]))
    return len(pairs)


# The comparison offsets the layer documents (rows of the queried granularity per comparison type).  For a type at its own
# granularity these are calendar-exact (C17_offsets_exact); the others are the documented approximations (a month = 30 days = 4 weeks,
# a quarter = 90 days = 13 weeks, a year = 365 days = 52 weeks) and DEFINE "t minus the comparison offset" (lenient reading, DESIGN C17).
REF_OFFSETS = {"dod": {"day": 1, "week": 1, "month": 1, "quarter": 1, "year": 1},
               "wow": {"day": 7, "week": 1, "month": 1, "quarter": 1, "year": 1},
               "mom": {"day": 30, "week": 4, "month": 1, "quarter": 1, "year": 1},
               "qoq": {"day": 90, "week": 13, "month": 3, "quarter": 1, "year": 1},
               "yoy": {"day": 365, "week": 52, "month": 12, "quarter": 4, "year": 1},
               "prior_period": {"day": 1, "week": 1, "month": 1, "quarter": 1, "year": 1}}


def offset_cell(ctype, gran, calc="difference", base="simple"):
    """One long gap-free series (comparison offset + 3 periods, two categories) through the real code: the period-over-period column
    must equal base(t) - base(t - offset) within each category, from the implementation's own base column.  -> (ok, detail)"""
    from sidemantic import Dimension, Metric, Model
    k = REF_OFFSETS[ctype][gran]
    n = k + 3
    L = dbutil.fresh_layer()
    L.conn.execute("create table t(id bigint, ts timestamp, cat varchar, v bigint)")
    step = {"day": "INTERVAL 1 DAY", "week": "INTERVAL 7 DAY", "month": "INTERVAL 1 MONTH", "quarter": "INTERVAL 3 MONTH", "year": "INTERVAL 1 YEAR"}[gran]
    L.conn.execute("insert into t select i * 2 + j, TIMESTAMP '2019-01-07 10:00:00' + i * %s, ['a', 'b'][j + 1], (i * 37 + j * 11) %% 101 + i from range(%d) r(i), range(2) s(j)" % (step, n))
    L.add_model(Model(name="t", table="t", primary_key="id",
                      dimensions=[Dimension(name="ts", type="time", granularity=gran, sql="ts"), Dimension(name="ts_cat", type="categorical", sql="cat")],
                      metrics=[Metric(name="tv", agg="sum", sql="v"), Metric(name="tn", agg="count"), Metric(name="tx", agg="max", sql="v"),
                               # the BASE of the comparison: a simple measure, a ratio, a derived formula (qualified or not), a derived formula over a ratio
                               Metric(name="rt", type="ratio", numerator="t.tv", denominator="t.tn"), Metric(name="dv", type="derived", sql="tv + tx * 2"),
                               Metric(name="dq", type="derived", sql="t.tv - t.tn"), Metric(name="dr", type="derived", sql="rt * 10 + tn")] +
                              ([] if base == "graph" else [Metric(name="m0", type="time_comparison", base_metric={"simple": "t.tv", "ratio": "t.rt", "derived": "t.dv", "derived_q": "t.dq", "nested": "t.dr"}[base],
                                                                  comparison_type=ctype, calculation=calc)])))
    if base == "graph":
        L.add_metric(Metric(name="m0", type="time_comparison", base_metric="t.dq", comparison_type=ctype, calculation=calc))     # a graph-level comparison over a model's derived metric
    bcol = {"simple": "tv", "ratio": "rt", "derived": "dv", "derived_q": "dq", "nested": "dr", "graph": "dq"}[base]
    sql = L.compile(metrics=["t." + bcol, "m0" if base == "graph" else "t.m0"], dimensions=["t.ts__%s" % gran, "t.ts_cat"])
    cur = L.conn.execute(sql)
    cols = [d[0] for d in cur.description]
    rows = cur.fetchall()
    it, ic, iv, im = cols.index("ts__%s" % gran), cols.index("ts_cat"), cols.index(bcol), (cols.index("m0") if "m0" in cols else cols.index("t.m0"))
    bad = []
    for cat in ("a", "b"):
        ser = sorted((r for r in rows if r[ic] == cat), key=lambda r: r[it])
        if len(ser) != n:
            return False, "series of %d periods came back as %d rows" % (n, len(ser))
        for i, r in enumerate(ser):
            want = None if i < k else float(ser[i][iv]) - float(ser[i - k][iv])
            got = r[im]
            if (want is None) != (got is None) or (want is not None and abs(float(got) - float(want)) > 1e-9):
                bad.append((cat, str(r[it]), None if got is None else float(got), want))
    return not bad, {"offset": k, "periods": n, "mismatches": bad[:4], "sql": sql[-700:]}


def offset_cells(c):
    """every comparison type x granularity cell on a series long enough to observe its offset (the random series are too short for
    offsets such as 13 weeks, 12 months or 365 days), plus the table the code computes against the documented one"""
    from sidemantic.sql.generator import SQLGenerator
    from sidemantic.core.semantic_graph import SemanticGraph
    gen = SQLGenerator(SemanticGraph())
    cells = [(ct, g) for ct in REF_OFFSETS for g in REF_OFFSETS[ct]]
    if c.tier == "quick":
        cells = [x for x in cells if REF_OFFSETS[x[0]][x[1]] <= 100]
    table_bad = [(ct, g, gen._calculate_lag_offset(ct, g), REF_OFFSETS[ct][g]) for ct in REF_OFFSETS for g in REF_OFFSETS[ct] if gen._calculate_lag_offset(ct, g) != REF_OFFSETS[ct][g]]
    nbad = 0
    for ct, g in cells:
        try:
            ok, detail = offset_cell(ct, g)
        except Exception as e:
            ok, detail = False, {"error": str(e)[:300]}
        if not ok:
            nbad += 1
            c.violation("a %s comparison at %s granularity is not base(t) - base(t - %d periods)" % (ct, g, REF_OFFSETS[ct][g]), {"kind": "offset_cell", "ctype": ct, "gran": g, "detail": detail})
    # the same cells (offsets up to 13 periods) with a COMPOSITE base metric: a ratio, a derived formula with unqualified / qualified components, a derived formula over a
    # ratio, and a graph-level comparison over a model's derived metric -- the comparison is still base(t) - base(t - offset) of the implementation's own base column
    ncomp = 0
    for base in ("ratio", "derived", "derived_q", "nested", "graph"):
        for ct, g in [x for x in cells if REF_OFFSETS[x[0]][x[1]] <= 13 and (c.tier == "thorough" or (len(x[0]) + len(x[1]) + len(base)) % 3 == 0)]:
            ncomp += 1
            try:
                ok, detail = offset_cell(ct, g, base=base)
            except Exception as e:
                ok, detail = False, {"error": str(e)[:300]}
            if not ok:
                nbad += 1
                c.violation("a %s comparison at %s granularity over a %s base metric is not base(t) - base(t - %d periods)" % (ct, g, base, REF_OFFSETS[ct][g]), {"kind": "offset_cell", "ctype": ct, "gran": g, "base": base, "detail": detail})
    c.obligation("oracle: period-over-period columns on %d long gap-free series (one per comparison type x granularity, offset + 3 periods, two categories) == base(t) - base(t - offset); "
                 "_calculate_lag_offset == the documented offsets on all 30 cells" % len(cells), nbad == 0 and not table_bad, "correspondence", repr(table_bad[:4]))
    return len(cells) + ncomp


def run(c):
    c.trusted += ["translator/gen_lagoffset.py (fail-closed skeleton match of _calculate_lag_offset; validated on the 10x9 name domain each run)",
                  "modelled, not verified: Model/Window.v (SQL window semantics and the generator's window clauses) is hand-written; tied to generator.py + DuckDB by executing the same series",
                  "DuckDB 1.3.2 evaluates the window functions; harness/semgen.py value rendering"]
    c.assumptions += ["one inner row per (period, combination of the other dimensions) -- produced by the inner GROUP BY",
                      "LAG theorems: the series is gap-free within each combination (the property's own hypothesis); offsets that do not divide the period (mom at day grain = 30 rows, ...) are the code's documented approximations and define the comparison offset",
                      "trailing windows are the RANGE the code declares: periods t' with t - N <= t' <= t; only day-unit windows are modelled"]
    from translator import gen_lagoffset
    try:
        lib.write_if_changed(lib.COQ + "/Gen/LagOffset_gen.v", gen_lagoffset.generate(lib.REPO))
        c.obligation("translator: _calculate_lag_offset regenerated", True, "translator")
    except Exception as e:
        c.obligation("translator: _calculate_lag_offset regenerated", False, "translator", repr(e))
    built = c.build_props()
    npairs = 0
    if lib.coq_make(["Gen/LagOffset_gen.vo", "Model/Window.vo"])[0]:
        try:
            npairs = check_lagoffset(c)
        except Exception as e:
            c.obligation("translator validation", False, "translator", repr(e)[-800:])
    try:
        npairs += offset_cells(c)
    except Exception as e:
        c.obligation("oracle: long series per comparison type x granularity", False, "correspondence", repr(e)[-800:])
    n = 160 if c.tier == "quick" else 700
    cases = corpus_cases() + [gen_case(c.rng, c.tier) for _ in range(n)]
    terms, index = [], []
    for i, case in enumerate(cases):
        for j, t in enumerate(coq_terms(case)):
            index.append((i, j))
            terms.append(t)
    outs = None
    try:
        outs = lib.coq_eval("c17_cases", PREAMBLE, terms, chunk=25, timeout=3000)
    except RuntimeError as e:
        c.obligation("model evaluation", False, "correspondence", str(e)[-1500:])
    by_case = {}
    if outs is not None:
        for (i, j), o in zip(index, outs):
            by_case.setdefault(i, {})[j] = sg.unquote(o)
    fid_bad, dist, nontrivial = [], {"cum": 0, "tc": 0, "oratio": 0, "gappy": 0, "extra_dims": 0, "filtered": 0, "impl_errors": 0, "bare_time_dim": 0}, 0
    for i, case in enumerate(cases):
        dist["gappy"] += case["gappy"]
        dist["extra_dims"] += case["ndims"] > 0
        dist["filtered"] += case["filt"] is not None
        dist["bare_time_dim"] += case["bare"]
        try:
            impl, sql = real(case)
        except Exception as e:
            dist["impl_errors"] += 1
            if True:
                c.violation("a window-metric query fails to compile or execute: %s" % str(e)[:160], {"kind": "case", "case": case, "error": str(e)[:600]})
            continue
        if outs is None:
            continue
        gap_free = is_gap_free(case)
        dist["gap_free"] = dist.get("gap_free", 0) + gap_free
        for j, m in enumerate(case["mets"]):
            dist[m["type"]] += 1
            m_line, s_line = by_case[i][j].split("#")
            got = impl["m%d" % j]
            ok_model = dict_match(got, parse(m_line))
            if not ok_model:
                fid_bad.append({"case": case, "metric": m, "impl": sorted(map(str, got.items()))[:8], "model": m_line[:400]})
            # the reference semantics applies to cumulative metrics always, to period-over-period ones on gap-free series
            if m["type"] == "cum" or (m["type"] == "tc" and gap_free):
                if not dict_match(got, parse(s_line)):
                    c.violation("a window metric differs from its period definition (%s)" % json.dumps(m), {"kind": "case", "case": case, "metric": j, "impl": sorted(map(str, got.items()))[:12], "spec": s_line[:700], "sql": sql[:1500]})
            if len(got) > 2:
                nontrivial += 1
        if len(c.samples) < 3 and case["ndims"] and len(case["rows"]) > 6:
            c.samples.append({"gran": case["gran"], "metrics": case["mets"], "n_rows": len(case["rows"]), "extra_dims": case["ndims"],
                              "impl": {k: sorted(map(str, v.items()))[:4] for k, v in impl.items()}})
    if outs is not None:
        c.obligation("correspondence: Model/Window == compile()+DuckDB on %d window columns of %d series" % (len(terms), len(cases)), not fid_bad, "correspondence", json.dumps(fid_bad[:1], default=str)[:1800])
    c.obligation("oracle: implementation window columns == reference period definitions", not c.violations, "correspondence")
    c.coverage.update({"evaluations": len(terms) + npairs, "distinct_nontrivial": nontrivial,
                       "rule": "generated daily/weekly/monthly series (1-12 periods, thorough up to 20; 1-3 raw rows per period and combination; NULL/zero/negative values; 0-2 extra categorical "
                               "dimensions incl. NULL members; 15% with gaps; optional filter; bare or suffixed time dimension) x cumulative (running / N days / grain-to-date week..year; sum/avg/count/min/max) "
                               "x time comparison (6 types x 3 calculations) x offset ratio; non-trivial = window column with more than two output rows",
                       "traces_validated_against_impl": len(terms), "distribution": dist, "exhaustive": False})


def corpus_cases():
    base = dict(gran="day", ndims=1, base_agg="sum", filt=None, gappy=False, bare=False, unqualified=False)
    d0 = dfc(2024, 1, 30)
    rows = []
    rid = 0
    for i in range(4):
        for cat in ("a", "b"):
            rid += 1
            rows.append((rid, (d0 + i) * UD + 5, [cat], [3, 5, None, 0, 10, 0, 2, 2][rid - 1], 1))
    out = [dict(base, rows=rows, mets=[{"type": "cum", "kind": "running", "agg": "sum"}, {"type": "cum", "kind": "grain", "grain": "month", "agg": None}, {"type": "tc", "ctype": "dod", "calc": "difference"}])]
    # the cumulative base referenced by its unqualified name while the measure's own sql is a different column name
    out.append(dict(base, unqualified=True, rows=rows, mets=[{"type": "cum", "kind": "running", "agg": "sum"}]))
    # grain-to-date periods across a year end: the week of Monday 2024-12-30 (and the ISO week 53 of 2020) holds days of two calendar years, December ends a month, a quarter and a year
    for (y, mth, dd, ndays) in ((2024, 12, 23, 21), (2020, 12, 21, 24), (2025, 12, 26, 12)):
        d0 = dfc(y, mth, dd)
        rows2, rid = [], 0
        for i in range(ndays):
            for cat in ("a", "b"):
                rid += 1
                rows2.append((rid, (d0 + i) * UD + 7 * 3600 * 10 ** 6, [cat], (rid * 7) % 11 + 1, 1))
        out.append(dict(base, rows=rows2, mets=[{"type": "cum", "kind": "grain", "grain": "week", "agg": None}, {"type": "cum", "kind": "grain", "grain": "year", "agg": "sum"}, {"type": "cum", "kind": "grain", "grain": "quarter", "agg": None}]))
        out.append(dict(base, gran="week", ndims=0, rows=[(r[0], r[1], [], r[3], r[4]) for r in rows2], mets=[{"type": "cum", "kind": "grain", "grain": "month", "agg": None}, {"type": "cum", "kind": "grain", "grain": "week", "agg": "sum"}]))
    return out


def replay(path):
    body = json.load(open(path))
    if body["replay"].get("kind") == "offset_cell":
        ok, detail = offset_cell(body["replay"]["ctype"], body["replay"]["gran"])
        print(json.dumps(detail, default=str, indent=1)[:2500])
        return 0 if ok else 1
    case = body["replay"]["case"]
    case["rows"] = [tuple(r) for r in case["rows"]]
    impl, sql = real(case)
    outs = lib.coq_eval("c17_replay", PREAMBLE, coq_terms(case))
    ok = True
    print(sql)
    for j, m in enumerate(case["mets"]):
        m_line, s_line = sg.unquote(outs[j]).split("#")
        got = impl["m%d" % j]
        print(m, "impl:", sorted(map(str, got.items()))[:10], "\n spec:", s_line[:500])
        if m["type"] == "cum" or (m["type"] == "tc" and is_gap_free(case)):
            ok = ok and dict_match(got, parse(s_line))
    return 0 if ok else 1
