"""C05 — the SQL interface and the structured query API agree.

Proof:  Props/C05.v (every rendering of a structured query as a SELECT tree is rewritten back to exactly that structured query;
        WHERE conjunction = list of atoms; passthrough; rejection of JOINs / function calls / literals / unknown fields).
Ties:   Model/Rewriter.rewrite evaluated in Coq on generated SELECT trees vs the real QueryRewriter on the printed SQL text
        (extracted metrics / dimensions / aliases / filters / order / limit / offset, or rejection / passthrough).
Oracle: (the property's own observation) layer.sql(text) rows and column names vs the structured query's, for every rendering:
        qualified / unqualified names, FROM model / FROM metrics, aliases, one WHERE conjunction, SELECT *, wrapped in a CTE or a
        sub-select; SQL naming no model must return what the database returns for it.
Partial: sqlglot's text -> tree step is outside the model.
"""
import json
import warnings

from harness import dbutil, lib, semgen as sg

warnings.filterwarnings("ignore")

PREAMBLE = """From Coq Require Import String List Bool.
Require Import V.Model.Rewriter.
Import ListNotations.
Open Scope string_scope.
Definition G : rgraph := {| rg_models := [ {| rm_name := "orders"; rm_dims := ["status"; "created"; "channel"]; rm_metrics := ["revenue"; "n"; "avg_amount"] |};
                                            {| rm_name := "customers"; rm_dims := ["region"; "tier"]; rm_metrics := ["cnt"] |} ]; rg_metrics := ["total_rev"; "n"; "status"] |}.
Definition sn (o : option nat) : string := match o with Some n => "L" ++ NilEmpty.string_of_uint (Nat.to_uint n) | None => "-" end.
Definition show (o : outcome) : string :=
  match o with
  | Rewritten q => "OK|" ++ String.concat "," (q_metrics q) ++ "|" ++ String.concat "," (q_dims q) ++ "|" ++ String.concat ";;" (q_filters q) ++ "|" ++ String.concat "," (q_order q)
                   ++ "|" ++ sn (q_limit q) ++ "|" ++ sn (q_offset q) ++ "|" ++ String.concat "," (map (fun p => fst p ++ "=" ++ snd p) (q_aliases q))
  | Passthrough => "PASS" | Rejected => "REJECT" | Nested => "NESTED" end.
Definition S p f j w o l off wi : sel := {| s_proj := p; s_from := f; s_joins := j; s_where := w; s_order := o; s_limit := l; s_offset := off; s_with := wi |}.
""".replace("From Coq Require Import String List Bool.", "From Coq Require Import String List Bool DecimalString.")

MODELS = {"orders": (["status", "created", "channel"], ["revenue", "n", "avg_amount"]), "customers": (["region", "tier"], ["cnt"])}
GRANS = ["day", "week", "month", "quarter", "year"]
ATOMS = {"orders": ["orders.status = 'a'", "orders.channel <> 'web'", "orders.status IN ('a', 'b')", "orders.created >= '2024-02-01'", "orders.channel IS NOT NULL"],
         "customers": ["customers.region = 'eu'", "customers.tier <> 'gold'"]}


def layer(rows_o, rows_c):
    from sidemantic import Dimension, Metric, Model, Relationship
    L = dbutil.fresh_layer()
    L.conn.execute("create table orders_t(id bigint, status varchar, created timestamp, channel varchar, amount bigint, customer_id bigint)")
    L.conn.execute("create table customers_t(id bigint, region varchar, tier varchar)")
    L.conn.execute("create table plain_t(k bigint, v varchar)")
    L.conn.execute("insert into plain_t values (1, 'x'), (2, 'y'), (3, NULL)")
    if rows_o:
        L.conn.executemany("insert into orders_t values (?,?,?,?,?,?)", rows_o)
    if rows_c:
        L.conn.executemany("insert into customers_t values (?,?,?)", rows_c)
    L.add_model(Model(name="orders", table="orders_t", primary_key="id", relationships=[Relationship(name="customers", type="many_to_one", foreign_key="customer_id")],
                      dimensions=[Dimension(name="status", type="categorical"), Dimension(name="created", type="time", granularity="day"), Dimension(name="channel", type="categorical")],
                      metrics=[Metric(name="revenue", agg="sum", sql="amount"), Metric(name="n", agg="count"), Metric(name="avg_amount", agg="avg", sql="amount")]))
    L.add_model(Model(name="customers", table="customers_t", primary_key="id", dimensions=[Dimension(name="region", type="categorical"), Dimension(name="tier", type="categorical")],
                      metrics=[Metric(name="cnt", agg="count")]))
    L.add_metric(Metric(name="total_rev", type="derived", sql="orders.revenue * 2"))
    # a graph-level metric spelled like a measure and one spelled like a dimension of `orders`: unqualified names in
    # SELECT ... FROM orders must still mean the model's own fields
    L.add_metric(Metric(name="n", type="derived", sql="orders.revenue * 1000"))
    L.add_metric(Metric(name="status", type="derived", sql="orders.revenue + 7"))
    return L


def gen_data(rng):
    import datetime
    rows_c = [(i + 1, rng.choice(["eu", "us", None]), rng.choice(["gold", "free"])) for i in range(rng.choice([1, 2, 3]))]
    rows_o = [(i + 1, rng.choice(["a", "b", "c", None]), datetime.datetime(2024, 1, 1) + datetime.timedelta(days=rng.randrange(0, 120), hours=rng.randrange(24)),
               rng.choice(["web", "app", None]), rng.choice([None, 1, 5, 10, 0]), rng.choice([r[0] for r in rows_c] + [None, 99])) for i in range(rng.choice([0, 4, 9, 15]))]
    return rows_o, rows_c


def gen_query(rng):
    """a structured query in the supported fragment: fields = [(model, field incl. __gran, alias|None)]"""
    single = rng.random() < 0.6
    models = ["orders"] if single else ["orders", "customers"]
    fields = []
    for m in models:
        dims, mets = MODELS[m]
        for d in rng.sample(dims, rng.randint(0, len(dims))):
            fields.append((m, d + ("__" + rng.choice(GRANS) if d == "created" and rng.random() < 0.8 else ""), None))
        for x in rng.sample(mets, rng.randint(0 if fields else 1, len(mets))):
            fields.append((m, x, None))
    # the same time dimension at a SECOND granularity (and sometimes bare as well): each is its own column
    tds = [(m, f) for m, f, _ in fields if f.startswith("created__")]
    if tds and rng.random() < 0.45:
        m, f = tds[0]
        g2 = rng.choice([g for g in GRANS if "created__" + g != f])
        fields.append((m, "created__" + g2, None))
        if rng.random() < 0.3 and not any(x[1] == "created" for x in fields):
            fields.append((m, "created", None))
    rng.shuffle(fields)
    if not fields:
        fields = [("orders", "n", None)]
    if rng.random() < 0.35:
        fields = [(m, f, ("a%d" % i if rng.random() < 0.6 else None)) for i, (m, f, _) in enumerate(fields)]
    filters = rng.sample([a for m in models for a in ATOMS[m]], rng.choice([0, 0, 1, 2, 3]))
    order, limit, offset = [], None, None
    dimfields = [(m, f, a) for m, f, a in fields if f.split("__")[0] in MODELS[m][0]]
    if dimfields and rng.random() < 0.4:
        order = [((a or f), rng.random() < 0.5) for m, f, a in dimfields]          # a total order on the groups: every selected dimension
        if rng.random() < 0.7:
            limit = rng.choice([1, 2, 5])
        if limit is not None and rng.random() < 0.4:
            offset = rng.choice([1, 2])
    if limit == 5 and len(fields) % 2 == 0:
        limit = 0          # LIMIT 0: no rows through either interface (derived from the query, not from the random stream)
    return dict(single=single, fields=fields, filters=filters, order=order, limit=limit, offset=offset, bare_asc=rng.random() < 0.6)


def structured_run(L, q):
    """the structured path: compile(...) through the public API, executed (aliases are a feature of the SQL front end only)"""
    mets = ["%s.%s" % (m, f) for m, f, a in q["fields"] if f.split("__")[0] in MODELS[m][1]]
    dims = ["%s.%s" % (m, f) for m, f, a in q["fields"] if f.split("__")[0] in MODELS[m][0]]
    names = {(a or f): f for m, f, a in q["fields"]}
    order = ["%s %s" % (names[o], "DESC" if d else "ASC") for o, d in q["order"]] or None
    sql = L.compile(metrics=mets, dimensions=dims, filters=list(q["filters"]), order_by=order, limit=q["limit"], offset=q["offset"])
    cur = L.conn.execute(sql)
    cols = [d[0] for d in cur.description]
    return cols, cur.fetchall()


def norm_atom(a):
    import sqlglot
    return sqlglot.parse_one(a, dialect="duckdb").sql(dialect="duckdb")


def sql_text(q, style):
    """render the structured query as SQL text in one of the styles"""
    unq = style in ("unqualified", "unqualified_where")
    proj = []
    for m, f, a in q["fields"]:
        p = f if unq else "%s.%s" % (m, f)
        proj.append(p + (" AS %s" % a if a else ""))
    table = "metrics" if style == "from_metrics" else q["fields"][0][0]
    if unq:
        table = "orders"
    filters = [(x.replace("orders.", "") if style == "unqualified_where" else x) for x in q["filters"]]
    where = (" WHERE " + " AND ".join(filters)) if filters else ""
    # an ascending key is written with or without the ASC keyword (a key without a direction keyword is ascending, whatever precedes it)
    order = (" ORDER BY " + ", ".join(("%s DESC" % o) if d else (o if q.get("bare_asc") else "%s ASC" % o) for o, d in q["order"])) if q["order"] else ""
    lim = (" LIMIT %d" % q["limit"]) if q["limit"] is not None else ""
    off = (" OFFSET %d" % q["offset"]) if q["offset"] else ""
    core = "SELECT %s FROM %s%s%s%s%s" % (", ".join(proj), table, where, order, lim, off)
    if style in ("two_ctes", "two_ctes_rev"):
        # a second semantic sub-select in the same statement that selects the same fields under OTHER aliases (and is not used by the
        # outer query): nothing of one sub-select may leak into the other
        other = "SELECT %s FROM %s%s" % (", ".join("%s AS z%d" % ("%s.%s" % (m, f), i) for i, (m, f, a) in enumerate(q["fields"])), table, where)
        ctes = ["other AS (%s)" % other, "q AS (%s)" % core]
        if style == "two_ctes_rev":
            ctes.reverse()
        return "WITH %s SELECT * FROM q" % ", ".join(ctes)
    if style == "cte":
        return "WITH q AS (%s) SELECT * FROM q" % core
    if style == "cte_shadow":
        # the CTE carries the name of the model it reads (its body is still the semantic query; the outer SELECT reads the CTE)
        return "WITH %s AS (%s) SELECT * FROM %s" % (table, core, table)
    if style == "subselect":
        return "SELECT * FROM (%s) AS q" % core
    return core


def coq_sel(q, style):
    opt = lambda s: "None" if s is None else '(Some "%s")' % s
    optn = lambda n: "None" if n is None else "(Some %d)" % n
    unq = style in ("unqualified", "unqualified_where")
    proj = "; ".join("PCol %s \"%s\" %s" % ("None" if unq else '(Some "%s")' % m, f, opt(a)) for m, f, a in q["fields"])
    table = "metrics" if style == "from_metrics" else ("orders" if unq else q["fields"][0][0])
    # atoms as sqlglot prints them AFTER the rewriter's qualification step: an unqualified WHERE column belongs to the single FROM model (C05_filters_table pins that step)
    filters = [norm_atom(x) for x in q["filters"]]
    w = "None"
    for a in reversed(filters):
        atom = '(WAtom "%s")' % a.replace('"', '""')
        w = "(Some %s)" % atom if w == "None" else "(Some (WAnd %s %s))" % (atom, w[6:-1])
    order = "; ".join('"%s %s"' % (o, "DESC" if d else "ASC") for o, d in q["order"])
    return 'show (rewrite G (S [%s] (FromTable "%s") false %s [%s] %s %s false))' % (proj, table, w, order, optn(q["limit"]), optn(q["offset"] or None))


def real_extract(L, text):
    """what the real rewriter extracts from the text (or how it disposes of it)"""
    import sqlglot
    from sidemantic.sql.query_rewriter import QueryRewriter
    rw = QueryRewriter(L.graph, dialect="duckdb")
    parsed = sqlglot.parse_one(text, dialect="duckdb")
    try:
        out = rw.rewrite(text)
    except (ValueError, KeyError):
        return "REJECT"
    if out == text.strip():
        return "PASS"
    rw.inferred_table = rw._extract_from_table(parsed)
    ms, ds, al = rw._extract_metrics_and_dimensions(parsed)
    fl = rw._extract_filters(parsed)
    od = rw._extract_order_by(parsed) or []
    sn = lambda n: "-" if n is None else "L%d" % n
    return "OK|%s|%s|%s|%s|%s|%s|%s" % (",".join(ms), ",".join(ds), ";;".join(fl), ",".join(od), sn(rw._extract_limit(parsed)), sn(rw._extract_offset(parsed)),
                                         ",".join("%s=%s" % kv for kv in al.items()))


SHADOWED = [
    "WITH orders AS (SELECT status FROM orders_t WHERE amount > 3) SELECT status FROM orders",
    "WITH customers AS (SELECT k, v FROM plain_t) SELECT v FROM customers",
    "WITH orders AS (SELECT k AS status, v AS revenue FROM plain_t) SELECT status, revenue FROM orders",
    "WITH orders AS (SELECT k AS n FROM plain_t WHERE k > 1), customers AS (SELECT v AS region FROM plain_t) SELECT n, region FROM orders, customers ORDER BY n, region",
]
MALFORMED = [
    ("SELECT orders.revenue, customers.region FROM orders JOIN customers ON orders.customer_id = customers.id", 'show (rewrite G (S [PCol (Some "orders") "revenue" None; PCol (Some "customers") "region" None] (FromTable "orders") true None [] None None false))'),
    ("SELECT SUM(amount) FROM orders", 'show (rewrite G (S [PFunc] (FromTable "orders") false None [] None None false))'),
    ("SELECT status, COUNT(*) FROM orders", 'show (rewrite G (S [PCol None "status" None; PFunc] (FromTable "orders") false None [] None None false))'),
    ("SELECT 1, revenue FROM orders", 'show (rewrite G (S [PLiteral; PCol None "revenue" None] (FromTable "orders") false None [] None None false))'),
    ("SELECT nope FROM orders", 'show (rewrite G (S [PCol None "nope" None] (FromTable "orders") false None [] None None false))'),
    ("SELECT orders.revenue, customers.nope FROM metrics", 'show (rewrite G (S [PCol (Some "orders") "revenue" None; PCol (Some "customers") "nope" None] (FromTable "metrics") false None [] None None false))'),
    ("SELECT revenue FROM metrics", 'show (rewrite G (S [PCol None "revenue" None] (FromTable "metrics") false None [] None None false))'),
    ("SELECT * FROM metrics", 'show (rewrite G (S [PStar] (FromTable "metrics") false None [] None None false))'),
    ("SELECT ghost.revenue FROM orders", 'show (rewrite G (S [PCol (Some "ghost") "revenue" None] (FromTable "orders") false None [] None None false))'),
    ("SELECT k, v FROM plain_t WHERE k > 1", 'show (rewrite G (S [PCol None "k" None; PCol None "v" None] (FromTable "plain_t") false (Some (WAtom "k > 1")) [] None None false))'),
    ("SELECT 1 + 1", 'show (rewrite G (S [PFunc] FromNone false None [] None None false))'),
    ("SELECT total_rev FROM metrics", 'show (rewrite G (S [PCol None "total_rev" None] (FromTable "metrics") false None [] None None false))'),
    ("SELECT * FROM orders", 'show (rewrite G (S [PStar] (FromTable "orders") false None [] None None false))'),
    ("SELECT status, revenue FROM orders WHERE status = 'a' OR channel = 'web'",
     'show (rewrite G (S [PCol None "status" None; PCol None "revenue" None] (FromTable "orders") false (Some (WOr (WAtom "orders.status = \'a\'") (WAtom "orders.channel = \'web\'"))) [] None None false))'),
]


def run(c):
    c.trusted += ["modelled, not verified: Model/Rewriter.v (extraction from the parsed SELECT) is hand-written; tied by comparing its outcome with the real rewriter on the printed text",
                  "outside the model: sqlglot's parser (text -> tree) and printer of filter atoms; the harness's own SQL printer for the renderings; yardstick / multi-statement / CTE rewriting are exercised end to end only",
                  "DuckDB executes both paths"]
    try:
        import os
        from translator import gen_rewriter
        lib.write_if_changed(os.path.join(lib.COQ, "Gen", "RewriterTable_gen.v"), gen_rewriter.generate(lib.REPO))
        c.obligation("translator: behaviour table of _extract_metrics_and_dimensions / _resolve_column (330 scripted SELECT lists, scripted sqlglot classes and graph) regenerated", True, "translator")
        same = gen_rewriter.table(lib.REPO) == gen_rewriter.table(lib.REPO, real=True) and gen_rewriter.filter_table(lib.REPO) == gen_rewriter.filter_table(lib.REPO, real=True)
        c.obligation("translator validation: interpreted _extract_metrics_and_dimensions == the real method under CPython on the same scripted SELECT lists", same, "translator")
    except Exception as e:
        c.obligation("translator: behaviour table of _extract_metrics_and_dimensions regenerated", False, "translator", repr(e)[-900:])
    c.trusted.append("translator/pyinterp.py + gen_rewriter.py (fail-closed definitional interpreter; sqlglot's expression classes and the graph are scripted: the table covers the methods' own logic, not sqlglot's parser)")
    c.build_props()
    n = 110 if c.tier == "quick" else 1800
    cases = [(gen_data(c.rng), gen_query(c.rng)) for _ in range(n)]
    terms, tindex = [], []
    for i, (data, q) in enumerate(cases):
        for st in styles_for(q):
            if st in ("qualified", "from_metrics", "unqualified", "unqualified_where"):
                tindex.append((i, st))
                terms.append(coq_sel(q, st))
    for text, term in MALFORMED:
        tindex.append((-1, text))
        terms.append(term)
    outs = None
    if lib.coq_make(["Model/Rewriter.vo"])[0]:
        try:
            outs = lib.coq_eval("c05_cases", PREAMBLE, terms, chunk=200)
        except RuntimeError as e:
            c.obligation("model evaluation", False, "correspondence", str(e)[-1500:])
    model_out = {}
    if outs is not None:
        for k, o in zip(tindex, outs):
            model_out[k] = sg.unquote(o)
    fid_bad, stats, nontrivial = [], {"renderings": 0, "by_style": {}, "k1": 0, "rejections_checked": 0, "passthrough_checked": 0}, 0
    for i, (data, q) in enumerate(cases):
        L = layer(*data)
        try:
            want_cols, want_rows = structured_run(L, q)
        except Exception as e:
            c.violation("the structured query itself fails: %s" % str(e)[:140], {"kind": "case", "data": data, "query": q})
            continue
        ordered = bool(q["order"])
        want = dbutil.canon_rows(want_rows, ordered)
        for st in styles_for(q):
            text = sql_text(q, st)
            stats["renderings"] += 1
            stats["by_style"][st] = stats["by_style"].get(st, 0) + 1
            if (i, st) in model_out:
                try:
                    real = real_extract(L, text)
                except Exception as e:
                    real = "ERR " + repr(e)[:100]
                if real != model_out[(i, st)] and not (st == "unqualified_where" and real.startswith("OK") and model_out[(i, st)].startswith("OK") and
                                                        real.replace(" ", "") == model_out[(i, st)].replace(" ", "")):
                    fid_bad.append({"text": text, "impl": real, "model": model_out[(i, st)]})
            try:
                res = L.sql(text)
                got_cols = [d[0] for d in res.description]
                got = dbutil.canon_rows(res.fetchall(), ordered and st not in ("cte", "cte_shadow", "subselect", "two_ctes", "two_ctes_rev"))
                err = None
            except Exception as e:
                got_cols, got, err = None, None, e
            # column names: the SQL path shows the alias where one was given, otherwise the field name; rows are compared after
            # renaming aliases back and putting the columns of both paths in one order
            rename = {a: f for m, f, a in q["fields"] if a}
            exp_names = sorted((a or f) for m, f, a in q["fields"])
            ok = err is None and sorted(got_cols) == exp_names and aligned(got_cols, got, rename, ordered and st not in ("cte", "cte_shadow", "subselect", "two_ctes", "two_ctes_rev")) == aligned(want_cols, want, {}, ordered and st not in ("cte", "cte_shadow", "subselect", "two_ctes", "two_ctes_rev"))
            if ok:
                nontrivial += len(want_rows) > 1
                continue
            if st == "unqualified_where" and unselected_where_column(q) and c.is_open("C05-K1"):
                c.known("C05-K1")
                stats["k1"] += 1
                continue
            c.violation("the SQL text and the structured query disagree (%s rendering)%s" % (st, ": " + str(err)[:120] if err else ""),
                        {"kind": "case", "style": st, "sql": text, "data": data, "query": q, "sql_path": {"columns": got_cols, "rows": [list(map(str, r)) for r in (got or [])[:8]]},
                         "structured": {"columns": want_cols, "rows": [list(map(str, r)) for r in want[:8]]}})
        # the definitions are edited in place after the statements above were answered (a metric's expression and aggregation; a dimension's
        # expression): the SAME text must now mean the edited definitions, as the structured query does
        if i % 3 == 0:
            om = L.graph.models["orders"]
            om.get_metric("revenue").sql = "amount + 1"
            om.get_metric("n").agg, om.get_metric("n").sql = "count_distinct", "channel"
            om.get_metric("avg_amount").agg = "max"
            om.get_dimension("status").sql = "upper(status)"
            L.graph.models["customers"].get_dimension("region").sql = "coalesce(region, tier)"
            try:
                want_cols2, want_rows2 = structured_run(L, q)
                for st in ("qualified", "cte"):
                    res = L.sql(sql_text(q, st))
                    got_cols = [d[0] for d in res.description]
                    rename = {a: f for m, f, a in q["fields"] if a}
                    stats["after_edit"] = stats.get("after_edit", 0) + 1
                    if aligned(got_cols, dbutil.canon_rows(res.fetchall(), False), rename, False) != aligned(want_cols2, dbutil.canon_rows(want_rows2, False), {}, False):
                        c.violation("after a metric / dimension definition was edited in place, the same SQL text still answers with the old definition (the structured query uses the new one)",
                                    {"kind": "edited", "style": st, "sql": sql_text(q, st), "data": data, "query": q, "structured_after_edit": [list(map(str, r)) for r in want_rows2[:8]]})
                        break
            except Exception as e:
                c.violation("query after an in-place edit of the definitions fails: %s" % str(e)[:140], {"kind": "edited", "data": data, "query": q})
        if len(c.samples) < 3 and len(want_rows) > 1:
            c.samples.append({"structured": {"fields": q["fields"], "filters": q["filters"], "order": q["order"], "limit": q["limit"]}, "renderings": [sql_text(q, st) for st in styles_for(q)][:3], "rows": len(want_rows)})
    # rejection / passthrough
    L = layer(*gen_data(c.rng))
    for text, term in MALFORMED:
        mo = model_out.get((-1, text))
        try:
            real = real_extract(L, text)
        except Exception as e:
            real = "ERR " + repr(e)[:100]
        if mo is not None and (real.split("|")[0] != mo.split("|")[0]):
            fid_bad.append({"text": text, "impl": real, "model": mo})
        if mo == "REJECT":
            stats["rejections_checked"] += 1
            try:
                L.sql(text).fetchall()
                c.violation("SQL the layer cannot express is answered instead of rejected", {"kind": "reject", "sql": text})
            except (ValueError, KeyError):
                pass
            except Exception as e:
                c.violation("SQL the layer cannot express fails late (%s) instead of being rejected by the rewriter" % type(e).__name__, {"kind": "reject", "sql": text, "error": str(e)[:300]})
        if mo == "PASS":
            stats["passthrough_checked"] += 1
            a = dbutil.canon_rows(L.sql(text).fetchall())
            b = dbutil.canon_rows(L.conn.execute(text).fetchall())
            if a != b:
                c.violation("SQL that references no semantic model does not return what the database returns for it", {"kind": "pass", "sql": text})
    default_time_renderings(c, stats)
    # plain SQL whose CTE happens to carry a model's name: the outer SELECT reads the CTE (SQL scoping), no semantic model is referenced
    for text in SHADOWED:
        stats["passthrough_checked"] += 1
        try:
            a = dbutil.canon_rows(L.sql(text).fetchall())
        except Exception as e:
            a = "error: %s" % str(e)[:150]
        b = dbutil.canon_rows(L.conn.execute(text).fetchall())
        if a != b:
            c.violation("SQL over a CTE named like a model does not return what the database returns for it", {"kind": "pass", "sql": text, "layer": str(a)[:300], "database": str(b)[:300]})
    if outs is not None:
        c.obligation("correspondence: Model/Rewriter.rewrite == QueryRewriter on %d printed SELECTs" % len(terms), not fid_bad, "correspondence", json.dumps(fid_bad[:2], default=str)[:1800])
    c.obligation("oracle: layer.sql(text) == the structured query for every rendering; passthrough and rejection behave", not c.violations, "correspondence")
    c.coverage.update({"evaluations": stats["renderings"] + len(MALFORMED), "distinct_nontrivial": nontrivial,
                       "rule": "two joined models + a graph-level metric; structured queries (any subset/order of dimensions incl. time granularities and metrics of one or both models, optional aliases, 0-3 filters, "
                               "ORDER BY all dimensions, LIMIT/OFFSET) x renderings (qualified FROM model, FROM metrics, unqualified, unqualified incl. WHERE, wrapped in a CTE, wrapped in a sub-select, SELECT *) "
                               "x tables of 0-15 rows; 14 malformed / foreign statements; non-trivial = agreeing rendering with more than one row",
                       "traces_validated_against_impl": stats["renderings"], "distribution": stats, "exhaustive": False})


def default_time_renderings(c, stats):
    """a model that declares a DEFAULT TIME DIMENSION: a metric selected without any time dimension is grouped by it (C07's rule) -- in the structured query and in every
    SQL rendering of it alike, top-level or wrapped in a CTE / sub-select"""
    import random
    rng = random.Random(c.seed * 43 + 12)          # a stream of its own
    n = 0
    for k in range(4 if c.tier == "quick" else 40):
        data = gen_data(rng)
        L = layer(*data)
        om = L.graph.models["orders"]
        om.default_time_dimension, om.default_grain = "created", rng.choice(["month", "day", "year"])
        for fields, filters in (([("orders", "revenue", None)], []), ([("orders", "n", None), ("orders", "status", None)], ["orders.channel = 'web'"]), ([("orders", "revenue", "rev_total")], [])):
            q = dict(fields=fields, filters=filters, order=[], limit=None, offset=None, single=True)
            try:
                want_cols, want_rows = structured_run(L, q)
            except Exception as e:
                c.violation("the structured query over a model with a default time dimension fails: %s" % str(e)[:140], {"kind": "default_time", "data": data, "query": q})
                continue
            rename = {a: f for m, f, a in fields if a}
            for st in ("qualified", "unqualified", "cte", "cte_shadow", "subselect", "two_ctes"):
                text = sql_text(q, st)
                n += 1
                stats["renderings"] += 1
                try:
                    res = L.sql(text)
                    got_cols = [d[0] for d in res.description]
                    got = dbutil.canon_rows(res.fetchall())
                    err = None
                except Exception as e:
                    got_cols, got, err = None, None, e
                if err is not None or aligned(got_cols, got, rename, False) != aligned(want_cols, dbutil.canon_rows(want_rows), {}, False):
                    c.violation("the SQL text and the structured query disagree on a model with a default time dimension (%s rendering)%s" % (st, ": " + str(err)[:120] if err else ""),
                                {"kind": "default_time", "style": st, "sql": text, "data": data, "default_grain": om.default_grain, "sql_path": {"columns": got_cols, "rows": [list(map(str, r)) for r in (got or [])[:8]]},
                                 "structured": {"columns": want_cols, "rows": [list(map(str, r)) for r in dbutil.canon_rows(want_rows)[:8]]}})
    return n


def aligned(cols, rows, rename, ordered):
    names = [rename.get(cn, cn) for cn in cols]
    order = sorted(range(len(names)), key=lambda i: names[i])
    out = [tuple(r[i] for i in order) for r in rows]
    if not ordered:
        out.sort(key=lambda r: tuple((x is None, str(x)) for x in r))
    return sorted(names), out


def unselected_where_column(q):
    sel = {f.split("__")[0] for m, f, a in q["fields"] if m == "orders"}
    import re
    used = set()
    for x in q["filters"]:
        used |= set(re.findall(r"orders\.(\w+)", x))
    return bool(used - sel)


def styles_for(q):
    st = ["qualified", "from_metrics", "cte", "subselect", "two_ctes", "two_ctes_rev"]
    if q["fields"][0][0] != "metrics":
        st += ["cte_shadow"]
    if q["single"]:
        st += ["unqualified"]
        if q["filters"]:
            st += ["unqualified_where"]
    return st


def replay(path):
    body = json.load(open(path))
    r = body["replay"]
    if r.get("kind") in ("reject", "pass"):
        L = layer([], [])
        try:
            print(L.sql(r["sql"]).fetchall())
        except Exception as e:
            print(type(e).__name__, e)
            return 0 if r["kind"] == "reject" and isinstance(e, (ValueError, KeyError)) else 1
        return 1 if r["kind"] == "reject" else 0
    import datetime
    data = r["data"]
    rows_o = [(x[0], x[1], datetime.datetime.fromisoformat(x[2]) if isinstance(x[2], str) else x[2], x[3], x[4], x[5]) for x in data[0]]
    L = layer(rows_o, [tuple(x) for x in data[1]])
    q = r["query"]
    q["fields"] = [tuple(x) for x in q["fields"]]
    q["order"] = [tuple(x) for x in q["order"]]
    cols, rows = structured_run(L, q)
    print(r["sql"])
    print("structured:", cols, rows[:10])
    try:
        res = L.sql(r["sql"])
        gc = [d[0] for d in res.description]
        gr = res.fetchall()
        print("sql path:  ", gc, gr[:10])
    except Exception as e:
        print("sql path fails:", e)
        return 1
    return 0 if dbutil.canon_rows(gr) == dbutil.canon_rows(rows) else 1
