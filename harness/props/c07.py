"""C07 — time granularities truncate consistently and roll up additively.

Proof:  Props/C07.v (floor for every timestamp; additive roll-up of sum/count for every table; default time dimension; rejection).
Ties:   extracted Calendar.trunc vs DuckDB DATE_TRUNC (calendar edges, random points; thorough: every hour of 1970-1997);
        single-model queries with several granularities of TIMESTAMP / DATE / expression dimensions: real rows vs Model/Single.v
        with `Trunc` dimension expressions (spec = C01's reference semantics); `_apply_default_time_dimensions` vs Model/TimeDim.v.
Oracle: spec rows; additivity re-computed from the implementation's own finer result; the iff for default time dimensions
        evaluated directly; a granularity on a non-time field must raise QueryValidationError.
"""
import datetime
import json
import warnings

from harness import dbutil, lib, semgen as sg
from harness.props import c01, c09

warnings.filterwarnings("ignore")
GRANS = ["hour", "day", "week", "month", "quarter", "year"]
GCOQ = {"hour": "Hour", "day": "Day", "week": "Week", "month": "Month", "quarter": "Quarter", "year": "Year"}
UD, UH = 86400000000, 3600000000
NEST = {("hour", "hour"), ("day", "hour"), ("day", "day"), ("week", "hour"), ("week", "day"), ("week", "week"), ("month", "hour"), ("month", "day"), ("month", "month"),
        ("quarter", "hour"), ("quarter", "day"), ("quarter", "month"), ("quarter", "quarter"), ("year", "hour"), ("year", "day"), ("year", "month"), ("year", "quarter"), ("year", "year")}

PREAMBLE = c01.PREAMBLE.replace("Require Import V.Model.Sem V.Model.Single.", "Require Import V.Base.Calendar V.Base.CalendarFacts V.Model.Sem V.Model.Single.")


def edge_ts(rng):
    from harness.calpy import dfc
    y = rng.choice([2023, 2024, 2025, 1999, 2000])
    m, d = rng.choice([(1, 1), (1, 31), (2, 28), (2, 29), (3, 1), (3, 31), (4, 1), (6, 30), (7, 1), (9, 30), (10, 1), (12, 29), (12, 30), (12, 31), (5, 15)])
    if (m, d) == (2, 29) and y % 4:
        d = 28
    return dfc(y, m, d) * UD + rng.choice([0, 1, UH - 1, UH, 5 * UH + 123456, 23 * UH + 3599999999, 12 * UH])


def gen_case(rng):
    rows = []
    for i in range(rng.choice([0, 1, 3, 6, 10, 14])):
        t = edge_ts(rng) if rng.random() < 0.85 else None
        rows.append((i + 1, t, rng.choice([None, "a", "b"]), rng.choice([None, 0, 1, 5, -2])))
    base_ts = rng.choice(["hour", "day", "week", "week", "month", "quarter", "year"])
    dims = []
    for _ in range(rng.choice([1, 2, 2, 3])):
        col = rng.choice(["ts", "ts", "dd", "tx"])
        dims.append((col, rng.choice(GRANS + [None])))
    if rng.random() < 0.4:
        dims.append(("cat", None))
    # no duplicate dimension references
    seen, dd = set(), []
    for x in dims:
        if x not in seen:
            seen.add(x)
            dd.append(x)
    return dict(rows=rows, base_ts=base_ts, dims=dd, mets=[("sum", "v"), ("count", None)], filt=rng.random() < 0.3)


def gen_straddle(rng):
    """targeted family: ONE time dimension requested at week AND at month / quarter / year, rows on both sides of a month (quarter, year) boundary that
    lies inside one ISO week: every (week, month) pair is its own group"""
    from harness.calpy import dfc
    pairs = [((2024, 1, 29), (2024, 2, 1)), ((2024, 2, 29), (2024, 3, 1)), ((2024, 12, 30), (2025, 1, 1)), ((2023, 2, 28), (2023, 3, 1)), ((2024, 9, 30), (2024, 10, 2)),
             ((2025, 3, 31), (2025, 4, 1)), ((2024, 7, 29), (2024, 8, 1))]
    rows, i = [], 0
    for (a, b) in rng.sample(pairs, rng.randint(1, 3)):
        for (y, m, d) in (a, b, a if rng.random() < 0.5 else b):
            i += 1
            rows.append((i, dfc(y, m, d) * UD + rng.choice([0, UH * 9, UD - 1]), rng.choice([None, "a", "b", "a"]), rng.choice([None, 1, 5, -2, 7])))
    col = rng.choice(["ts", "ts", "dd"])
    grans = ["week", rng.choice(["month", "month", "quarter", "year"])] + ([rng.choice(["day", "year"])] if rng.random() < 0.3 else [])
    rng.shuffle(grans)
    dims = []
    for g in grans:
        if (col, g) not in dims:
            dims.append((col, g))
    if rng.random() < 0.3:
        dims.append(("cat", None))
    return dict(rows=rows, base_ts=rng.choice(["hour", "day", "week", "month"]), dims=dims, mets=[("sum", "v"), ("count", None)], filt=False)


def real(case):
    from sidemantic import Dimension, Metric, Model
    L = dbutil.fresh_layer()
    L.conn.execute("create table ev(id bigint, ts timestamp, dd date, cat varchar, v bigint)")
    for (i, t, cat, v) in case["rows"]:
        ts = None if t is None else dbutil.us_to_ts(t)
        L.conn.execute("insert into ev values (?, ?, ?, ?, ?)", [i, ts, None if ts is None else ts.date(), cat, v])
    L.add_model(Model(name="ev", table="ev", primary_key="id",
                      dimensions=[Dimension(name="ts", type="time", granularity=case["base_ts"], sql="ts"), Dimension(name="dd", type="time", granularity="day", sql="dd"),
                                  Dimension(name="tx", type="time", granularity="hour", sql="(ts + INTERVAL 1 DAY)"), Dimension(name="cat", type="categorical")],
                      metrics=[Metric(name="m0", agg="sum", sql="v"), Metric(name="m1", agg="count")]))
    drefs = ["ev.%s%s" % (c, "__" + g if g else "") for c, g in case["dims"]]
    sql = L.compile(metrics=["ev.m0", "ev.m1"], dimensions=drefs, filters=(["ev.cat = 'a'"] if case["filt"] else []))
    cur = L.conn.execute(sql)
    rows = cur.fetchall()
    out = []
    for r in rows:
        out.append(tuple((dbutil.canon_val(x)[1] if isinstance(x, (datetime.date, datetime.datetime)) else x) for x in r))
    return [d[0] for d in cur.description], out, sql


def coq_term(case):
    # columns: 0 id, 1 ts, 2 dd (midnight of ts), 3 cat, 4 v
    def dim_expr(c, g):
        if c == "cat":
            return "(Col 3)"
        base = {"ts": "(Col 1)", "dd": "(Col 2)", "tx": "(Add (Col 1) (Lit (VInt %d)))" % UD}[c]
        gran = g or {"ts": case["base_ts"], "dd": "day", "tx": "hour"}[c]
        return "(Trunc %s %s)" % (GCOQ[gran], base)
    rows = sg.coq_rows([[i, t, (None if t is None else (t // UD) * UD), cat, v] for (i, t, cat, v) in case["rows"]])
    q = "(Q [%s] [M ASum (Some (Col 4)) []; M ACount None []] [%s] [] None None false)" % ("; ".join(dim_expr(c, g) for c, g in case["dims"]),
                                                                                          "Cmp CEq (Col 3) (Lit (VStr \"a\"))" if case["filt"] else "")
    return "both [0] %s [] %s" % (q, rows)


def e2e(c, n):
    cases = [gen_case(c.rng) for _ in range(n)] + [gen_straddle(c.rng) for _ in range(max(10, n // 6))]
    outs = None
    if lib.coq_make(["Model/Single.vo"])[0]:
        try:
            outs = lib.coq_eval("c07_cases", PREAMBLE, [coq_term(x) for x in cases], chunk=60)
        except RuntimeError as e:
            c.obligation("model evaluation", False, "correspondence", str(e)[-1500:])
    bad_fid, multi = [], 0
    for i, case in enumerate(cases):
        try:
            cols, rows, sql = real(case)
        except Exception as e:
            c.violation("a time-granularity query fails: %s" % str(e)[:150], {"kind": "case", "case": case})
            continue
        want_cols = ["%s%s" % (cc, "__" + g if g else "") for cc, g in case["dims"]] + ["m0", "m1"]
        if outs is None:
            continue
        m_line, s_line = sg.unquote(outs[i]).split("#")
        q = {"dims": case["dims"], "mets": [(None, "sum"), (None, "count")]}
        from harness.props import c02
        ok_model = c02.compare(q, rows, sg.parse_show(m_line), set())
        ok_spec = cols == want_cols and c02.compare(q, rows, sg.parse_show(s_line), set())
        if not ok_model:
            bad_fid.append({"case": case, "impl": [list(map(str, r)) for r in rows[:6]], "model": m_line[:300]})
        if not ok_spec:
            c.violation("rows grouped by time granularities differ from grouping by the calendar bucket starts", {"kind": "case", "case": case, "columns": cols, "impl_rows": [list(map(str, r)) for r in rows[:8]], "spec": s_line[:600], "sql": sql[-800:]})
        multi += len(rows) > 1
        if len(c.samples) < 2 and len(rows) > 2:
            c.samples.append({"dimensions": case["dims"], "base_granularity_of_ts": case["base_ts"], "rows": [list(map(str, r)) for r in rows[:3]]})
    if outs is not None:
        c.obligation("correspondence: Model/Single (Trunc dimensions) == compile()+DuckDB on %d time-granularity queries" % len(cases), not bad_fid, "correspondence", json.dumps(bad_fid[:1], default=str)[:1500])
    return len(cases), multi


def additivity(c, rounds):
    """on the implementation alone: the coarse result equals the re-aggregated finer result"""
    from sidemantic import Dimension, Metric, Model
    n = 0
    for _ in range(rounds):
        L = dbutil.fresh_layer()
        L.conn.execute("create table ev(id bigint, ts timestamp, v bigint)")
        rows = [(i, dbutil.us_to_ts(edge_ts(c.rng)), c.rng.choice([0, 1, 5, -2, 7])) for i in range(40)]
        L.conn.executemany("insert into ev values (?, ?, ?)", rows)
        L.add_model(Model(name="ev", table="ev", primary_key="id", dimensions=[Dimension(name="ts", type="time", granularity="hour", sql="ts")],
                          metrics=[Metric(name="s", agg="sum", sql="v"), Metric(name="n", agg="count")]))
        res = {g: L.conn.execute(L.compile(metrics=["ev.s", "ev.n"], dimensions=["ev.ts__" + g])).fetchall() for g in GRANS}
        for (q, p) in sorted(NEST):
            if q == p:
                continue
            n += 1
            fine = res[p]
            buckets = c09.model_trunc([(q, dbutil.canon_val(r[0])[1]) for r in fine])
            agg = {}
            for b, r in zip(buckets, fine):
                a = agg.setdefault(b, [0, 0])
                a[0] += r[1] or 0
                a[1] += r[2]
            coarse = {dbutil.canon_val(r[0])[1]: [r[1] or 0, r[2]] for r in res[q]}
            if agg != coarse:
                c.violation("sum/count at %s do not equal the sums over the nested %s buckets" % (q, p), {"kind": "additive", "q": q, "p": p, "rows": [(r[0], str(r[1]), r[2]) for r in rows]})
    return n


TD_PREAMBLE = """From Coq Require Import String List Bool.
Require Import V.Model.TimeDim.
Import ListNotations.
Open Scope string_scope.
Definition TD n t := {| td_name := n; td_is_time := t |}.
Definition TM n d df g := {| tm_name := n; tm_dims := d; tm_default := df; tm_grain := g |}.
Definition DR m d g := {| dr_model := m; dr_dim := d; dr_gran := g |}.
Definition sh (l : list dref) : string := String.concat ";" (map (fun r => dr_model r ++ "." ++ dr_dim r ++ match dr_gran r with Some g => "__" ++ g | None => "" end) l).
"""


def defaults(c, n):
    from sidemantic import Dimension, Metric, Model, Relationship
    from sidemantic.sql.generator import SQLGenerator
    cases, terms = [], []
    for _ in range(n):
        L = dbutil.fresh_layer()
        ms = []
        for name in ["a", "b", "c"][:c.rng.randint(1, 3)]:
            dims = [("t1", True), ("t2", True), ("k", False)][:c.rng.randint(1, 3)]
            df = c.rng.choice([None, "t1", "t1", "t2" if len(dims) > 1 else "t1"])
            gr = c.rng.choice([None, "month", "week"]) if df else None
            ms.append((name, dims, df, gr))
            L.add_model(Model(name=name, table=name, primary_key="id", default_time_dimension=df, default_grain=gr,
                              relationships=([Relationship(name="a", type="many_to_one", foreign_key="a_id")] if name != "a" else []),
                              dimensions=[Dimension(name=d, type="time" if t else "categorical", granularity="day" if t else None) for d, t in dims],
                              metrics=[Metric(name="m", agg="count"), Metric(name="m2", agg="count")]))
        L.add_metric(Metric(name="gm", agg="sum", sql="a.k"))
        names = [m[0] for m in ms]
        metrics = [c.rng.choice([x + ".m" for x in names] + [x + ".m2" for x in names] + ["gm"]) for _ in range(c.rng.randint(1, 3))]
        dims = []
        for _ in range(c.rng.randint(0, 3)):
            mn, mdims, _, _ = c.rng.choice(ms)
            d, t = c.rng.choice(mdims)
            dims.append("%s.%s%s" % (mn, d, c.rng.choice(["", "__month", "__day"]) if t else ""))
        got = SQLGenerator(L.graph)._apply_default_time_dimensions(metrics, list(dims))
        cases.append((ms, metrics, dims, got))
        # the caller keeps ONE dimension list for two queries on this layer: first this query, then a query for the metrics of one other model only --
        # the second must compile to what it compiles to with a list of its own (no default time dimension left behind by the first)
        if len(names) > 1 and dims:
            others = [x + ".m" for x in names if not any(m.startswith(x + ".") for m in metrics)]
            if others:
                shared = list(dims)
                try:
                    L.compile(metrics=list(metrics), dimensions=shared)
                    second = L.compile(metrics=[others[0]], dimensions=shared)
                    alone = L.compile(metrics=[others[0]], dimensions=list(dims))
                    c.coverage["shared_dimension_lists"] = c.coverage.get("shared_dimension_lists", 0) + 1
                    if second != alone:
                        c.violation("a query that names no metric of a model carries that model's default time dimension because an earlier query was given the same dimension list object",
                                    {"kind": "shared_list", "models": ms, "first_metrics": metrics, "second_metrics": [others[0]], "dims": dims, "list_after": shared, "second_sql": second[-600:], "alone_sql": alone[-600:]})
                except Exception:
                    c.coverage["shared_dimension_list_errors"] = c.coverage.get("shared_dimension_list_errors", 0) + 1
        opt = lambda x: "None" if x is None else '(Some "%s")' % x
        cm = "[" + "; ".join('TM "%s" [%s] %s %s' % (nm, "; ".join('TD "%s" %s' % (d, "true" if t else "false") for d, t in dd), opt(df), opt(gr)) for nm, dd, df, gr in ms) + "]"
        cmet = "[" + "; ".join(opt(m.split(".")[0]) if "." in m else "None" for m in metrics) + "]"
        def dref(s):
            mn, rest = s.split(".", 1)
            d, g = (rest.split("__") + [None])[:2]
            return 'DR "%s" "%s" %s' % (mn, d, opt(g))
        terms.append("sh (apply_defaults %s %s [%s])" % (cm, cmet, "; ".join(dref(x) for x in dims)))
    bad = []
    if lib.coq_make(["Model/TimeDim.vo"])[0]:
        outs = lib.coq_eval("c07_defaults", TD_PREAMBLE, terms, chunk=200)
        for (ms, metrics, dims, got), o in zip(cases, outs):
            if sg.unquote(o) != ";".join(got):
                bad.append({"models": ms, "metrics": metrics, "dims": dims, "impl": got, "model": sg.unquote(o)})
        c.obligation("correspondence: Model/TimeDim.apply_defaults == _apply_default_time_dimensions on %d cases" % len(cases), not bad, "correspondence", json.dumps(bad[:2])[:1500])
    # the iff, evaluated directly on the implementation's answer
    for ms, metrics, dims, got in cases:
        if got[:len(dims)] != dims:
            c.violation("requested dimensions were dropped or reordered by the default-time-dimension step", {"kind": "default", "models": ms, "metrics": metrics, "dims": dims, "result": got})
            continue
        added = got[len(dims):]
        for nm, dd, df, gr in ms:
            has_metric = any(m.startswith(nm + ".") for m in metrics)
            has_time = any(x.split(".")[0] == nm and dict(dd).get(x.split(".")[1].split("__")[0]) for x in dims)
            expect = bool(df) and has_metric and not has_time
            ref = "%s.%s%s" % (nm, df, "__" + gr if gr else "") if df else None
            is_added = any(a.split(".")[0] == nm for a in added)
            if is_added != expect or (expect and added.count(ref) != 1):
                c.violation("default time dimension of model %s %s" % (nm, "not added" if expect else "added without cause"), {"kind": "default", "models": ms, "metrics": metrics, "dims": dims, "result": got})
    return len(cases)


def reject_nontime(c):
    from sidemantic import Dimension, Metric, Model
    from sidemantic.validation import QueryValidationError
    L = dbutil.fresh_layer()
    L.conn.execute("create table o(id bigint, status varchar, created timestamp)")
    L.add_model(Model(name="o", table="o", primary_key="id", dimensions=[Dimension(name="status", type="categorical"), Dimension(name="created", type="time", granularity="day")], metrics=[Metric(name="n", agg="count")]))
    n = 0
    for g in GRANS:
        n += 1
        try:
            sql = L.compile(metrics=["o.n"], dimensions=["o.status__" + g])
            c.violation("a granularity on a non-time field is not rejected (o.status__%s compiles)" % g, {"kind": "nontime", "gran": g, "sql": sql[-500:]})
        except QueryValidationError:
            pass
        except Exception as e:
            c.violation("a granularity on a non-time field fails late with %s instead of a validation error" % type(e).__name__, {"kind": "nontime", "gran": g})
    for bad in ("o.created__fortnight", "o.created__minute"):
        n += 1
        try:
            L.compile(metrics=["o.n"], dimensions=[bad])
            c.violation("unknown granularity accepted: %s" % bad, {"kind": "nontime", "dim": bad})
        except QueryValidationError:
            pass
    return n


def multi_model_granularities(c, n):
    """several granularities of ONE time dimension (week next to month / quarter / year, on data where a week lies in two months) in a query whose
    metrics come from two models: every (week, month) pair is its own group and each metric keeps the value it has alone"""
    from harness.props import c03
    done = 0
    for _ in range(n):
        f, q = c03.gen_straddle_case(c.rng)
        try:
            ok, detail = c03.joint_vs_alone(f, q)
        except Exception as e:
            ok, detail = False, {"error": str(e)[:300]}
        done += 1
        if not ok:
            c.violation("a time dimension requested at week and at a calendar granularity in a two-model query: groups / values differ from the single-metric queries",
                        {"kind": "multi_model_grans", "forest": f, "query": q, "detail": detail})
    return done


def sort_key_not_selected(c, n):
    """ORDER BY a field that is NOT among the requested dimensions (the raw time dimension next to its month, another dimension): the query is either refused or
    returns exactly the groups of the same query without the ORDER BY -- the sort key never becomes a grouping key.  compile() and query() both."""
    import random
    rng = random.Random(c.seed * 23 + 1)          # a stream of its own
    done = 0
    for _ in range(n):
        case = gen_straddle(rng) if rng.random() < 0.5 else gen_case(rng)
        try:
            cols, base, _ = real(case)
        except Exception:
            continue
        from sidemantic import Dimension, Metric, Model
        L = dbutil.fresh_layer()
        L.conn.execute("create table ev(id bigint, ts timestamp, dd date, cat varchar, v bigint)")
        for (i, t, cat, v) in case["rows"]:
            ts = None if t is None else dbutil.us_to_ts(t)
            L.conn.execute("insert into ev values (?, ?, ?, ?, ?)", [i, ts, None if ts is None else ts.date(), cat, v])
        L.add_model(Model(name="ev", table="ev", primary_key="id",
                          dimensions=[Dimension(name="ts", type="time", granularity=case["base_ts"], sql="ts"), Dimension(name="dd", type="time", granularity="day", sql="dd"),
                                      Dimension(name="tx", type="time", granularity="hour", sql="(ts + INTERVAL 1 DAY)"), Dimension(name="cat", type="categorical")],
                          metrics=[Metric(name="m0", agg="sum", sql="v"), Metric(name="m1", agg="count")]))
        drefs = ["ev.%s%s" % (cn, "__" + g if g else "") for cn, g in case["dims"]]
        requested = {cn for cn, g in case["dims"] if not g}
        keys = [k for k in ("ev.ts", "ev.cat", "ev.dd", "ev.ts__hour") if k.split(".")[1] not in requested and k not in drefs]
        if not keys:
            continue
        key = rng.choice(keys) + rng.choice(["", " DESC"])
        kw = dict(metrics=["ev.m0", "ev.m1"], dimensions=drefs, filters=(["ev.cat = 'a'"] if case["filt"] else []), order_by=[key])
        for how in ("compile", "query"):
            try:
                rows = (L.conn.execute(L.compile(**kw)) if how == "compile" else L.query(**kw)).fetchall()
            except Exception:
                continue                    # refused (by validation, the generator or the database): allowed
            done += 1
            got = [tuple((dbutil.canon_val(x)[1] if isinstance(x, (datetime.date, datetime.datetime)) else x) for x in r) for r in rows]
            if dbutil.canon_rows(got) != dbutil.canon_rows(base):
                c.violation("ORDER BY a field that is not a requested dimension changes the groups of the result (%s, via %s)" % (key, how),
                            {"kind": "sortkey", "case": case, "order_by": key, "via": how, "without_order_by": [list(map(str, r)) for r in base[:8]], "with_order_by": [list(map(str, r)) for r in got[:8]]})
    return done


def run(c):
    c.trusted += ["Base/Calendar.v hand-written calendar (Hinnant's civil-from-days), proved a floor for all t; tied to DuckDB DATE_TRUNC by correspondence",
                  "Model/Single.v + Sem.Trunc as the model of the <dim>__<gran> CTE columns and of base-granularity truncation of a bare time dimension; Model/TimeDim.v hand-written model of the default-time-dimension step",
                  "DuckDB 1.3.2 as oracle (DATE_TRUNC, INTERVAL arithmetic); other dialects' DATE_TRUNC renderings are not covered (C14)"]
    import os
    from translator import gen_timedim
    try:
        lib.write_if_changed(os.path.join(lib.COQ, "Gen", "TimeDim_gen.v"), gen_timedim.generate(lib.REPO))
        c.obligation("translator: behaviour table of _apply_default_time_dimensions (1008 scripted scenarios) regenerated", True, "translator")
        same = gen_timedim.table(lib.REPO) == gen_timedim.real_table(lib.REPO)
        c.obligation("translator validation: interpreted _apply_default_time_dimensions == the real method under CPython on the same scenarios", same, "translator")
    except Exception as e:
        c.obligation("translator: behaviour table of _apply_default_time_dimensions regenerated", False, "translator", repr(e)[-900:])
    c.trusted.append("translator/pyinterp.py + gen_timedim.py (fail-closed definitional interpreter; validated against CPython each run)")
    lib.regen_small(c, "_parse_dimension_refs")
    c.build_props()
    n_pts, _ = c09.calendar_tie(c, 2000 if c.tier == "quick" else 40000)
    if c.tier == "thorough":
        n_pts += c09.calendar_tie_hourly_cycle(c)
    n_cases, multi = e2e(c, 150 if c.tier == "quick" else 2500)
    n_add = additivity(c, 2 if c.tier == "quick" else 20)
    n_def = defaults(c, 300 if c.tier == "quick" else 4000)
    n_cases += multi_model_granularities(c, 12 if c.tier == "quick" else 120)
    n_rej = reject_nontime(c)
    n_cases += sort_key_not_selected(c, 30 if c.tier == "quick" else 300)
    # several granularities together when a rollup of the model is available: the buckets are still those of the base table (week together with month / quarter / year on
    # rows around month and year ends; the routing side of this is C08 / C09's subject, the buckets are this property's)
    import random as _random
    rows_r = c09.e2e_rows(_random.Random(c.seed * 41 + 9))
    for p_ in ("week", "day", "month"):
        for q1, q2 in (("week", "month"), ("month", "week"), ("week", "year"), ("quarter", "week"), ("day", "month"), ("month", "year")):
            try:
                routed, rr, rb, sql_r = c09.e2e_two(q1, q2, p_, rows_r)
            except Exception as e:
                c.violation("a query at %s and %s with a %s rollup available fails: %s" % (q1, q2, p_, str(e)[:120]), {"kind": "rollup_grans", "q1": q1, "q2": q2, "p": p_, "rows": rows_r})
                continue
            n_cases += 1
            if rr != rb:
                c.violation("requesting %s and %s together with a %s rollup available does not group by the enclosing %s / %s of each row" % (q1, q2, p_, q1, q2),
                            {"kind": "rollup_grans", "q1": q1, "q2": q2, "p": p_, "rows": rows_r, "routed": routed, "sql": sql_r[-700:], "differing_rows": [x for x in rr if x not in rb][:3] + [x for x in rb if x not in rr][:3]})
    c.obligation("oracle: spec rows, additivity from the implementation's finer result (%d pairs), default-time-dimension iff (%d cases), rejection of non-time / unknown granularities (%d)" % (n_add, n_def, n_rej),
                 not c.violations, "correspondence")
    c.coverage.update({"evaluations": n_pts + n_cases + n_add + n_def + n_rej, "distinct_nontrivial": multi + n_add,
                       "rule": "calendar points at month/quarter/year ends, leap days, ISO-week year boundaries, midnight +-1us; queries with 1-4 granularities of TIMESTAMP / DATE / expression dimensions "
                               "(declared base granularity hour/day/month), NULL timestamps, companion dimension and filter; non-trivial = query returning more than one row, or a nested (q,p) additivity pair",
                       "traces_validated_against_impl": n_cases + n_def, "exhaustive": False})


def replay(path):
    body = json.load(open(path))
    if body["replay"].get("kind") == "multi_model_grans":
        from harness.props import c02, c03
        r = body["replay"]
        f, q = r["forest"], r["query"]
        q["dims"] = [(m, c02.sg_t(e)) for m, e in q["dims"]]
        q["mets"] = [(m, a, c02.sg_t(e) if e else None, [c02.sg_t(x) for x in fl]) for m, a, e, fl in q["mets"]]
        q["filters"] = []
        ok, detail = c03.joint_vs_alone(f, q)
        print(json.dumps(detail, default=str, indent=1)[:2500])
        return 0 if ok else 1
    r = body["replay"]
    print(json.dumps(r, indent=1, default=str)[:2500])
    if r.get("kind") == "nontime":
        from harness.lib import Check
        cc = Check("C07", "quick", 0)
        reject_nontime(cc)
        return 1 if cc.violations else 0
    return 1
