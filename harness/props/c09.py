"""C09 — rollup granularity compatibility is calendar-sound.

Proof:  Props/C09.v over Gen/GranCompat_gen.v (regenerated from preagg_matcher.py on every run) and the calendar model.
Ties:   (a) translator output == the Python function on the full 8x8 name domain (evaluated inside Coq);
        (b) Calendar.trunc (extracted) == DuckDB DATE_TRUNC on calendar-edge and random timestamps;
        (c) end to end: for all 36 pairs, a rollup at p materialised by the layer's own statement, the query at q routed vs unrouted.
"""
import json
import os
import random

from harness import dbutil, lib
from translator import gen_grancompat
from translator.py2v_typed import Unsupported

NAMES = ["hour", "day", "week", "month", "quarter", "year"]
EXTRA = ["second", "fortnight"]
UD, UH = 86400000000, 3600000000


def py_compatible(q, p):
    from sidemantic.core.preagg_matcher import PreAggregationMatcher
    m = PreAggregationMatcher.__new__(PreAggregationMatcher)
    return bool(m._is_granularity_compatible(q, p))


def cal_driver():
    return lib.build_driver("cal_driver", "cal_model.ml", "cal_driver.ml")


def model_trunc(pairs):
    """pairs: list of (gran, t) -> list of ints, by the extracted Coq definition"""
    out = lib.run_driver(cal_driver(), ["%s %d" % (g, t) for g, t in pairs])
    return [int(x) for x in out]


def edge_timestamps(rng, n_random):
    import duckdb  # noqa: F401  (only to fail early if missing)
    from harness.calpy import dfc
    ts = []
    years = list(range(1, 8)) + list(range(1895, 2105, 3)) + [1600, 1700, 1800, 1900, 2000, 2100, 2400, 9000]
    for y in years:
        for (m, d) in [(1, 1), (2, 28), (3, 1), (3, 31), (4, 1), (6, 30), (7, 1), (9, 30), (10, 1), (12, 28), (12, 29), (12, 30), (12, 31)]:
            base = dfc(y, m, d) * UD
            ts += [base, base - 1, base + 1, base + UH * 13 + 7, base + UD - 1]
    ts += [rng.randrange(-60000 * UD, 60000 * UD) for _ in range(n_random)]
    return ts


def calendar_tie(c, n_random):
    import duckdb
    import pandas as pd
    ts = edge_timestamps(c.rng, n_random)
    con = duckdb.connect()
    con.register("tt", pd.DataFrame({"us": ts}))
    pairs, expected = [], []
    for g in NAMES:
        rows = con.execute(f"select us, epoch_us(date_trunc('{g}', make_timestamp(us))) from tt").fetchall()
        for us, r in rows:
            pairs.append((g, us))
            expected.append(r)
    got = model_trunc(pairs)
    bad = [(pairs[i], got[i], expected[i]) for i in range(len(pairs)) if got[i] != expected[i]]
    c.obligation("calendar_tie: extracted Calendar.trunc == DuckDB DATE_TRUNC on %d points" % len(pairs), not bad, "correspondence",
                 "first mismatches: %r" % bad[:5])
    return len(pairs), len(set(pairs))


def calendar_tie_hourly_cycle(c):
    """thorough: every hour of the 28-year cycle 1970-1997 (245 448 points) for the six granularities"""
    import duckdb
    con = duckdb.connect()
    n = 28 * 365 * 24 + 7 * 24
    bad_total, count = [], 0
    for g in NAMES:
        rows = con.execute(f"select epoch_us(t), epoch_us(date_trunc('{g}', t)) from (select make_timestamp(i * {UH}) as t from range(0, {n}) r(i))").fetchall()
        got = model_trunc([(g, us) for us, _ in rows])
        count += len(rows)
        bad_total += [(g, rows[i][0], got[i], rows[i][1]) for i in range(len(rows)) if got[i] != rows[i][1]][:3]
    c.obligation("calendar_tie_cycle: every hour of 1970-1997 x 6 granularities (%d points)" % count, not bad_total, "correspondence", repr(bad_total[:5]))
    return count


def build_layer(p, rows, declared="hour"):
    from sidemantic import Dimension, Metric, Model
    from sidemantic.core.pre_aggregation import PreAggregation
    layer = dbutil.fresh_layer()
    con = layer.adapter.raw_connection if hasattr(layer.adapter, "raw_connection") else layer.conn
    layer.conn.execute("create table ev(id bigint, ts timestamp, amt bigint)")
    layer.conn.executemany("insert into ev values (?, ?, ?)", [(i, dbutil.us_to_ts(t), a) for i, (t, a) in enumerate(rows)])
    model = Model(name="ev", table="ev", primary_key="id",
                  dimensions=[Dimension(name="ts", type="time", granularity=declared, sql="ts")],
                  metrics=[Metric(name="total", agg="sum", sql="amt"), Metric(name="n", agg="count")],
                  pre_aggregations=[PreAggregation(name="r", measures=["total", "n"], time_dimension="ts", granularity=p)])
    layer.add_model(model)
    pre = model.pre_aggregations[0]
    layer.conn.execute("create table %s as %s" % (pre.get_table_name("ev"), pre.generate_materialization_sql(model)))
    return layer


def e2e_rows(rng):
    from harness.calpy import dfc
    rows = []
    for _ in range(70):
        y = rng.choice([2023, 2024, 2025])
        m, d = rng.choice([(1, 1), (1, 31), (2, 28), (2, 29), (3, 1), (3, 31), (4, 1), (6, 30), (7, 1), (9, 30), (10, 1), (12, 29), (12, 30), (12, 31)])
        if (m, d) == (2, 29) and y != 2024:
            d = 28
        base = dfc(y, m, d) * UD + rng.choice([0, UH - 1, UH, 5 * UH + 123456, 23 * UH + 3599999999]) + rng.choice([0, 0, UD, -UD, 3 * UD])
        rows.append((base, rng.randrange(-50, 200)))
    return rows


def e2e_pair(q, p, rows, declared="hour", mets=("ev.total", "ev.n")):
    """returns (routed?, routed_rows, base_rows) on the real implementation; `declared` = the granularity the time dimension declares (what a bare
    reference is truncated to) -- the column itself always has sub-hour resolution"""
    layer = build_layer(p, rows, declared)
    kw = dict(metrics=list(mets), dimensions=["ev.ts__" + q])
    sql_r = layer.compile(use_preaggregations=True, **kw)
    sql_b = layer.compile(use_preaggregations=False, **kw)
    routed = "ev_preagg_r" in sql_r
    rr = dbutil.canon_rows(layer.conn.execute(sql_r).fetchall())
    rb = dbutil.canon_rows(layer.conn.execute(sql_b).fetchall())
    return routed, rr, rb, sql_r


def e2e_two(q1, q2, p, rows):
    """the time dimension requested at TWO granularities in one query, on a rollup at p: (routed?, routed rows, base rows, routed sql)"""
    layer = build_layer(p, rows)
    kw = dict(metrics=["ev.total", "ev.n"], dimensions=["ev.ts__" + q1, "ev.ts__" + q2])
    sql_r = layer.compile(use_preaggregations=True, **kw)
    sql_b = layer.compile(use_preaggregations=False, **kw)
    return "ev_preagg_r" in sql_r, dbutil.canon_rows(layer.conn.execute(sql_r).fetchall()), dbutil.canon_rows(layer.conn.execute(sql_b).fetchall()), sql_r


def e2e_second_dim(q, p, rows):
    """TWO time dimensions in one query at the same granularity q: the rollup's own time dimension (stored at p) first, a second one that the rollup carries as a plain
    dimension last.  -> (routed?, routed rows, base rows, routed sql)"""
    from sidemantic import Dimension, Metric, Model
    from sidemantic.core.pre_aggregation import PreAggregation
    layer = dbutil.fresh_layer()
    layer.conn.execute("create table ev(id bigint, ts timestamp, amt bigint)")
    layer.conn.executemany("insert into ev values (?, ?, ?)", [(i, dbutil.us_to_ts(t), a) for i, (t, a) in enumerate(rows)])
    model = Model(name="ev", table="ev", primary_key="id",
                  dimensions=[Dimension(name="ts", type="time", granularity="hour", sql="ts"), Dimension(name="shipped", type="time", granularity="hour", sql="ts + INTERVAL 5 DAY")],
                  metrics=[Metric(name="total", agg="sum", sql="amt"), Metric(name="n", agg="count")],
                  pre_aggregations=[PreAggregation(name="r", measures=["total", "n"], dimensions=["shipped"], time_dimension="ts", granularity=p)])
    layer.add_model(model)
    pre = model.pre_aggregations[0]
    layer.conn.execute("create table %s as %s" % (pre.get_table_name("ev"), pre.generate_materialization_sql(model)))
    kw = dict(metrics=["ev.total", "ev.n"], dimensions=["ev.ts__" + q, "ev.shipped__" + q])
    sql_r = layer.compile(use_preaggregations=True, **kw)
    sql_b = layer.compile(use_preaggregations=False, **kw)
    return "ev_preagg_r" in sql_r, dbutil.canon_rows(layer.conn.execute(sql_r).fetchall()), dbutil.canon_rows(layer.conn.execute(sql_b).fetchall()), sql_r


def edited_rollup(q, p1, p2, rows, how):
    """history: a rollup declared at p1 answers a query (whatever is remembered is remembered now), then its granularity is edited to p2 -- in place, or by
    replacing it with model_copy(update=...) as configuration reloads do -- and the table rebuilt; the same query again.  Returns (routed, routed_rows, base_rows)."""
    layer = build_layer(p1, rows)
    kw = dict(metrics=["ev.total", "ev.n"], dimensions=["ev.ts__" + q])
    layer.compile(use_preaggregations=True, **kw)
    model = layer.graph.models["ev"]
    pre = model.pre_aggregations[0]
    if how == "in_place":
        pre.granularity = p2
    else:
        pre = pre.model_copy(update={"granularity": p2})
        model.pre_aggregations[0] = pre
    layer.conn.execute("drop table %s" % pre.get_table_name("ev"))
    layer.conn.execute("create table %s as %s" % (pre.get_table_name("ev"), pre.generate_materialization_sql(model)))
    sql_r = layer.compile(use_preaggregations=True, **kw)
    sql_b = layer.compile(use_preaggregations=False, **kw)
    return "ev_preagg_r" in sql_r, dbutil.canon_rows(layer.conn.execute(sql_r).fetchall()), dbutil.canon_rows(layer.conn.execute(sql_b).fetchall()), sql_r


def exercise_shared_tables():
    """run the other code that reads the granularity tables (recommender over a query log with known and unknown granularity names,
    definition generation, the matcher's scoring through a routed compile) -- the compatibility function must be the same function
    of its two arguments afterwards (the translation treats the module-level hierarchy as a constant)"""
    from sidemantic.core.preagg_recommender import PreAggregationRecommender
    log = []
    for g in ["minute", "day", "fortnight", "second", "month,minute", "week"]:
        log += ["select 1 -- sidemantic: models=ev metrics=ev.total dimensions=ev.ts granularities=%s" % g] * 12
    rec = PreAggregationRecommender(min_query_count=1)
    rec.parse_query_log(log)
    for r in rec.get_recommendations():
        try:
            rec.generate_preagg_definition(r)
        except Exception:
            pass
    rec.get_summary()
    try:
        e2e_pair("month", "day", [(1704067200000000, 5), (1706745600000000, 7)])
    except Exception:
        pass
    return "PreAggregationRecommender(parse_query_log with granularities minute/day/fortnight/second/week, get_recommendations, generate_preagg_definition, get_summary); routed compile"


def run(c):
    c.trusted += ["translator/py2v_typed.py + gen_grancompat.py (fail-closed; output re-validated against the Python function on the 8x8 name domain each run)",
                  "extraction of Calendar.trunc with ExtrOcamlBasic only; Extract/zio.ml + cal_driver.ml (I/O conversions)",
                  "DuckDB 1.3.2 DATE_TRUNC (oracle tied by the calendar correspondence)",
                  "modelled, not verified: the calendar model itself (Base/Calendar.v) is hand-written; the generator's roll-up expression DATE_TRUNC(q, <time>_<p>) is exercised end to end only"]
    c.assumptions += ["a granularity name outside the six is never truncated by the layer (trunc_s = identity)"]
    # 1. regenerate
    gen_ok = True
    try:
        text = gen_grancompat.generate(lib.REPO)
        lib.write_if_changed(os.path.join(lib.COQ, "Gen", "GranCompat_gen.v"), text)
        c.obligation("translator:GranCompat_gen", True, "translator")
    except (Unsupported, Exception) as e:  # fail closed
        gen_ok = False
        c.obligation("translator:GranCompat_gen", False, "translator", "translation failed: %r" % (e,))
    # 2. proofs
    if gen_ok:
        c.build_props()
    # 3. translator validation on the full finite name domain, evaluated inside Coq
    names = NAMES + EXTRA
    pairs = [(q, p) for q in names for p in names]
    py = [py_compatible(q, p) for q, p in pairs]
    evals = 0
    if gen_ok and not any(o["kind"] == "theorem" and "build failed" in o["detail"] and "Gen/" in o["detail"] for o in c.obligations):
        try:
            vals = lib.coq_eval("c09_tr", "From Coq Require Import String List.\nRequire Import V.Gen.GranCompat_gen.\nOpen Scope string_scope.",
                                ['is_granularity_compatible "%s" "%s"' % (q, p) for q, p in pairs])
            bad = [(pairs[i], vals[i], py[i]) for i in range(len(pairs)) if vals[i] != ("true" if py[i] else "false")]
            c.obligation("translator_validation: Gen.is_granularity_compatible == Python on %d name pairs" % len(pairs), not bad, "correspondence", repr(bad[:6]))
            evals += len(pairs)
        except RuntimeError as e:
            c.obligation("translator_validation", False, "correspondence", str(e))
    # 3b. the function is the same function after the other readers of the granularity tables have run
    hnames = names + ["minute"]
    hpairs = [(q, p) for q in hnames for p in hnames]
    before = [py_compatible(q, p) for q, p in hpairs]
    try:
        what = exercise_shared_tables()
        after = [py_compatible(q, p) for q, p in hpairs]
        changed = [(hpairs[i], before[i], after[i]) for i in range(len(hpairs)) if before[i] != after[i]]
        c.obligation("history independence: _is_granularity_compatible unchanged on %d name pairs after %s" % (len(hpairs), what), not changed, "correspondence", repr(changed[:6]))
        for (q, p), b, a in changed[:3]:
            if a and not b:
                c.violation("after the recommender has run, a query at %r is accepted for a %r rollup (refused on a fresh process)" % (q, p),
                            {"kind": "history", "q": q, "p": p, "history": what, "fresh": b, "after": a})
        evals += 2 * len(hpairs)
    except Exception as e:
        c.obligation("history independence of _is_granularity_compatible", False, "correspondence", repr(e)[-600:])
    # 4. calendar tie
    n_pts, n_distinct = calendar_tie(c, 3000 if c.tier == "quick" else 60000)
    evals += n_pts
    if c.tier == "thorough":
        evals += calendar_tie_hourly_cycle(c)
    # 5. end to end on the implementation: all 36 pairs, routed vs unrouted
    rounds = 1 if c.tier == "quick" else 6
    routed_pairs, e2e_cases = set(), 0
    for r in range(rounds):
        rows = e2e_rows(c.rng)
        for q in NAMES:
            for p in NAMES:
              # every pair with the dimension declared at hour; the pairs the matcher must refuse (q finer than p) also with the dimension declared
              # at the coarser granularities: what the dimension DECLARES must not make a finer query acceptable
              for declared in (["hour"] + (["day", "week", "month"] if NAMES.index(q) < NAMES.index(p) else [["day", "month"][(NAMES.index(q) + NAMES.index(p)) % 2]])):
                routed, rr, rb, sql_r = e2e_pair(q, p, rows, declared)
                e2e_cases += 1
                if routed != py_compatible(q, p):
                    c.notes.append("routing decision for (%s,%s) is %s but _is_granularity_compatible says %s" % (q, p, routed, py_compatible(q, p)))
                if routed:
                    routed_pairs.add((q, p))
                    if rr != rb:
                        diff = [x for x in rr if x not in rb][:3] + [x for x in rb if x not in rr][:3]
                        c.violation("query at %s routed to a %s rollup returns different rows than the base table (dimension declared at %s)" % (q, p, declared),
                                    {"kind": "e2e", "q": q, "p": p, "declared": declared, "rows": rows, "routed_sql": sql_r, "differing_rows": diff})
                if len(c.samples) < 4 and routed and q != p:
                    c.samples.append({"query_granularity": q, "rollup_granularity": p, "routed": routed, "rows_equal": rr == rb, "n_base_rows": len(rows), "n_result_rows": len(rb)})
              # the same pair asked with ONE metric and with NO metric at all (the buckets alone): the granularity test does not depend on what is aggregated
              for mets in ((), ("ev.n",)):
                try:
                    routed, rr, rb, sql_r = e2e_pair(q, p, rows, "hour", mets)
                except Exception as e:
                    c.violation("the query at %s with metrics %s on a %s rollup fails: %s" % (q, list(mets), p, str(e)[:150]), {"kind": "e2e", "q": q, "p": p, "declared": "hour", "mets": list(mets), "rows": rows})
                    continue
                e2e_cases += 1
                if routed and rr != rb:
                    diff = [x for x in rr if x not in rb][:3] + [x for x in rb if x not in rr][:3]
                    c.violation("query at %s with metrics %s routed to a %s rollup returns different rows than the base table" % (q, list(mets), p),
                                {"kind": "e2e", "q": q, "p": p, "declared": "hour", "mets": list(mets), "rows": rows, "routed_sql": sql_r, "differing_rows": diff})
                if routed and not py_compatible(q, p):
                    c.notes.append("the query at %s with metrics %s is routed to a %s rollup although _is_granularity_compatible refuses the pair" % (q, list(mets), p))
    # 5a. two granularities of the time dimension in one query (both orders): routed only if BOTH can be derived, and then with the same rows
    twos = 0
    rows2 = e2e_rows(c.rng)
    for p in NAMES:
        for q1 in NAMES:
            for q2 in NAMES:
                if q1 == q2 or (c.tier == "quick" and "week" not in (q1, q2, p) and (NAMES.index(q1) + NAMES.index(q2) + NAMES.index(p)) % 3):
                    continue
                try:
                    routed, rr, rb, sql_r = e2e_two(q1, q2, p, rows2)
                except Exception as e:
                    c.violation("a query at %s and %s on a %s rollup fails: %s" % (q1, q2, p, str(e)[:120]), {"kind": "two_grans", "q1": q1, "q2": q2, "p": p, "rows": rows2})
                    continue
                twos += 1
                if routed and rr != rb:
                    c.violation("a query asking for %s and %s is routed to a %s rollup and returns different rows than the base table" % (q1, q2, p),
                                {"kind": "two_grans", "q1": q1, "q2": q2, "p": p, "rows": rows2, "routed_sql": sql_r, "differing_rows": [x for x in rr if x not in rb][:3] + [x for x in rb if x not in rr][:3]})
                if routed and not (py_compatible(q1, p) and py_compatible(q2, p)):
                    c.notes.append("routed although _is_granularity_compatible refuses one of (%s, %s) on %s" % (q1, q2, p))
    evals += twos
    # 5a'. two DIFFERENT time dimensions at the same granularity, the rollup's own first: routed only if the rollup's granularity serves it, and then with the same rows
    seconds = 0
    for p in NAMES:
        for q in NAMES:
            try:
                routed, rr, rb, sql_r = e2e_second_dim(q, p, rows2)
            except Exception as e:
                c.violation("a query at %s over two time dimensions on a %s rollup fails: %s" % (q, p, str(e)[:120]), {"kind": "second_dim", "q": q, "p": p, "rows": rows2})
                continue
            seconds += 1
            if routed and rr != rb:
                c.violation("a query asking for two time dimensions at %s is routed to a %s rollup and returns different rows than the base table" % (q, p),
                            {"kind": "second_dim", "q": q, "p": p, "rows": rows2, "routed_sql": sql_r, "differing_rows": [x for x in rr if x not in rb][:3] + [x for x in rb if x not in rr][:3]})
            if routed and not py_compatible(q, p):
                c.notes.append("two time dimensions at %s routed to a %s rollup although _is_granularity_compatible refuses the pair" % (q, p))
    evals += seconds
    # 5b. the rollup's granularity is edited after it has answered a query: the verdict must be the one for the NEW granularity
    edits = 0
    rows = e2e_rows(c.rng)
    for p1 in NAMES:
        for p2 in NAMES:
            qs = [q for q in NAMES if py_compatible(q, p1) != py_compatible(q, p2)]
            if c.tier == "quick":
                qs = qs[:1] + qs[-1:] if (NAMES.index(p1) + NAMES.index(p2)) % 2 else qs[:1]
            for q in dict.fromkeys(qs):
                for how in ("in_place", "model_copy"):
                    try:
                        routed, rr, rb, sql_r = edited_rollup(q, p1, p2, rows, how)
                    except Exception as e:
                        c.violation("a query after the rollup's granularity was edited (%s -> %s, %s) fails: %s" % (p1, p2, how, str(e)[:120]), {"kind": "edited", "q": q, "p1": p1, "p2": p2, "how": how, "rows": rows})
                        continue
                    edits += 1
                    if routed and rr != rb:
                        c.violation("after the rollup's granularity was edited from %s to %s (%s), a query at %s is still answered from it and returns different rows than the base table" % (p1, p2, how, q),
                                    {"kind": "edited", "q": q, "p1": p1, "p2": p2, "how": how, "rows": rows, "routed_sql": sql_r, "differing_rows": [x for x in rr if x not in rb][:3] + [x for x in rb if x not in rr][:3]})
    c.obligation("e2e: routed == unrouted rows for every routed pair (%d pair-runs, %d routed pairs; %d runs after an edit of the rollup's granularity)" % (e2e_cases, len(routed_pairs), edits),
                 not c.violations, "correspondence")
    evals += e2e_cases + edits
    # 6. if a proof obligation or the translator broke and nothing failed end to end: function-level search for a failing input
    if c.broken() and not c.violations:
        wit = [t for (_, t) in [(0, x) for x in edge_timestamps(random.Random(c.seed), 500)]]
        for q, p in pairs:
            if q in NAMES and p in NAMES and py_compatible(q, p):
                a = model_trunc([(p, t) for t in wit])
                b = model_trunc([(q, t) for t in a])
                d = model_trunc([(q, t) for t in wit])
                badt = [wit[i] for i in range(len(wit)) if b[i] != d[i]]
                if badt:
                    c.violation("_is_granularity_compatible(%r, %r) is True but truncation differs at t=%d us" % (q, p, badt[0]),
                                {"kind": "function", "q": q, "p": p, "t_us": badt[0]})
                    break
            elif (q in NAMES) != (p in NAMES) and py_compatible(q, p):
                c.violation("_is_granularity_compatible(%r, %r) is True for an unknown name" % (q, p), {"kind": "function", "q": q, "p": p})
                break
    needless = [(q, p) for q in NAMES for p in NAMES if not py_compatible(q, p) and NAMES.index(q) >= NAMES.index(p) and not (p == "week" and q in ("month", "quarter", "year"))]
    if needless:
        c.notes.append("needless refusals (not a violation): %r" % needless)
    c.coverage.update({"evaluations": evals, "distinct_nontrivial": n_distinct + len(routed_pairs),
                       "rule": "calendar points are distinct (granularity, timestamp) pairs drawn from month/quarter/year ends, leap days, ISO-year boundaries +-1us plus random us; "
                               "e2e cases are (q,p) pairs with a 70-row table crossing bucket boundaries; non-trivial = distinct point, or a pair that is actually routed",
                       "traces_validated_against_impl": e2e_cases, "routed_pairs": sorted("%s<-%s" % x for x in routed_pairs),
                       "exhaustive": False})


def replay_edited(r):
    routed, rr, rb, _ = edited_rollup(r["q"], r["p1"], r["p2"], [tuple(x) for x in r["rows"]], r["how"])
    print("routed:", routed, "equal:", rr == rb)
    return 0 if (not routed or rr == rb) else 1


def replay(path):
    body = json.load(open(path))
    r = body["replay"]
    if r.get("kind") == "e2e":
        routed, rr, rb, sql = e2e_pair(r["q"], r["p"], [tuple(x) for x in r["rows"]], r.get("declared", "hour"), tuple(r.get("mets", ("ev.total", "ev.n"))))
        print("routed:", routed, "rows equal:", rr == rb)
        print(sql)
        return 1 if routed and rr != rb else 0
    if r.get("kind") == "edited":
        return replay_edited(r)
    if r.get("kind") == "two_grans":
        routed, rr, rb, _ = e2e_two(r["q1"], r["q2"], r["p"], [tuple(x) for x in r["rows"]])
        print("routed:", routed, "equal:", rr == rb)
        return 0 if (not routed or rr == rb) else 1
    if r.get("kind") == "history":
        b = py_compatible(r["q"], r["p"])
        exercise_shared_tables()
        a = py_compatible(r["q"], r["p"])
        print("fresh:", b, "after the history:", a)
        return 1 if a != b else 0
    if r.get("kind") == "function":
        print("compatible:", py_compatible(r["q"], r["p"]))
        return 1 if py_compatible(r["q"], r["p"]) else 0
    print(json.dumps(r, indent=1)[:3000])
    return 1
