"""C06 — ratio and derived metrics are compositional.

Proof:  Props/C06.v (tree substitution is compositional at any depth; the code's sequential whole-word expansion = simultaneous
        substitution under freshness = rendering of the substituted tree; ratio / fill_nulls_with values; lossless tokens).
Ties:   (a) Model/Formula.build evaluated in Coq vs the real SQLGenerator._build_metric_sql TEXT on generated metric environments
        (leaf aggregation SQL and dependency sets taken from the real code);
        (b) queries selecting a composite metric together with all of its leaves: the composite column must equal the formula
        applied (recursively, in Coq: feval) to the implementation's own leaf columns -- the property's own observation;
        (c) adding unrelated models / metrics must not change any value.
"""
import json
import math
import warnings
from fractions import Fraction

from harness import dbutil, lib, semgen as sg

warnings.filterwarnings("ignore")

NAMES = ["rev", "gross_rev", "rev_net", "rev2", "net", "total", "sub_total", "total_cost", "cost", "c0", "cnt", "n", "nn", "a", "ab", "b_a", "x_rev_x", "revenue", "re"]
PREAMBLE = """From Coq Require Import ZArith String List Bool DecimalString.
Require Import V.Model.Sem V.Model.Formula.
Import ListNotations.
Open Scope string_scope.
""" + sg.SHOW.split("Definition sr ")[0] + """
Definition T := tokenize.
Definition buildtext (env : list (string * mdef)) (fills : list (string * string)) (key : string) : string :=
  match build 12 env fills key with Some l => untok l | None => "<none>" end.
(* the formula applied, recursively, to the values of its components *)
Fixpoint mval (fuel : nat) (defs : list (string * fexpr)) (leaves : list (string * val)) (n : string) : val :=
  match fuel with
  | 0%nat => VNull
  | S f => match lookup defs n with
           | Some e => feval (mval f defs leaves) e
           | None => match lookup leaves n with Some v => v | None => VNull end
           end
  end.
Definition vals (defs : list (string * fexpr)) (target : string) (rows : list (list (string * val))) : string :=
  String.concat ";" (map (fun leaves => sv (mval 12 defs leaves target)) rows).
"""


# ---------------------------------------------------------------------------------------------
# formula trees
# ---------------------------------------------------------------------------------------------
def gen_tree(rng, refs, depth=0):
    r = rng.random()
    if depth >= 3 or r < 0.35:
        return ("ref", rng.choice(refs)) if rng.random() < 0.85 else ("num", rng.choice([0, 1, 2, 10, -3]))
    if r < 0.75:
        return (rng.choice(["add", "sub", "mul", "div"]), gen_tree(rng, refs, depth + 1), gen_tree(rng, refs, depth + 1))
    if r < 0.83:
        return ("nullif", gen_tree(rng, refs, depth + 1), ("num", rng.choice([0, 1, 5])))
    if r < 0.91:
        # the fallback of a COALESCE is a literal or another (nullable) metric: COALESCE(a, b) is NULL where both are
        return ("coalesce", gen_tree(rng, refs, depth + 1), ("num", rng.choice([0, 1, -1])) if rng.random() < 0.55 else ("ref", rng.choice(refs)))
    return ("case", rng.choice([">", "<=", "=", "<>"]), gen_tree(rng, refs, depth + 1), ("num", rng.choice([0, 2, 5])), gen_tree(rng, refs, depth + 1), gen_tree(rng, refs, depth + 1))


def tree_sql(t, ref_text):
    k = t[0]
    if k == "num":
        return str(t[1]) if t[1] >= 0 else "(%d)" % t[1]
    if k == "ref":
        return ref_text(t[1])
    if k in ("add", "sub", "mul", "div"):
        return "(%s %s %s)" % (tree_sql(t[1], ref_text), {"add": "+", "sub": "-", "mul": "*", "div": "/"}[k], tree_sql(t[2], ref_text))
    if k == "nullif":
        return "NULLIF(%s, %s)" % (tree_sql(t[1], ref_text), tree_sql(t[2], ref_text))
    if k == "coalesce":
        return "COALESCE(%s, %s)" % (tree_sql(t[1], ref_text), tree_sql(t[2], ref_text))
    if k == "case":
        return "CASE WHEN %s %s %s THEN %s ELSE %s END" % (tree_sql(t[2], ref_text), t[1], tree_sql(t[3], ref_text), tree_sql(t[4], ref_text), tree_sql(t[5], ref_text))
    raise ValueError(k)


def tree_coq(t, key):
    k = t[0]
    if k == "num":
        return "(FNum (%d))" % t[1]
    if k == "ref":
        return '(FRef "%s")' % key(t[1])
    if k in ("add", "sub", "mul", "div"):
        return "(FParen (F%s %s %s))" % (k.capitalize(), tree_coq(t[1], key), tree_coq(t[2], key))
    if k == "nullif":
        return "(FNullIf %s %s)" % (tree_coq(t[1], key), tree_coq(t[2], key))
    if k == "coalesce":
        return "(FCoalesce %s %s)" % (tree_coq(t[1], key), tree_coq(t[2], key))
    if k == "case":
        return "(FCase %s %s %s %s %s)" % (sg.CMPS[t[1]], tree_coq(t[2], key), tree_coq(t[3], key), tree_coq(t[4], key), tree_coq(t[5], key))
    raise ValueError(k)


def tree_refs(t):
    if t[0] == "ref":
        return {t[1]}
    return set().union(*[tree_refs(x) for x in t[1:] if isinstance(x, tuple)]) if len(t) > 1 else set()


# ---------------------------------------------------------------------------------------------
# cases: a model `t` (optionally joined to `u`), leaf measures with colliding names, composites over earlier metrics
# ---------------------------------------------------------------------------------------------
def gen_case(rng):
    names = rng.sample(NAMES, rng.randint(4, 8))
    n_leaf = rng.randint(2, min(4, len(names) - 1))
    leaves, comps = [], []
    for nm in names[:n_leaf]:
        kind = rng.random()
        if kind < 0.8:
            agg = rng.choice(["sum", "sum", "count", "min", "max", "count_distinct"])
            leaves.append(dict(name=nm, agg=agg, sql=rng.choice(["c0", "c1", "c0 + c1"]), filt=rng.random() < 0.2))
        else:
            leaves.append(dict(name=nm, inline=rng.choice(["SUM(c0) + COUNT(*)", "MAX(c0) - MIN(c1)", "COUNT(DISTINCT c1) * 2"])))
    avail = [l["name"] for l in leaves]
    for nm in names[n_leaf:]:
        qual = rng.random() < 0.3                       # write references as t.<name>
        if rng.random() < 0.35:
            comps.append(dict(name=nm, kind="ratio", num=rng.choice(avail), den=rng.choice(avail), qual=qual, fill=rng.choice([None, None, 0, -1])))
        else:
            tree = gen_tree(rng, avail)
            if rng.random() < 0.12:
                tree = ("coalesce", ("ref", rng.choice(avail)), ("ref", rng.choice(avail)))          # a formula that IS a COALESCE of two nullable metrics
            comps.append(dict(name=nm, kind="derived", tree=tree, qual=qual, fill=rng.choice([None, None, None, 0, 0, -1])))
        avail.append(nm)
    rows = [[i + 1, rng.choice([None, 0, 1, 2, 5, -3]), rng.choice([None, 0, 1, 2, 4]), rng.choice(["a", "b", None]), rng.choice([1, 2, 3])] for i in range(rng.choice([0, 3, 6, 10]))]
    if rng.random() < 0.3:
        # a group whose additive components are exactly ZERO (not NULL): ratios over it are 0, ratios DIVIDING by such a ratio have a zero denominator
        for r in rows:
            if r[3] == "b":
                r[1] = 0
                r[2] = rng.choice([0, 0, 3])
        sums = [l["name"] for l in leaves if l.get("agg") == "sum" and not l.get("filt")]
        free = [n for n in NAMES if n not in names]
        if sums and len(free) >= 2:
            inner, outer = free[0], free[1]
            comps.append(dict(name=inner, kind="ratio", num=sums[0], den=rng.choice(avail), qual=False, fill=None))
            comps.append(dict(name=outer, kind="ratio", num=rng.choice(avail), den=inner, qual=rng.random() < 0.3, fill=rng.choice([None, -1])))
            avail += [inner, outer]
    joined = rng.random() < 0.3
    graph_level = None
    if rng.random() < 0.3:
        graph_level = dict(name="g_" + rng.choice(names), kind=rng.choice(["derived", "ratio"]), tree=gen_tree(rng, avail), num=rng.choice(avail), den=rng.choice(avail))
    return dict(leaves=leaves, comps=comps, rows=rows, joined=joined, graph=graph_level, dims=rng.choice([[], ["t.s0"], ["t.s0"], ["u.kind"] if joined else ["t.s0"]]))


def build_layer(case, extra=False, collide=None):
    """extra: add an unrelated model with the same measure names and unrelated graph-level metrics;
    collide: name of a graph-level metric to add that is spelled like one of t's measures (class K1)"""
    from sidemantic import Dimension, Metric, Model, Relationship
    L = dbutil.fresh_layer()
    L.conn.execute("create table t(id bigint, c0 bigint, c1 bigint, s0 varchar, uid bigint)")
    if case["rows"]:
        L.conn.executemany("insert into t values (?,?,?,?,?)", case["rows"])
    L.conn.execute("create table u(id bigint, kind varchar, c0 bigint)")
    L.conn.executemany("insert into u values (?,?,?)", [(1, "k1", 5), (2, "k2", 7), (3, None, 1)])
    L.conn.execute("create table zz(id bigint, c0 bigint, c1 bigint)")
    L.conn.executemany("insert into zz values (?,?,?)", [(1, 100, 3), (2, 50, 0)])
    mets = []
    for l in case["leaves"]:
        if "inline" in l:
            mets.append(Metric(name=l["name"], sql=l["inline"]))
        else:
            mets.append(Metric(name=l["name"], agg=l["agg"], sql=l["sql"], filters=(["{model}.c1 > 0"] if l["filt"] else None)))
    for c in case["comps"]:
        ref = (lambda n: "t." + n) if c["qual"] else (lambda n: n)
        kw = {} if c["fill"] is None else {"fill_nulls_with": c["fill"]}
        if c["kind"] == "ratio":
            mets.append(Metric(name=c["name"], type="ratio", numerator=ref(c["num"]), denominator=ref(c["den"]), **kw))
        else:
            mets.append(Metric(name=c["name"], type="derived", sql=tree_sql(c["tree"], ref), **kw))
    rels = [Relationship(name="u", type="many_to_one", foreign_key="uid")] if case["joined"] else []
    L.add_model(Model(name="u", table="u", primary_key="id", dimensions=[Dimension(name="kind", type="categorical")], metrics=[Metric(name="ucnt", agg="count")]))
    L.add_model(Model(name="t", table="t", primary_key="id", dimensions=[Dimension(name="s0", type="categorical")], metrics=mets, relationships=rels))
    g = case["graph"]
    if g:
        # every other graph-level composite names its components WITHOUT their model (they are looked up among the registered models, t first)
        ref = (lambda n: n) if graph_unqualified(case) else (lambda n: "t." + n)
        if g["kind"] == "ratio":
            L.add_metric(Metric(name=g["name"], type="ratio", numerator=ref(g["num"]), denominator=ref(g["den"])))
        else:
            L.add_metric(Metric(name=g["name"], type="derived", sql=tree_sql(g["tree"], ref)))
    if extra:
        L.add_model(Model(name="zz", table="zz", primary_key="id",
                          metrics=[Metric(name=l["name"], agg="sum", sql="c0") for l in case["leaves"]] + [Metric(name="zz_only", agg="max", sql="c1")]))
        L.add_metric(Metric(name="unrelated_total", type="derived", sql="zz.zz_only * 2"))
        L.add_metric(Metric(name="unrelated_ratio", type="ratio", numerator="zz.zz_only", denominator="zz.zz_only"))
    if collide == "ALL":
        # graph-level metrics spelled like EVERY metric of t -- measures, ratios, derived and inline metrics alike -- each with another formula: unqualified component
        # names inside t's composites still mean t's own metrics, whatever their type
        for nm in [l["name"] for l in case["leaves"]] + [x["name"] for x in case["comps"]]:
            L.add_metric(Metric(name=nm, type="derived", sql="zz.zz_only + 1000"))
    elif collide:
        L.add_metric(Metric(name=collide, type="derived", sql="zz.zz_only + 1000") if extra else Metric(name=collide, type="derived", sql="u.ucnt + 1000"))
    return L


def graph_unqualified(case):
    import zlib
    g = case.get("graph")
    return bool(g) and g["kind"] == "derived" and zlib.crc32(repr((g["name"], g.get("tree"), g.get("num"), g.get("den"))).encode()) % 2 == 1


def inline_name_clash(case):
    """K3: an inline-aggregate expression metric mentions a raw column whose name is also the name of a metric of the model (itself included)"""
    import re
    names = {l["name"] for l in case["leaves"]} | {x["name"] for x in case["comps"]}
    return any(set(re.findall(r"\w+", l["inline"])) & names for l in case["leaves"] if "inline" in l)


def key_of(name):
    return name if name.startswith("g_") else "t." + name


def defs_coq(case):
    out = []
    for c in case["comps"] + ([case["graph"]] if case["graph"] else []):
        if c["kind"] == "ratio":
            body = "(ratio_f (FRef \"%s\") (FRef \"%s\"))" % (key_of(c["num"]), key_of(c["den"]))
        else:
            body = tree_coq(c["tree"], key_of)
        if c.get("fill") is not None:
            body = "(fill_f (%d) %s)" % (c["fill"], body)
        out.append('("%s", %s)' % (key_of(c["name"]), body))
    return "[" + "; ".join(out) + "]"


def run_query(L, case, target):
    leaves = ["t." + l["name"] for l in case["leaves"]]
    sql = L.compile(metrics=[target] + [x for x in leaves if x != target], dimensions=case["dims"])
    cur = L.conn.execute(sql)
    cols = [d[0] for d in cur.description]
    return cols, cur.fetchall(), sql


def to_coq_val(v):
    import decimal
    if v is None:
        return "VNull"
    if isinstance(v, decimal.Decimal):
        v = int(v) if v == v.to_integral_value() else float(v)
    if isinstance(v, float):
        if v == int(v):
            v = int(v)
        else:
            f = Fraction(v).limit_denominator(10 ** 9)
            return "(VRat (%d) %d)" % (f.numerator, f.denominator)
    return "(VInt (%d))" % int(v)


def close(a, b):
    import decimal
    if a is None or b is None:
        return a is None and b is None
    if isinstance(b, decimal.Decimal):
        b = float(b)
    return math.isclose(float(a), float(b), rel_tol=1e-9, abs_tol=1e-9)


# ---------------------------------------------------------------------------------------------
# (a) text-level tie: Model/Formula.build vs _build_metric_sql
# ---------------------------------------------------------------------------------------------
def text_env(L, case):
    """environment for Formula.build taken from the real objects: leaf aggregation SQL, formulas, dependency lists as the code sorts them"""
    from sidemantic.sql.generator import SQLGenerator
    gen = SQLGenerator(L.graph)
    model = L.graph.get_model("t")
    env, real = [], {}
    qs = lambda s: '"' + s.replace('"', '""') + '"'

    def dep_term(d):
        if "." in d:
            m, n = d.split(".", 1)
            return '(DQual "%s" "%s")' % (m, n)
        return '(DName "%s")' % d

    def ratio_key(ref, ctx):
        if "." in ref:
            return ref
        if ctx and L.graph.get_model(ctx).get_metric(ref):
            return "%s.%s" % (ctx, ref)
        return ref
    for m in model.metrics:
        key = "t." + m.name
        if m.agg:
            env.append("(%s, MLeaf (T %s))" % (qs(key), qs(gen._build_measure_aggregation_sql("t", m))))
        elif m.type == "ratio":
            env.append("(%s, MRatio %s %s)" % (qs(key), qs(ratio_key(m.numerator, "t")), qs(ratio_key(m.denominator, "t"))))
            real[key] = gen._build_metric_sql(m, "t")
        elif m.type == "derived":
            deps = sorted(m.get_dependencies(L.graph, "t"), key=lambda d: (-len(d), d))
            env.append("(%s, MDerived (T %s) [%s])" % (qs(key), qs(m.sql), "; ".join(dep_term(d) for d in deps)))
            real[key] = gen._build_metric_sql(m, "t")
        else:
            env.append("(%s, MInline (T %s))" % (qs(key), qs(gen._build_metric_sql(m, "t"))))
    for name, m in L.graph.metrics.items():
        if name.startswith("g_"):
            if m.type == "ratio":
                env.append("(%s, MRatio %s %s)" % (qs(name), qs(ratio_key(m.numerator, None)), qs(ratio_key(m.denominator, None))))
            else:
                deps = sorted(m.get_dependencies(L.graph, None), key=lambda d: (-len(d), d))
                env.append("(%s, MDerived (T %s) [%s])" % (qs(name), qs(m.sql), "; ".join(dep_term(d) for d in deps)))
            real[name] = gen._build_metric_sql(m, None)
    fills = ["(%s, %s)" % (qs("t." + m.name), qs(str(m.fill_nulls_with))) for m in model.metrics if m.fill_nulls_with is not None]
    fills += ["(%s, %s)" % (qs(n), qs(str(m.fill_nulls_with))) for n, m in L.graph.metrics.items() if n.startswith("g_") and m.fill_nulls_with is not None]
    return "[" + "; ".join(env) + "] [" + "; ".join(fills) + "]", real


def classify(case, target):
    """listed classes: K1 (a graph-level metric spelled like a measure the composite refers to without qualification) is produced only by the
    collide stream; K2 needs the same measure name on two models in one formula, which this generator produces only through `extra`"""
    return None


def other_dialect(c, stats):
    """ratio / derived / nested / graph-level formulas with `/` over INTEGER components, compiled for a dialect whose `/` is integer division on integers (sqlite)
    and executed there (stdlib sqlite3): the values must be those of the DuckDB query (true division), i.e. the formula applied to the component values"""
    import sqlite3
    from sidemantic import Dimension, Metric, Model
    from sidemantic.sql.generator import SQLGenerator
    for k in range(4 if c.tier == "quick" else 30):
        rows = [(i + 1, c.rng.choice(["a", "b", None]), c.rng.choice([None, 1, 2, 3, 4, 7]), c.rng.choice([0, 1])) for i in range(c.rng.choice([3, 5, 8]))]
        L = dbutil.fresh_layer()
        L.conn.execute("create table t(id int, s varchar, v int, w int)")
        L.conn.executemany("insert into t values (?,?,?,?)", rows)
        s3 = sqlite3.connect(":memory:")
        s3.execute("create table t(id int, s varchar, v int, w int)")
        s3.executemany("insert into t values (?,?,?,?)", rows)
        f = c.rng.choice([None, 0])
        L.add_model(Model(name="t", table="t", primary_key="id", dimensions=[Dimension(name="s", type="categorical")],
                          metrics=[Metric(name="rev", agg="sum", sql="v"), Metric(name="n", agg="count"), Metric(name="done", agg="sum", sql="w"),
                                   Metric(name="rate", type="ratio", numerator="done", denominator="n"), Metric(name="d1", type="derived", sql="rev / n"),
                                   Metric(name="d2", type="derived", sql="(rev + done) / n * 100"), Metric(name="d3", type="derived", sql="rate * 2 + d1", fill_nulls_with=f),
                                   Metric(name="r2", type="ratio", numerator="rev", denominator="done")]))
        L.add_metric(Metric(name="g1", type="derived", sql="t.rev / t.n"))
        L.add_metric(Metric(name="g2", type="ratio", numerator="t.done", denominator="t.rev"))
        for mets in (["t.rate", "t.d1"], ["t.d2", "t.d3", "t.r2"], ["g1", "g2"]):
            for dims in ([], ["t.s"]):
                try:
                    want = L.conn.execute(L.compile(metrics=mets, dimensions=dims)).fetchall()
                    sql = SQLGenerator(L.graph, dialect="sqlite").generate(metrics=mets, dimensions=dims)
                    got = s3.execute(sql).fetchall()
                except Exception as e:
                    c.notes.append("sqlite run failed: %s" % str(e)[:100])
                    continue
                stats["other_dialect"] = stats.get("other_dialect", 0) + 1
                canon = lambda rs: sorted([tuple(None if x is None else (round(float(x), 6) if isinstance(x, (int, float)) and not isinstance(x, bool) else x) for x in r) for r in rs], key=str)
                if canon(want) != canon(got):
                    c.violation("a ratio / derived metric over integer components has another value in the SQL generated for sqlite (integer division) than the formula gives",
                                {"kind": "dialect", "rows": rows, "metrics": mets, "dimensions": dims, "duckdb": [list(map(str, r)) for r in want], "sqlite": [list(map(str, r)) for r in got], "sqlite_sql": sql[-700:]})


def run(c):
    c.trusted += ["modelled, not verified: Model/Formula.v (text expansion, formula evaluation) is hand-written; tied by (a) comparing `build` with the text _build_metric_sql returns, "
                  "(b) evaluating formulas over the implementation's own component columns",
                  "outside the model: sqlglot's extraction of column references from a formula (the dependency SET is taken from the real code), DuckDB's parser / evaluator of the expanded text",
                  "the reading of C06_text_expansion assumes the formula text parses to the tree it was rendered from (sqlglot / DuckDB as oracle; exercised by (b))"]
    c.assumptions += ["components are integer-valued aggregates (sum / count / min / max / count_distinct, optionally filtered, or inline-aggregate expressions); `/` is exact division, x / 0 = NULL (DuckDB)"]
    lib.regen_small(c, "_wrap_with_fill_nulls")
    c.build_props()
    n = 140 if c.tier == "quick" else 2500
    cases = corpus_cases() + [gen_case(c.rng) for _ in range(n)]
    ok_model = lib.coq_make(["Model/Formula.vo"])[0]
    terms, index = [], []
    per_case = []
    stats = {"targets": 0, "joined": 0, "graph_level": 0, "impl_errors": 0, "text_compared": 0, "metamorphic": 0, "k1_runs": 0, "nested_depth_ge2": 0}
    for i, case in enumerate(cases):
        info = {"queries": {}, "text": None}
        per_case.append(info)
        try:
            L = build_layer(case)
        except Exception as e:
            c.violation("definitions rejected: %s" % str(e)[:150], {"kind": "case", "case": case})
            continue
        stats["joined"] += case["joined"]
        stats["graph_level"] += bool(case["graph"])
        # (a) text
        try:
            env, real = text_env(L, case)
            info["text"] = real
            for key in real:
                index.append((i, "text", key))
                terms.append('buildtext %s "%s"' % (env, key))
        except Exception as e:
            c.obligation("text environment", False, "correspondence", "%s on %s" % (repr(e)[:300], json.dumps(case, default=str)[:600]))
        # (b) values
        targets = [key_of(x["name"]) for x in case["comps"]] + ([case["graph"]["name"]] if case["graph"] else [])
        defs = defs_coq(case)
        for tgt in targets:
            stats["targets"] += 1
            try:
                cols, rows, sql = run_query(L, case, tgt)
            except Exception as e:
                stats["impl_errors"] += 1
                if inline_name_clash(case) and c.is_open("C06-K3"):
                    c.known("C06-K3")
                    continue
                c.violation("a query selecting a composite metric with its leaves fails: %s" % str(e)[:140], {"kind": "case", "case": case, "target": tgt})
                continue
            nd = len(case["dims"])
            tname = tgt.split(".")[-1]
            leafcols = [l["name"] for l in case["leaves"]]
            rowterms = []
            for r in rows:
                d = dict(zip(cols, r))
                rowterms.append("[" + "; ".join('("t.%s", %s)' % (ln, to_coq_val(d[ln])) for ln in leafcols) + "]")
            info["queries"][tgt] = (cols, rows, sql, tname)
            index.append((i, "val", tgt))
            terms.append('vals %s "%s" [%s]' % (defs, tgt, "; ".join(rowterms)))
    outs = None
    if ok_model:
        try:
            outs = lib.coq_eval("c06_cases", PREAMBLE, terms, chunk=60)
        except RuntimeError as e:
            c.obligation("model evaluation", False, "correspondence", str(e)[-1500:])
    text_bad, nontrivial = [], 0
    if outs is not None:
        for (i, kind, key), o in zip(index, outs):
            case, info = cases[i], per_case[i]
            o = sg.unquote(o)
            if kind == "text":
                stats["text_compared"] += 1
                if o != info["text"][key]:
                    text_bad.append({"metric": key, "model": o[:500], "impl": info["text"][key][:500], "case": case})
            else:
                cols, rows, sql, tname = info["queries"][key]
                want = [sg.parse_val(x) for x in o.split(";")] if rows else []
                got = [dict(zip(cols, r))[tname] for r in rows]
                # rows whose reference value involves a division by zero (IEEE inf / nan in DuckDB) are outside the modelled fragment
                keep = [k for k, w in enumerate(want) if not isinstance(w, str)]
                stats["rows_outside_fragment"] = stats.get("rows_outside_fragment", 0) + (len(want) - len(keep))
                if len(want) != len(got) or not all(close(want[k], got[k]) for k in keep):
                    if inline_name_clash(case) and c.is_open("C06-K3"):
                        c.known("C06-K3")
                        continue
                    c.violation("a composite metric differs from its formula applied to the values of its components in the same rows (%s)" % key,
                                {"kind": "case", "case": case, "target": key, "columns": cols, "impl_rows": [list(map(str, r)) for r in rows[:8]], "formula_values": o[:300], "sql": sql[:1400]})
                elif len(rows) > 1:
                    nontrivial += 1
        c.obligation("correspondence: Model/Formula.build == the text SQLGenerator._build_metric_sql returns (%d composite metrics)" % stats["text_compared"], not text_bad, "correspondence",
                     json.dumps(text_bad[:1], default=str)[:1800])
    # (c) adding unrelated models / metrics changes nothing; a colliding graph-level name is the listed class K1
    for i, case in enumerate(cases):
        info = per_case[i]
        if not info["queries"] or i % 2:
            continue
        try:
            L2 = build_layer(case, extra=True, collide=("ALL" if i % 4 == 0 and not graph_unqualified(case) else None))
        except Exception as e:
            c.violation("adding an unrelated model makes the definitions fail: %s" % str(e)[:140], {"kind": "case", "case": case, "extra": True})
            continue
        for tgt, (cols, rows, sql, tname) in info["queries"].items():
            stats["metamorphic"] += 1
            try:
                cols2, rows2, sql2 = run_query(L2, case, tgt)
                same = dbutil.canon_rows(rows) == dbutil.canon_rows(rows2)
            except Exception as e:
                same, rows2, sql2 = False, [], str(e)[:300]
            if not same:
                c.violation("adding an unrelated model and unrelated metrics changes the value of %s" % tgt,
                            {"kind": "meta", "case": case, "target": tgt, "before": [list(map(str, r)) for r in rows[:6]], "after": [list(map(str, r)) for r in rows2[:6]], "sql_after": sql2[:1200]})
    stats["twin_queries"] = twin_check(c, c.rng, 12 if c.tier == "quick" else 150)
    k1 = replay_k1()
    stats["k1_runs"] = 1
    if k1 and c.is_open("C06-K1"):
        c.known("C06-K1")
    elif k1:
        c.violation("a graph-level metric spelled like a model's measure captures the model's unqualified references", {"kind": "k1"})
    k4 = replay_k4()
    if k4 and c.is_open("C06-K4"):
        c.known("C06-K4")
    elif k4:
        c.violation("a graph-level ratio over unqualified component names cannot be queried", {"kind": "k4"})
    k2 = replay_k2()
    if k2 and c.is_open("C06-K2"):
        c.known("C06-K2")
    elif k2:
        c.violation("a derived metric over the same measure name on two models expands to invalid SQL", {"kind": "k2"})
    other_dialect(c, stats)
    c.obligation("oracle: composite == formula over its own components; unrelated additions change nothing; the same values from the SQL generated for sqlite", not c.violations, "correspondence")
    if per_case and cases:
        for case, info in zip(cases, per_case):
            if info["queries"] and len(c.samples) < 3 and len(case["comps"]) >= 2:
                tgt, (cols, rows, sql, tname) = list(info["queries"].items())[-1]
                c.samples.append({"target": tgt, "definitions": [(x["name"], x["kind"], tree_sql(x["tree"], lambda n: n) if x["kind"] == "derived" else (x["num"], x["den"])) for x in case["comps"]],
                                  "rows": [list(map(str, r)) for r in rows[:3]]})
    c.coverage.update({"evaluations": len(terms) + stats["metamorphic"], "distinct_nontrivial": nontrivial,
                       "rule": "4-8 metrics with colliding names (prefix / suffix / substring, a name equal to a column) on one model: 2-4 leaves (sum/count/min/max/count_distinct, 20% filtered, inline-aggregate expressions) "
                               "and ratio / derived composites (random trees over + - * / NULLIF COALESCE CASE and literals, depth <= 3, nested over earlier composites, qualified or unqualified references, fill_nulls_with), "
                               "optionally a graph-level composite and a joined dimension; tables of 0-10 rows with NULLs; non-trivial = composite verified on more than one result row",
                       "traces_validated_against_impl": stats["targets"], "distribution": stats, "exhaustive": False})


def twin_check(c, rng, n):
    """two related models that define textually identical composites over their own same-named measures, both requested in ONE
    query: each composite must equal its formula over ITS OWN model's components (unqualified names resolve to the metric's own model)"""
    from sidemantic import Dimension, Metric, Model, Relationship
    done = 0
    for k in range(n):
        tree = gen_tree(rng, ["rev", "cnt"])
        rel = rng.choice(["one_to_one", "many_to_one"])
        rows_a = [(i + 1, rng.choice([1, 2, 5, 10]), rng.choice(["x", "y"]), i + 1) for i in range(rng.choice([2, 3, 4]))]
        rows_b = [(i + 1, rng.choice([100, 7, 3, 40]), rng.choice(["x", "y"])) for i in range(len(rows_a))]
        L = dbutil.fresh_layer()
        L.conn.execute("create table a(id bigint, v bigint, s0 varchar, bid bigint)")
        L.conn.execute("create table b(id bigint, v bigint, s0 varchar)")
        L.conn.executemany("insert into a values (?,?,?,?)", rows_a)
        L.conn.executemany("insert into b values (?,?,?)", rows_b)
        def mets():
            return [Metric(name="rev", agg="sum", sql="v"), Metric(name="cnt", agg="count"), Metric(name="comp", type="derived", sql=tree_sql(tree, lambda x: x)),
                    Metric(name="rat", type="ratio", numerator="rev", denominator="cnt")]
        # a.bid -> b.id ; a one_to_one relationship is declared on the side that does NOT hold the foreign key
        L.add_model(Model(name="b", table="b", primary_key="id", dimensions=[Dimension(name="s0", type="categorical")], metrics=mets(),
                          relationships=([Relationship(name="a", type="one_to_one", foreign_key="bid")] if rel == "one_to_one" else [])))
        L.add_model(Model(name="a", table="a", primary_key="id", dimensions=[Dimension(name="s0", type="categorical")], metrics=mets(),
                          relationships=([Relationship(name="b", type="many_to_one", foreign_key="bid")] if rel == "many_to_one" else [])))
        target = rng.choice(["comp", "rat"])
        try:
            both = L.conn.execute(L.compile(metrics=["a." + target, "b." + target], dimensions=["a.s0"])).fetchall()
            alone_a = L.conn.execute(L.compile(metrics=["a." + target], dimensions=["a.s0"])).fetchall()
            alone_b = L.conn.execute(L.compile(metrics=["b." + target], dimensions=["a.s0"])).fetchall()
        except Exception as e:
            c.violation("identically defined composites of two models cannot be selected together: %s" % str(e)[:140], {"kind": "twin", "tree": tree, "rel": rel, "target": target, "rows_a": rows_a, "rows_b": rows_b})
            continue
        done += 1
        da, db = {r[0]: r[1] for r in alone_a}, {r[0]: r[1] for r in alone_b}
        ok = all(close(r[1], da.get(r[0])) or (isinstance(r[1], float) and not math.isfinite(r[1])) for r in both) and \
             all(close(r[2], db.get(r[0])) or (isinstance(r[2], float) and not math.isfinite(r[2])) for r in both)
        if not ok:
            c.violation("a composite metric takes another model's components when an identically defined composite of that model is selected with it",
                        {"kind": "twin", "tree": tree, "rel": rel, "target": target, "rows_a": rows_a, "rows_b": rows_b, "together": [list(map(str, r)) for r in both], "alone_a": [list(map(str, r)) for r in alone_a], "alone_b": [list(map(str, r)) for r in alone_b]})
    return done


def replay_k1():
    """K1 witness: model measure `rev`, derived `net = gross_rev - rev`; adding a graph-level metric named `rev` changes net"""
    case = dict(leaves=[dict(name="rev", agg="sum", sql="c0", filt=False), dict(name="gross_rev", agg="sum", sql="c1", filt=False)],
                comps=[dict(name="net", kind="derived", tree=("sub", ("ref", "gross_rev"), ("ref", "rev")), qual=False, fill=None)],
                rows=[[1, 5, 9, "a", 1], [2, 1, 2, "a", 2]], joined=False, graph=None, dims=[])
    a = run_query(build_layer(case), case, "t.net")[1]
    try:
        b = run_query(build_layer(case, collide="rev"), case, "t.net")[1]
    except Exception:
        return True
    return dbutil.canon_rows(a) != dbutil.canon_rows(b)


def replay_k4():
    """K4 witness: a graph-level RATIO whose numerator / denominator are written without their model (a graph-level DERIVED metric over the same bare names works)"""
    from sidemantic import Metric, Model
    L = dbutil.fresh_layer()
    L.conn.execute("create table a(id bigint, v bigint)")
    L.conn.execute("insert into a values (1, 5), (2, 7)")
    L.add_model(Model(name="a", table="a", primary_key="id", metrics=[Metric(name="rev", agg="sum", sql="v"), Metric(name="cnt", agg="count")]))
    L.add_metric(Metric(name="per_row", type="ratio", numerator="rev", denominator="cnt"))
    L.add_metric(Metric(name="per_row_d", type="derived", sql="rev / cnt"))
    try:
        rows = L.conn.execute(L.compile(metrics=["per_row"], dimensions=[])).fetchall()
    except Exception:
        return True
    return not (len(rows) == 1 and rows[0][0] == 6)


def replay_k2():
    """K2 witness: graph-level derived metric a.rev + b.rev (the same measure name on two models)"""
    from sidemantic import Metric, Model, Relationship
    L = dbutil.fresh_layer()
    L.conn.execute("create table a(id bigint, v bigint, bid bigint)")
    L.conn.execute("create table b(id bigint, v bigint)")
    L.conn.execute("insert into a values (1, 5, 1), (2, 7, 1)")
    L.conn.execute("insert into b values (1, 100)")
    L.add_model(Model(name="b", table="b", primary_key="id", metrics=[Metric(name="rev", agg="sum", sql="v")]))
    L.add_model(Model(name="a", table="a", primary_key="id", metrics=[Metric(name="rev", agg="sum", sql="v")], relationships=[Relationship(name="b", type="many_to_one", foreign_key="bid")]))
    L.add_metric(Metric(name="both", type="derived", sql="a.rev + b.rev"))
    try:
        rows = L.conn.execute(L.compile(metrics=["both"], dimensions=[])).fetchall()
    except Exception:
        return True
    return not (len(rows) == 1 and rows[0][0] == 112)


def corpus_cases():
    base = dict(rows=[[1, 5, 0, "a", 1], [2, None, 2, "a", 2], [3, 7, 1, "b", 1], [4, 0, 0, "b", 3], [5, 3, None, None, 2]], joined=False, graph=None, dims=["t.s0"])
    L = lambda n, a, s, f=False: dict(name=n, agg=a, sql=s, filt=f)
    return [
        dict(base, leaves=[L("rev", "sum", "c0"), L("gross_rev", "sum", "c1"), L("cnt", "count", "c0")],
             comps=[dict(name="net", kind="derived", tree=("sub", ("ref", "gross_rev"), ("ref", "rev")), qual=False, fill=None),
                    dict(name="rev_net", kind="ratio", num="net", den="cnt", qual=False, fill=0),
                    dict(name="total", kind="derived", tree=("div", ("add", ("ref", "rev_net"), ("ref", "net")), ("nullif", ("sub", ("ref", "cnt"), ("num", 2)), ("num", 0))), qual=True, fill=None)]),
        dict(base, joined=True, dims=["u.kind"], leaves=[L("a", "sum", "c0"), L("ab", "count_distinct", "c1", True)],
             comps=[dict(name="b_a", kind="ratio", num="a", den="ab", qual=True, fill=-1)],
             graph=dict(name="g_ab", kind="derived", tree=("case", ">", ("ref", "b_a"), ("num", 2), ("ref", "a"), ("coalesce", ("ref", "b_a"), ("num", 0))), num="a", den="ab")),
    ]


def replay(path):
    body = json.load(open(path))
    r = body["replay"]
    if r.get("kind") == "k1":
        return 1 if replay_k1() else 0
    if r.get("kind") == "k4":
        return 1 if replay_k4() else 0
    if r.get("kind") == "k2":
        return 1 if replay_k2() else 0
    case = r["case"]
    fix = lambda t: tuple(fix(x) if isinstance(x, list) else x for x in t)
    for cdef in case["comps"] + ([case["graph"]] if case.get("graph") else []):
        if cdef.get("tree") is not None:
            cdef["tree"] = fix(cdef["tree"])
    L = build_layer(case, extra=bool(r.get("kind") == "meta"))
    cols, rows, sql = run_query(L, case, r["target"])
    print(sql)
    print(cols)
    print(rows)
    out = lib.coq_eval("c06_replay", PREAMBLE, ['vals %s "%s" [%s]' % (defs_coq(case), r["target"], "; ".join(
        "[" + "; ".join('("t.%s", %s)' % (l["name"], to_coq_val(dict(zip(cols, row))[l["name"]])) for l in case["leaves"]) + "]" for row in rows))])
    want = [sg.parse_val(x) for x in sg.unquote(out[0]).split(";")] if rows else []
    got = [dict(zip(cols, row))[r["target"].split(".")[-1]] for row in rows]
    print("formula:", want, "impl:", got)
    if r.get("kind") == "meta":
        L0 = build_layer(case)
        return 0 if dbutil.canon_rows(run_query(L0, case, r["target"])[1]) == dbutil.canon_rows(rows) else 1
    return 0 if len(want) == len(got) and all(close(w, g) for w, g in zip(want, got)) else 1
