"""C11 — native definitions round-trip and agree across syntaxes.

Proof:  Props/C11.v (a field passing the table criterion survives export -> parse for every object; generated obligation: in the
        export / parse tables of adapters/sidemantic.py, regenerated on every run, every result-affecting field passes it).
Ties:   translator/gen_native.py extracts the tables from the source (fail-closed); the generic table semantics
        (Model/Native.export_obj) is evaluated in Coq against the real _export_model / _export_metric output on generated objects.
Oracle: (the property's own observation) generated graphs over the field vocabulary go through to_yaml -> from_yaml: model_dump of the
        result-affecting fields, the compiled SQL of a query battery and the pre-aggregation routing must be unchanged; the same
        definitions written in Python, YAML and the SQL definition syntax must give the same layer.
Partial: the SQL definition syntax (sqlglot tokenizer + dialect._parse_property re-assembly) is exercised end to end only.
"""
import json
import os
import re
import tempfile
import warnings

from harness import dbutil, lib, semgen as sg

warnings.filterwarnings("ignore")


def result_fields():
    """the result-affecting fields per class, read from Model/Native.v so that harness and theorem agree"""
    src = open(os.path.join(lib.COQ, "Model", "Native.v")).read()
    body = src[src.index("Definition result_fields"):]
    body = body[:body.index("].\n") + 1]
    out = {}
    for m in re.finditer(r'\("(\w+)",\s*\[(.*?)\]\)', body, flags=re.S):
        out[m.group(1)] = re.findall(r'"(\w+)"', m.group(2))
    return out


EXPRS = ["amount", "amount * 2", "CASE WHEN status = 'it''s' THEN 1 ELSE 0 END", "{model}.amount", "CAST(amount AS DOUBLE)", "\"order\"", "a.b", "COALESCE(amount, 0)", "amount -- x",
         "CASE WHEN status = 'a' -- active only\n     THEN amount\n     ELSE 0 END", "amount\n  + 0"]


def gen_graph(rng):
    from sidemantic import Dimension, Metric, Model, PreAggregation, Relationship
    from sidemantic.core.parameter import Parameter
    from sidemantic.core.pre_aggregation import RefreshKey
    from sidemantic.core.segment import Segment
    L = dbutil.fresh_layer()
    opt = lambda v, p=0.5: v if rng.random() < p else None
    mets = [Metric(name="rev", agg="sum", sql=rng.choice(EXPRS[:8] + EXPRS[9:]), filters=opt(["{model}.status = 'a'"], 0.4), fill_nulls_with=opt(rng.choice([0, 1, -1]), 0.4)),
            Metric(name="n", agg="count"), Metric(name="uniq", agg="count_distinct", sql="customer_id"), Metric(name="avg_amount", agg=rng.choice(["avg", "min", "max", "median"]), sql="amount"),
            Metric(name="rev", agg="sum", sql="amount") if False else Metric(name="amount", agg=rng.choice(["count", "sum", "count_distinct"]), sql="amount")]   # a measure named like its column
    mets.append(Metric(name="r", type="ratio", numerator="rev", denominator="n", fill_nulls_with=opt(0, 0.5)))
    mets.append(Metric(name="d", type="derived", sql="rev + n * 2", fill_nulls_with=opt(-1, 0.3)))
    if rng.random() < 0.6:
        mets.append(Metric(name="cum", type="cumulative", sql="rev", window=opt("7 days", 0.4), agg=opt("avg", 0.3)))
    if rng.random() < 0.5:
        mets.append(Metric(name="mtd", type="cumulative", sql="rev", grain_to_date=rng.choice(["month", "year"])))
    if rng.random() < 0.5:
        mets.append(Metric(name="yoy", type="time_comparison", base_metric="rev", comparison_type=rng.choice(["yoy", "mom"]), calculation=opt("difference", 0.5)))
    if rng.random() < 0.5:
        mets.append(Metric(name="ex", sql="SUM(amount) / NULLIF(COUNT(*), 0)"))
    rels = [Relationship(name="customers", type="many_to_one", foreign_key=opt("customer_id", 0.7), primary_key=opt("id", 0.3))]
    if rng.random() < 0.4:
        rels.append(Relationship(name="tags", type="many_to_many", through="order_tags", through_foreign_key="order_id", related_foreign_key="tag_id"))
    diamond = rng.random() < 0.6
    if diamond:
        rels.append(Relationship(name="stores", type="many_to_one", foreign_key="store_id"))
    preaggs = []
    for k in range(rng.choice([0, 1, 2])):
        preaggs.append(PreAggregation(name="p%d" % k, measures=rng.sample(["rev", "n"], rng.randint(1, 2)), dimensions=rng.sample(["status", "channel"], rng.randint(0, 2)),
                                      time_dimension=opt("created", 0.8), granularity=rng.choice(["day", "month"]),
                                      refresh_key=opt(RefreshKey(every="1 hour", incremental=rng.random() < 0.5), 0.4), scheduled_refresh=rng.random() < 0.8))
    L.add_model(Model(name="orders", primary_key=rng.choice(["id", "order_id", ["id", "line"]]), description=opt("orders"), default_time_dimension=opt("created", 0.4), default_grain=opt("month", 0.3),
                      relationships=rels, metrics=mets, pre_aggregations=preaggs,
                      dimensions=[Dimension(name="status", type="categorical", sql=opt("UPPER(status)", 0.4), label=opt("Status")), Dimension(name="created", type="time", granularity=rng.choice(["day", "hour", "month"]), sql=opt("created_at", 0.5)),
                                  Dimension(name="channel", type="categorical"), Dimension(name="big", type="boolean", sql="amount > 10"), Dimension(name="qty", type="numeric")],
                      segments=[Segment(name="seg", sql="{model}.status = 'a'", public=rng.random() < 0.7)] if rng.random() < 0.7 else [],
                      **(dict(sql="SELECT * FROM orders_t WHERE amount >= 0") if rng.random() < 0.3 else dict(table="orders_t"))))
    # a DIAMOND: orders -> customers -> regions and orders -> stores -> regions are equally short, and a reference between the two intermediate
    # models; which path a query takes depends on the order the models and relationships are registered in, so the round trip must keep it
    crels = [Relationship(name="regions", type="many_to_one", foreign_key="region_id")] + ([Relationship(name="stores", type="many_to_one", foreign_key="home_store_id")] if rng.random() < 0.7 else []) if diamond else []
    if diamond and rng.random() < 0.5:
        crels.reverse()
    L.add_model(Model(name="customers", table="customers_t", primary_key="id", dimensions=[Dimension(name="region", type="categorical")], metrics=[Metric(name="cnt", agg="count")], relationships=crels))
    if diamond:
        L.add_model(Model(name="stores", table="stores_t", primary_key="id", dimensions=[Dimension(name="kind", type="categorical")], relationships=[Relationship(name="regions", type="many_to_one", foreign_key="region_id")]))
        L.add_model(Model(name="regions", table="regions_t", primary_key="id", dimensions=[Dimension(name="name", type="categorical")]))
    L.add_model(Model(name="tags", table="tags_t", primary_key="id", dimensions=[Dimension(name="tag", type="categorical")]))
    L.add_model(Model(name="order_tags", table="order_tags_t", primary_key="id"))
    if rng.random() < 0.7:
        L.add_metric(Metric(name="g_sum", agg=rng.choice(["sum", "max"]), sql="orders.amount"))
    if rng.random() < 0.7:
        L.add_metric(Metric(name="g_ratio", type="ratio", numerator="orders.rev", denominator="orders.n", fill_nulls_with=opt(0, 0.5)))
    if rng.random() < 0.7:
        L.add_metric(Metric(name="g_der", type="derived", sql="orders.rev * 2 + customers.cnt", filters=opt(["orders.status = 'a'"], 0.3)))
    if rng.random() < 0.5:
        L.add_metric(Metric(name="g_cum", type="cumulative", sql="orders.rev", grain_to_date=opt("month", 0.6), window=opt("3 days", 0.3)))
    if diamond:
        # a graph-level metric NAMED like a model-level metric of some model (customers.cnt): its own metric, exported and reloaded like any other
        L.add_metric(Metric(name="cnt", type="derived", sql="orders.rev - orders.n"))
    if rng.random() < 0.5:
        L.graph.add_parameter(Parameter(name="p_status", type="string", default_value=opt("a", 0.7), allowed_values=opt(["a", "b"], 0.4)))
    return L


BATTERY = [dict(metrics=["orders.rev", "orders.n"], dimensions=["orders.status"]), dict(metrics=["orders.r", "orders.d"], dimensions=["orders.created__month"]),
           dict(metrics=["orders.amount", "orders.uniq", "orders.avg_amount"], dimensions=["customers.region"]), dict(metrics=["orders.rev"], dimensions=["orders.channel"], segments=["orders.seg"]),
           dict(metrics=["orders.cum"], dimensions=["orders.created__day"]), dict(metrics=["orders.mtd"], dimensions=["orders.created__day"]), dict(metrics=["yoy"], dimensions=["orders.created__month"]),
           dict(metrics=["orders.ex"], dimensions=[]), dict(metrics=["g_sum"], dimensions=["orders.status"]), dict(metrics=["g_ratio", "g_der"], dimensions=[]), dict(metrics=["g_cum"], dimensions=["orders.created__day"]),
           dict(metrics=["orders.rev", "orders.n"], dimensions=["orders.status", "orders.created__month"], use_preaggregations=True), dict(metrics=["orders.rev"], dimensions=["tags.tag"]),
           dict(metrics=["orders.n"], dimensions=["orders.big", "orders.qty"]), dict(metrics=["orders.rev"], dimensions=[]),
           dict(metrics=["orders.n"], dimensions=["regions.name"]), dict(metrics=["customers.cnt"], dimensions=["regions.name", "stores.kind"]),
           dict(metrics=["cnt"], dimensions=["orders.status"])]


def projection(L, rf):
    out = {}
    for n, m in L.graph.models.items():
        d = m.model_dump(mode="json")
        out["model:" + n] = {k: d.get(k) for k in rf["Model"] if k not in ("relationships", "dimensions", "metrics", "segments", "pre_aggregations")}
        for coll, cls in (("relationships", "Relationship"), ("dimensions", "Dimension"), ("metrics", "ModelMetric"), ("segments", "Segment"), ("pre_aggregations", "PreAggregation")):
            out["model:%s.%s" % (n, coll)] = [{k: x.get(k) for k in rf[cls]} for x in (d.get(coll) or [])]
    for n, m in L.graph.metrics.items():
        d = m.model_dump(mode="json")
        out["metric:" + n] = {k: d.get(k) for k in rf["GraphMetric"]}
    for n, p in L.graph.parameters.items():
        d = p.model_dump(mode="json")
        out["parameter:" + n] = {k: d.get(k) for k in rf["Parameter"]}
    return out


def falsy_norm(x):
    if isinstance(x, dict):
        return {k: falsy_norm(v) for k, v in x.items()}
    if isinstance(x, list):
        return [falsy_norm(v) for v in x] or None
    return None if x in ("", [], {}) else x


def compile_all(L):
    out = []
    for q in BATTERY:
        try:
            out.append(L.compile(**q))
        except Exception as e:
            out.append("ERROR %s: %s" % (type(e).__name__, str(e)[:120]))
    return out


def all_paths(L):
    """the join path the planner picks for EVERY ordered pair of models (hops with their key columns and cardinality), or the error class"""
    out = {}
    names = list(L.graph.models)
    for a in names:
        for b in names:
            if a == b:
                continue
            try:
                out[(a, b)] = [(h.from_model, h.to_model, tuple(h.from_columns), tuple(h.to_columns), h.relationship) for h in L.graph.find_relationship_path(a, b)]
            except Exception as e:
                out[(a, b)] = type(e).__name__
    return out


def roundtrip(L, preloaded=False):
    """preloaded: the exported file has already been loaded once in this process (as a directory, then by from_yaml), that layer was used and then EDITED in
    place by its owner (relationships, metrics, dimensions, segments removed, table renamed) -- the load that is compared comes after all that"""
    from sidemantic import SemanticLayer
    d = tempfile.mkdtemp(prefix="c11_")
    try:
        p = os.path.join(d, "layer.yml")
        L.to_yaml(p)
        text = open(p).read()
        if preloaded:
            import logging
            from sidemantic.loaders import load_from_directory
            logging.disable(logging.CRITICAL)
            try:
                for mk in (lambda: load_from_directory(SemanticLayer(connection="duckdb:///:memory:", auto_register=False), d) or None, lambda: SemanticLayer.from_yaml(p, connection="duckdb:///:memory:")):
                    try:
                        E = mk()
                    except Exception:
                        continue
                    if E is None:
                        continue
                    compile_all(E)
                    for m in E.graph.models.values():
                        for lst in (m.relationships, m.metrics, m.dimensions, m.segments, m.pre_aggregations):
                            try:
                                del lst[:]
                            except Exception:
                                pass
                        m.table = "edited_away"
                    for gm in list(E.graph.metrics.values()):
                        gm.sql = "0"
            finally:
                logging.disable(logging.NOTSET)
        return SemanticLayer.from_yaml(p, connection="duckdb:///:memory:"), text
    finally:
        import shutil
        shutil.rmtree(d, ignore_errors=True)


def diff_paths(a, b, path=""):
    if isinstance(a, dict) and isinstance(b, dict):
        return [x for k in sorted(set(a) | set(b)) for x in diff_paths(a.get(k), b.get(k), path + "." + k)]
    if isinstance(a, list) and isinstance(b, list) and len(a) == len(b):
        return [x for i, (u, v) in enumerate(zip(a, b)) for x in diff_paths(u, v, "%s[%d]" % (path, i))]
    return [] if a == b else ["%s: %r -> %r" % (path, a, b)]


def export_correspondence(c, rng):
    """table semantics (Coq) vs the real export functions, on objects with random scalar fields"""
    from sidemantic import Metric
    from sidemantic.adapters.sidemantic import SidemanticAdapter
    from sidemantic.core.semantic_graph import SemanticGraph
    ad = SidemanticAdapter()
    cases, terms = [], []
    for _ in range(60):
        kw = dict(name="m%d" % rng.randrange(100))
        if rng.random() < 0.6:
            kw.update(agg=rng.choice(["sum", "count", "avg"]), sql=rng.choice(["amount", None, kw["name"]]))
        else:
            kw.update(type="derived", sql="a + b")
        for f, vals in (("filters", [["x = 1"], []]), ("fill_nulls_with", [0, 5]), ("description", ["d", ""]), ("window", ["7 days"]), ("grain_to_date", ["month"]), ("label", ["L"]), ("format", ["0.0"])):
            if rng.random() < 0.35:
                kw[f] = rng.choice(vals)
        try:
            m = Metric(**kw)
        except Exception:
            continue
        real = ad._export_metric(m, SemanticGraph())
        real = {k: v for k, v in real.items() if k != "metrics"}
        dump = m.model_dump(mode="json")
        obj = "[" + "; ".join('("%s", %s)' % (k, coq_pyv(v)) for k, v in dump.items() if coq_pyv(v) is not None) + "]"
        cases.append(real)
        terms.append('match alookup export_tables "GraphMetric" with Some et => map (fun kv => fst kv) (export_obj et %s) | None => [] end' % obj)
    outs = lib.coq_eval("c11_tr", "From Coq Require Import ZArith String List Bool.\nRequire Import V.Model.Native V.Gen.NativeFields_gen.\nImport ListNotations.\nOpen Scope string_scope.\n", terms, chunk=100)
    bad = []
    for real, o in zip(cases, outs):
        keys = re.findall(r'"(\w+)"', o)
        if sorted(set(keys)) != sorted(real):
            bad.append((sorted(real), sorted(set(keys))))
    c.obligation("translator: keys written by the generated export table == keys written by SidemanticAdapter._export_metric on %d random metrics" % len(cases), not bad, "translator", repr(bad[:2]))
    return len(cases)


def coq_pyv(v):
    if v is None:
        return "VNone"
    if isinstance(v, bool):
        return "(VBool %s)" % ("true" if v else "false")
    if isinstance(v, int):
        return "(VInt (%d))" % v
    if isinstance(v, str):
        return "(VStr %s)" % lib.coq_string(v)
    if isinstance(v, list):
        parts = [coq_pyv(x) for x in v]
        return None if any(p is None for p in parts) else "(VList [%s])" % "; ".join(parts)
    return None


THREE_WAYS_SQL = """
MODEL (name orders, table orders_t, primary_key id);
DIMENSION (name status, type categorical);
DIMENSION (name created, type time, sql created_at, granularity day);
METRIC (name rev, agg sum, sql amount);
METRIC (name n, agg count);
METRIC (name big_rev, agg sum, sql amount, filters [{model}.amount > 10]);
SEGMENT (name seg, sql {model}.status = 'a');
"""
THREE_WAYS_YAML = """
models:
  - name: orders
    table: orders_t
    primary_key: id
    dimensions:
      - {name: status, type: categorical}
      - {name: created, type: time, sql: created_at, granularity: day}
    metrics:
      - {name: rev, agg: sum, sql: amount}
      - {name: n, agg: count}
      - {name: big_rev, agg: sum, sql: amount, filters: ["{model}.amount > 10"]}
    segments:
      - {name: seg, sql: "{model}.status = 'a'"}
"""


def three_ways(c, rf):
    from sidemantic import Dimension, Metric, Model, SemanticLayer
    from sidemantic.core.segment import Segment
    Lp = dbutil.fresh_layer()
    Lp.add_model(Model(name="orders", table="orders_t", primary_key="id", dimensions=[Dimension(name="status", type="categorical"), Dimension(name="created", type="time", sql="created_at", granularity="day")],
                       metrics=[Metric(name="rev", agg="sum", sql="amount"), Metric(name="n", agg="count"), Metric(name="big_rev", agg="sum", sql="amount", filters=["{model}.amount > 10"])],
                       segments=[Segment(name="seg", sql="{model}.status = 'a'")]))
    d = tempfile.mkdtemp(prefix="c11_")
    try:
        py, ys = os.path.join(d, "a.yml"), os.path.join(d, "b.sql")
        open(py, "w").write(THREE_WAYS_YAML)
        open(ys, "w").write(THREE_WAYS_SQL)
        Ly = SemanticLayer.from_yaml(py, connection="duckdb:///:memory:")
        try:
            Ls = SemanticLayer.from_yaml(ys, connection="duckdb:///:memory:")
        except Exception as e:
            c.notes.append("SQL definition syntax: file could not be loaded (%s); only Python vs YAML compared" % str(e)[:120])
            Ls = None
    finally:
        import shutil
        shutil.rmtree(d, ignore_errors=True)
    qs = [dict(metrics=["orders.rev", "orders.n", "orders.big_rev"], dimensions=["orders.status", "orders.created__month"]), dict(metrics=["orders.n"], dimensions=[], segments=["orders.seg"])]
    ref = [Lp.compile(**q) for q in qs]
    for name, L in (("YAML", Ly), ("SQL definitions", Ls)):
        if L is None:
            continue
        try:
            got = [L.compile(**q) for q in qs]
        except Exception as e:
            got = ["ERROR " + str(e)[:100]]
        if got != ref:
            dp = diff_paths(falsy_norm(projection(Lp, rf)), falsy_norm(projection(L, rf)))
            c.violation("the same definitions written in Python and in %s compile differently" % name, {"kind": "syntax", "syntax": name, "differences": dp[:10], "sql_python": ref[0][:600], "sql_other": got[0][:600]})
    return 2


DIM_SQLS = ["status", "UPPER(status)", "CASE WHEN status = 'done' THEN 'closed' ELSE 'open' END", "COALESCE(status, 'n/a')", "status || '-' || channel", "CASE WHEN note = 'it''s' THEN 1 ELSE 0 END",
            "'pre-' || status || '-post'", "CASE WHEN amount > 10 THEN 'big, really' ELSE 'small' END"]
FILTER_SQLS = ["status IN ('done', 'shipped')", "amount > 0", "status = 'done'", "note <> 'it''s'", "status <> 'a, b'", "{model}.amount > 10", "status = 'x' OR status = 'y'"]
SEGMENT_SQLS = ["status <> 'cancelled'", "{model}.status = 'a'", "status IN ('a', 'b') AND amount > 1", "note = 'it''s'"]


def sql_quote(t):
    """a property value of the SQL definition syntax written as ONE single-quoted literal, quotes doubled"""
    return "'" + t.replace("'", "''") + "'"


def three_ways_generated(c, rf, rng):
    """the same definitions written in Python, in YAML (dumped by PyYAML) and in the SQL definition syntax with every expression written as a quoted literal: SQL expressions
    with string constants, doubled quotes, commas inside constants, lists of such expressions"""
    import yaml
    from sidemantic import Dimension, Metric, Model, SemanticLayer
    from sidemantic.core.segment import Segment
    n = 0
    for k in range(6 if c.tier == "quick" else 40):
        dsql, seg = rng.choice(DIM_SQLS), rng.choice(SEGMENT_SQLS)
        fls = rng.sample(FILTER_SQLS, rng.choice([1, 2, 3]))
        Lp = dbutil.fresh_layer()
        Lp.add_model(Model(name="orders", table="orders_t", primary_key="id", dimensions=[Dimension(name="status", type="categorical"), Dimension(name="stage", type="categorical", sql=dsql)],
                           metrics=[Metric(name="rev", agg="sum", sql="amount"), Metric(name="frev", agg="sum", sql="amount", filters=list(fls))], segments=[Segment(name="seg", sql=seg)]))
        ytext = yaml.safe_dump({"models": [{"name": "orders", "table": "orders_t", "primary_key": "id",
                                            "dimensions": [{"name": "status", "type": "categorical"}, {"name": "stage", "type": "categorical", "sql": dsql}],
                                            "metrics": [{"name": "rev", "agg": "sum", "sql": "amount"}, {"name": "frev", "agg": "sum", "sql": "amount", "filters": list(fls)}],
                                            "segments": [{"name": "seg", "sql": seg}]}]})
        stext = ("MODEL (name orders, table orders_t, primary_key id);\nDIMENSION (name status, type categorical);\nDIMENSION (name stage, type categorical, sql %s);\n"
                 "METRIC (name rev, agg sum, sql amount);\nMETRIC (name frev, agg sum, sql amount, filters [%s]);\nSEGMENT (name seg, sql %s);\n" % (sql_quote(dsql), ", ".join(sql_quote(f) for f in fls), sql_quote(seg)))
        d = tempfile.mkdtemp(prefix="c11_")
        try:
            open(os.path.join(d, "a.yml"), "w").write(ytext)
            open(os.path.join(d, "b.sql"), "w").write(stext)
            layers = []
            for name, fn in (("YAML", "a.yml"), ("SQL definitions", "b.sql")):
                try:
                    layers.append((name, SemanticLayer.from_yaml(os.path.join(d, fn), connection="duckdb:///:memory:")))
                except Exception as e:
                    c.violation("definitions written in %s cannot be loaded: %s" % (name, str(e)[:150]), {"kind": "syntax_gen", "syntax": name, "yaml": ytext, "sql_definitions": stext})
        finally:
            import shutil
            shutil.rmtree(d, ignore_errors=True)
        qs = [dict(metrics=["orders.rev", "orders.frev"], dimensions=["orders.stage"]), dict(metrics=["orders.rev"], dimensions=["orders.status"], segments=["orders.seg"])]
        ref = [Lp.compile(**q) for q in qs]
        for name, L in layers:
            try:
                got = [L.compile(**q) for q in qs]
            except Exception as e:
                got = ["ERROR " + str(e)[:100]]
            n += 1
            if got != ref:
                k_bad = next(i for i in range(len(ref)) if i >= len(got) or got[i] != ref[i])
                c.violation("the same definitions written in Python and in %s compile differently" % name,
                            {"kind": "syntax_gen", "syntax": name, "yaml": ytext, "sql_definitions": stext, "sql_python": ref[k_bad][:900], "sql_other": (got[k_bad] if k_bad < len(got) else got[0])[:900]})
    return n


def run(c):
    c.trusted += ["translator/gen_native.py (fail-closed AST extraction of the export / parse tables; the export table is re-validated against the real exporter's written keys each run)",
                  "Model/Native.result_fields: the hand-written list of result-affecting fields per class (presentation fields such as description / label / format / metadata are not claimed)",
                  "PyYAML dump / safe_load as the carrier (values are YAML-representable scalars and lists)", "the SQL definition syntax is exercised on one fixed definition and on generated definitions whose expressions are written as quoted literals (string constants, doubled quotes, commas, lists)"]
    from translator import gen_native
    try:
        lib.write_if_changed(os.path.join(lib.COQ, "Gen", "NativeFields_gen.v"), gen_native.generate(lib.REPO))
        c.obligation("translator: NativeFields_gen regenerated", True, "translator")
        gen_ok = True
    except Exception as e:
        c.obligation("translator: NativeFields_gen regenerated", False, "translator", repr(e)[:600])
        gen_ok = False
    try:
        from translator import gen_sqlvalue
        lib.write_if_changed(os.path.join(lib.COQ, "Gen", "SqlValue_gen.v"), gen_sqlvalue.generate(lib.REPO))
        c.obligation("translator: value table of the SQL definition syntax (_parse_scalar_literal, 44 scripted texts) regenerated (Gen/SqlValue_gen.v)", True, "translator")
        c.obligation("translator validation: interpreted _parse_scalar_literal == the real function under CPython on the same texts", gen_sqlvalue.table(lib.REPO) == gen_sqlvalue.table(lib.REPO, real=True), "translator")
    except Exception as e:
        c.obligation("translator: value table of the SQL definition syntax regenerated (Gen/SqlValue_gen.v)", False, "translator", repr(e)[:600])
    c.trusted.append("translator/pyinterp.py + gen_sqlvalue.py (fail-closed definitional interpreter; `re.match` and float() are the real ones; validated against CPython each run)")
    if gen_ok:
        c.build_props()
    evals = 0
    if gen_ok and lib.coq_make(["Gen/NativeFields_gen.vo"])[0]:
        try:
            evals += export_correspondence(c, c.rng)
        except Exception as e:
            c.obligation("translator validation", False, "translator", repr(e)[-600:])
    rf = result_fields()
    n = 60 if c.tier == "quick" else 900
    stats = {"graphs": 0, "queries_compiled": 0, "reload_failures": 0, "field_differences": 0, "sql_differences": 0}
    for i in range(n):
        L = gen_graph(c.rng)
        stats["graphs"] += 1
        try:
            L2, text = roundtrip(L, preloaded=(i % 2 == 1))
            stats["preloaded_and_edited"] = stats.get("preloaded_and_edited", 0) + (i % 2 == 1)
        except Exception as e:
            stats["reload_failures"] += 1
            c.violation("the exported YAML cannot be loaded back: %s" % str(e)[:160].replace("\n", " "), {"kind": "reload", "index": i, "seed": c.seed, "error": str(e)[:600]})
            continue
        a, b = falsy_norm(projection(L, rf)), falsy_norm(projection(L2, rf))
        dp = diff_paths(a, b)
        sa, sb = compile_all(L), compile_all(L2)
        stats["queries_compiled"] += len(sa)
        sql_diff = [k for k in range(len(sa)) if sa[k] != sb[k]]
        pa, pb = all_paths(L), all_paths(L2)
        path_diff = sorted(k for k in pa if pa[k] != pb.get(k))
        stats["pairs_planned"] = stats.get("pairs_planned", 0) + len(pa)
        if path_diff and not (dp or sql_diff):
            k = path_diff[0]
            c.violation("to_yaml -> from_yaml changes the join path the planner picks between %s and %s (the reloaded layer joins through other models)" % k,
                        {"kind": "roundtrip", "index": i, "seed": c.seed, "pair": list(k), "path_before": pa[k], "path_after": pb.get(k),
                         "models_before": list(L.graph.models), "models_after": list(L2.graph.models), "yaml": text[:1500]})
        if dp or sql_diff:
            stats["field_differences"] += bool(dp)
            stats["sql_differences"] += bool(sql_diff)
            c.violation("to_yaml -> from_yaml loses or alters result-affecting definitions: %s" % "; ".join(dp[:3] or ["query %d compiles differently" % sql_diff[0]])[:300],
                        {"kind": "roundtrip", "index": i, "seed": c.seed, "field_differences": dp[:12], "queries_that_differ": [BATTERY[k] for k in sql_diff[:4]],
                         "sql_before": sa[sql_diff[0]][:700] if sql_diff else None, "sql_after": sb[sql_diff[0]][:700] if sql_diff else None, "yaml": text[:1500]})
        if len(c.samples) < 2:
            c.samples.append({"yaml_excerpt": text[:400], "queries": len(sa), "fields_compared": sum(len(v) if isinstance(v, dict) else 1 for v in a.values())})
    evals += stats["graphs"] + three_ways(c, rf)
    import random as _random
    evals += three_ways_generated(c, rf, _random.Random(c.seed * 11 + 4))
    c.obligation("oracle: result-affecting fields, compiled SQL of %d queries and routing unchanged after to_yaml -> from_yaml (%d graphs); Python == YAML == SQL definitions" % (len(BATTERY), stats["graphs"]),
                 not c.violations, "correspondence")
    c.coverage.update({"evaluations": evals + stats["queries_compiled"], "distinct_nontrivial": stats["graphs"],
                       "rule": "random graphs over the field vocabulary (4 models; every metric type with optional filters / fill_nulls_with / window / grain_to_date / calculation; a measure named like its column; composite and "
                               "renamed primary keys; table- and sql-backed models; many_to_one and many_to_many-through relationships; segments; 0-2 pre-aggregations with refresh keys; graph-level metrics incl. agg; parameters; "
                               "expression strings with quotes / casts / dotted names / {model} / keywords) x a 15-query battery incl. a routed query; non-trivial = graph round-tripped",
                       "traces_validated_against_impl": stats["graphs"], "distribution": stats, "exhaustive": False})


def replay(path):
    import random
    body = json.load(open(path))
    r = body["replay"]
    if r.get("kind") in ("roundtrip", "reload"):
        rng = random.Random(r["seed"])
        rf = result_fields()
        # regenerate the same sequence of graphs (export_correspondence consumes the PRNG first, as in run())
        c = lib.Check("C11", "quick", r["seed"])
        try:
            export_correspondence(c, c.rng)
        except Exception:
            pass
        L = None
        for _ in range(r["index"] + 1):
            L = gen_graph(c.rng)
        try:
            L2, text = roundtrip(L)
        except Exception as e:
            print("reload fails:", e)
            return 1
        dp = diff_paths(falsy_norm(projection(L, rf)), falsy_norm(projection(L2, rf)))
        print(dp[:10])
        return 1 if dp or compile_all(L) != compile_all(L2) or all_paths(L) != all_paths(L2) else 0
    print(json.dumps(r, indent=1)[:2000])
    return 1
