"""C12 — converting through another format never silently changes a number.

Proof:  Props/C12.v (for a vocabulary round-trip table: every literal is kept, or dropped, never turned into another literal -- generic in
        the table; the generated obligations: (a) in every exporter's aggregation map, REGENERATED from the adapter sources on every run,
        a literal outside the map's keys meets a default that is the literal itself or is listed; (b) the MEASURED export->import
        aggregation table of every adapter satisfies the criterion outside the listed replacements).
Ties:   translator/gen_adaptermaps.py reads the `X = {...}; X.get(<metric>.agg, default)` tables of the exporters (fail-closed on the
        shapes it knows); the measured table is obtained by exporting and re-importing a one-measure model per aggregation literal.
Oracle: the finite matrix exporter x core feature (each aggregation, filtered measure, expression measure, each dimension type, time
        granularity, single / composite key, table vs sql model, each relationship type, segment) and feature pairs: export -> import,
        compare the core projection, execute every surviving metric / dimension on the same data on both layers, export again and
        compare (fixed point).  This part is differential testing, labelled as such.
Partial: only the vocabulary maps are modelled per adapter; 15 parsers / printers are not.
"""
import importlib
import json
import logging
import os
import shutil
import tempfile
import warnings

from harness import dbutil, lib, semgen as sg

warnings.filterwarnings("ignore")
logging.disable(logging.WARNING)

ADAPTERS = {"cube": ("CubeAdapter", ".yml"), "metricflow": ("MetricFlowAdapter", ".yml"), "lookml": ("LookMLAdapter", ".lkml"), "hex": ("HexAdapter", ""), "rill": ("RillAdapter", ".yaml"),
            "superset": ("SupersetAdapter", ""), "omni": ("OmniAdapter", ".yaml"), "bsl": ("BSLAdapter", ".yml"), "gooddata": ("GoodDataAdapter", ".json"), "snowflake": ("SnowflakeAdapter", ".yaml"),
            "malloy": ("MalloyAdapter", ".malloy"), "osi": ("OSIAdapter", ".yaml"), "atscale_sml": ("AtScaleSMLAdapter", ""), "thoughtspot": ("ThoughtSpotAdapter", ""), "holistics": ("HolisticsAdapter", "")}
AGGS = ["sum", "count", "count_distinct", "avg", "min", "max", "median", "stddev", "variance", "stddev_pop", "variance_pop"]


def adapter(key):
    return getattr(importlib.import_module("sidemantic.adapters.%s" % key), ADAPTERS[key][0])


def base_models(feature, arg=None, extra=None):
    """the two-model graph of a matrix cell"""
    from sidemantic import Dimension, Metric, Model, Relationship
    from sidemantic.core.segment import Segment
    dims = [Dimension(name="status", type="categorical"), Dimension(name="created_at", type="time", granularity="day")]
    mets = [Metric(name="m", agg="sum", sql="amount")]
    rels = [Relationship(name="customers", type="many_to_one", foreign_key="customer_id")]
    kw = dict(table="orders", primary_key="id")
    segs = []
    for f, a in [(feature, arg)] + ([extra] if extra else []):
        if f == "agg":
            mets = [Metric(name="m", agg=a, sql=("qty" if a in ("count_distinct",) else "amount"))] + mets[1:] if mets[0].name == "m" else mets
            mets[0] = Metric(name="m", agg=a, sql=("qty" if a == "count_distinct" else "amount"))
        elif f == "count_star":
            mets.append(Metric(name="n", agg="count"))
        elif f == "count_col_named":
            mets.append(Metric(name="qty", agg="count", sql="qty"))           # a count over a nullable column named like the measure
        elif f == "count_col_suffix_key":
            # counts over a nullable column whose NAME ENDS with the name of the key column (customer_id / id), not a row count
            mets.append(Metric(name="with_customer", agg="count", sql="customer_id"))
        elif f == "filtered_numeric_text":
            # a measure filter that compares a TEXT column with a quoted literal that looks like a number (a zip code, a product code with leading zeros): still text
            mets.append(Metric(name="mz", agg="sum", sql="amount", filters=["{model}.status = '02134'"]))
        elif f == "count_model_placeholder":
            mets.append(Metric(name="with_customer_m", agg="count", sql="{model}.customer_id"))        # the same count written with the {model} placeholder
        elif f == "filtered":
            mets.append(Metric(name="mf", agg="sum", sql="amount", filters=["{model}.status = 'a'"]))
        elif f == "expression":
            mets.append(Metric(name="me", agg="sum", sql="amount * 2 + qty"))
        elif f == "dim_type":
            dims.append({"boolean": Dimension(name="big", type="boolean", sql="amount > 10"), "numeric": Dimension(name="qty_d", type="numeric", sql="qty"),
                         "categorical_expr": Dimension(name="st_u", type="categorical", sql="UPPER(status)")}[a])
        elif f == "key_dim_alias":
            # the key column is ALSO exposed as a dimension under another name (which is the name of another physical column), and a
            # count_distinct measure without sql counts the primary key: whatever the format does with the key must keep that number
            dims.append(Dimension(name="id2", type="numeric", sql="id"))
            mets.append(Metric(name="uniq", agg="count_distinct"))
        elif f == "dim_shadows_column":
            # a computed dimension NAMED like a physical column (amount := COALESCE(amount, 0)) next to measures over the bare column: a format that
            # refers to fields by name must not turn the measure's column into the dimension's expression (NULL amounts make AVG / MIN / COUNT differ)
            dims.append(Dimension(name="amount", type="numeric", sql="COALESCE(amount, 0)"))
            mets += [Metric(name="avg_amt", agg="avg", sql="amount"), Metric(name="min_amt", agg="min", sql="amount"), Metric(name="n_amt", agg="count", sql="amount")]
        elif f == "composite_fk_reordered":
            # a composite-key target and a relationship whose key PAIRS are listed in another order than the target's declared key: the pairing
            # (orders.id = customers.order_id AND orders.customer_id = customers.id) must survive, not just the column sets
            rels = [Relationship(name="customers", type="many_to_one", foreign_key=["id", "customer_id"], primary_key=["order_id", "id"])]
            extra_customers_pk = ["id", "order_id"]
        elif f == "user_text":
            # user-written SQL text that happens to contain punctuation other formats use as syntax (a regex character class holds "_.")
            dims.append({"regex_class": Dimension(name="st_clean", type="categorical", sql="regexp_replace(status, '[a-z0-9_.-]', '')")}[a])
        elif f == "granularity":
            dims[1] = Dimension(name="created_at", type="time", granularity=a)
        elif f == "composite_pk":
            kw["primary_key"] = ["id", "id2"]
        elif f == "sql_model":
            kw = dict(sql="SELECT * FROM orders WHERE amount >= 0", primary_key="id")
        elif f == "relationship":
            rels = [Relationship(name="customers", type=a, foreign_key=("customer_id" if a == "many_to_one" else "order_id"))]
        elif f == "segment":
            segs = [Segment(name="seg_a", sql="{model}.status = 'a'")]
    customers = Model(name="customers", table="customers", primary_key=(["id", "order_id"] if any(f == "composite_fk_reordered" for f, _ in [(feature, arg)] + ([extra] if extra else [])) else "id"),
                      dimensions=[Dimension(name="region", type="categorical")], metrics=[Metric(name="cnt", agg="count")])
    orders = Model(name="orders", dimensions=dims, metrics=mets, relationships=rels, segments=segs, **kw)
    return [customers, orders]


FEATURES = [("agg", a) for a in AGGS] + [("count_star", None), ("count_col_named", None), ("filtered", None), ("expression", None), ("dim_type", "boolean"), ("dim_type", "numeric"), ("dim_type", "categorical_expr"),
            ("granularity", "hour"), ("granularity", "week"), ("granularity", "month"), ("composite_pk", None), ("sql_model", None),
            ("relationship", "many_to_one"), ("relationship", "one_to_many"), ("relationship", "one_to_one"), ("segment", None), ("key_dim_alias", None), ("dim_shadows_column", None), ("composite_fk_reordered", None), ("count_col_suffix_key", None), ("count_model_placeholder", None), ("filtered_numeric_text", None)]
PAIRS = [(("agg", "avg"), ("filtered", None)), (("agg", "count_distinct"), ("composite_pk", None)), (("filtered", None), ("sql_model", None)), (("expression", None), ("dim_type", "boolean")),
         (("agg", "min"), ("granularity", "month")), (("count_col_named", None), ("filtered", None)), (("segment", None), ("sql_model", None)), (("agg", "max"), ("relationship", "one_to_many"))]


def layer_with(models, graph=None):
    L = dbutil.fresh_layer()
    L.conn.execute("create table orders(id bigint, id2 bigint, status varchar, created_at timestamp, amount bigint, qty bigint, customer_id bigint)")
    L.conn.execute("create table customers(id bigint, region varchar, order_id bigint)")
    L.conn.execute("insert into orders values (1,1,'a','2024-01-05 10:00:00',5,1,1),(2,1,'a','2024-01-20 00:00:00',12,NULL,1),(3,2,'b','2024-02-03 23:00:00',7,2,2),(4,1,NULL,'2024-02-03 01:00:00',NULL,2,NULL),(5,1,'b','2024-03-09 12:00:00',30,5,2)")
    L.conn.execute("insert into customers values (1,'eu',1),(2,'us',3),(3,NULL,NULL)")
    if graph is not None:
        L.graph = graph
    else:
        for m in models:
            L.add_model(m)
    return L


def export_import(key, graph):
    """export with the adapter and parse the result back (a file, or the directory when the exporter writes several files)"""
    A = adapter(key)
    d = tempfile.mkdtemp(prefix="c12_")
    try:
        suf = ADAPTERS[key][1]
        out = os.path.join(d, "out" + suf) if suf else os.path.join(d, "out")
        A().export(graph, out)
        g2 = None
        for target in (out, d, os.path.join(d, "out")):
            if not os.path.exists(target):
                continue
            try:
                g = A().parse(target)
            except Exception:
                continue
            if g is not None and g.models:
                g2 = g
                break
        return g2
    finally:
        shutil.rmtree(d, ignore_errors=True)


def projection(graph):
    out = {}
    for n, m in sorted(graph.models.items()):
        out[n] = {"table": m.table, "sql": bool(m.sql), "pk": m.primary_key, "rels": sorted((r.name, r.type) for r in m.relationships),
                  "dims": sorted((d.name, d.type, d.granularity) for d in m.dimensions), "metrics": sorted((x.name, x.agg, bool(x.filters)) for x in m.metrics),
                  "segments": sorted(s.name for s in m.segments)}
    return out


def run_values(L, model, metric=None, dim=None, seg=None):
    kw = dict(metrics=["%s.%s" % (model, metric)] if metric else [], dimensions=["%s.%s" % (model, dim)] if dim else [])
    if seg:
        kw["segments"] = ["%s.%s" % (model, seg)]
    return dbutil.canon_rows(L.conn.execute(L.compile(**kw)).fetchall())


def cell(key, feats):
    """-> list of problems of one matrix cell: (kind, detail)"""
    models = base_models(*feats[0], extra=(feats[1] if len(feats) > 1 else None))
    L1 = layer_with(models)
    problems = []
    try:
        g2 = export_import(key, L1.graph)
    except Exception as e:
        return [("export_error", "%s: %s" % (type(e).__name__, str(e)[:100]))]
    if g2 is None or "orders" not in g2.models:
        return [("model_lost", "orders")]
    L2 = layer_with(None, g2)
    o1, o2 = L1.graph.models["orders"], g2.models["orders"]
    # names / source / key / relationships
    if (o2.table or "").split(".")[-1] != (o1.table or "").split(".")[-1] and not (o1.sql and o2.sql):
        problems.append(("source_changed", "%r / sql=%s -> %r / sql=%s" % (o1.table, bool(o1.sql), o2.table, bool(o2.sql))))
    if o2.primary_key != o1.primary_key:
        problems.append(("pk_changed", "%r -> %r" % (o1.primary_key, o2.primary_key)))
    r1, r2 = sorted((r.name, r.type) for r in o1.relationships), sorted((r.name, r.type) for r in o2.relationships)
    if r2 and r2 != r1:
        problems.append(("relationship_changed", "%r -> %r" % (r1, r2)))
    # every surviving metric / dimension computes the same values
    for m in o1.metrics:
        m2 = o2.get_metric(m.name)
        if m2 is None:
            continue
        try:
            a = run_values(L1, "orders", m.name, "status")
        except Exception as e:
            continue                                       # the original itself cannot be queried: not this property's subject
        try:
            b = run_values(L2, "orders", m.name, "status" if o2.get_dimension("status") else None)
            if not o2.get_dimension("status"):
                a = run_values(L1, "orders", m.name)
        except Exception as e:
            problems.append(("metric_broken:%s" % m.name, "%s (agg %s -> %s)" % (str(e)[:80].replace("\n", " "), m.agg, m2.agg)))
            continue
        if a != b:
            problems.append(("metric_value:%s" % m.name, "agg %s filters %s -> agg %s filters %s sql %r" % (m.agg, bool(m.filters), m2.agg, bool(m2.filters), m2.sql)))
    for dmn in o1.dimensions:
        d2 = o2.get_dimension(dmn.name)
        if d2 is None:
            continue
        ref = dmn.name + ("__month" if dmn.type == "time" else "")
        try:
            a = run_values(L1, "orders", None, ref)
        except Exception:
            continue
        try:
            b = run_values(L2, "orders", None, dmn.name + ("__month" if d2.type == "time" else ""))
        except Exception as e:
            problems.append(("dimension_broken:%s" % dmn.name, str(e)[:80].replace("\n", " ")))
            continue
        if a != b:
            problems.append(("dimension_value:%s" % dmn.name, "type %s gran %s sql %r -> type %s gran %s sql %r" % (dmn.type, dmn.granularity, dmn.sql, d2.type, d2.granularity, d2.sql)))
    # a value that depends on the RELATIONSHIP: the measure by a dimension of the related model (only when the relationship and that dimension survive)
    if r2 and "customers" in g2.models and g2.models["customers"].get_dimension("region") and (o2.get_metric("m") or o2.get_dimension("status")):
        # the measure by the related dimension; when the measure is not kept on the model (formats that move metrics elsewhere), the pairs of
        # (orders.status, customers.region) that the join produces
        xq = dict(metrics=["orders.m"], dimensions=["customers.region"]) if o2.get_metric("m") else dict(metrics=[], dimensions=["orders.status", "customers.region"])
        try:
            a = dbutil.canon_rows(L1.conn.execute(L1.compile(**xq)).fetchall())
        except Exception:
            a = None
        if a is not None:
            try:
                b = dbutil.canon_rows(L2.conn.execute(L2.compile(**xq)).fetchall())
                if a != b:
                    problems.append(("join_value", "%s by customers.region: %s -> %s" % (xq["metrics"] or xq["dimensions"][:1], a[:4], b[:4])))
            except Exception as e:
                problems.append(("join_broken", str(e)[:90].replace("\n", " ")))
    for s in o1.segments:
        if any(x.name == s.name for x in o2.segments):
            try:
                if run_values(L1, "orders", "m", None, s.name) != run_values(L2, "orders", "m", None, s.name):
                    problems.append(("segment_value:%s" % s.name, ""))
            except Exception as e:
                problems.append(("segment_broken:%s" % s.name, str(e)[:80]))
    # a second round trip is a fixed point of the first
    try:
        g3 = export_import(key, g2)
        if g3 is None or projection(g3) != projection(g2):
            problems.append(("not_a_fixed_point", json.dumps({"second": projection(g3) if g3 else None, "first": projection(g2)}, default=str)[:300]))
    except Exception as e:
        problems.append(("second_export_error", "%s: %s" % (type(e).__name__, str(e)[:80])))
    return problems


COLLIDING = (("sales", "order_items"), ("sales_order", "items"))          # sales_order_items twice
CONTROL = (("sales", "lineitems"), ("receipts", "items"))                  # the same graph under names that cannot collide


def underscore_names_cell(key, names=COLLIDING):
    """four models whose names contain underscores so that "<model>_<related>" is not unique (sales -> order_items, sales_order -> items): both relationships
    survive a round trip, and each measure grouped by ITS related dimension keeps its values.  -> list of problems"""
    from sidemantic import Dimension, Metric, Model, Relationship
    def fact(name, related):
        return Model(name=name, table="orders", primary_key="id", relationships=[Relationship(name=related, type="many_to_one", foreign_key="customer_id")],
                     dimensions=[Dimension(name="status", type="categorical")], metrics=[Metric(name="m", agg="sum", sql="amount")])
    def dim(name, col):
        return Model(name=name, table="customers", primary_key="id", dimensions=[Dimension(name="region", type="categorical", sql=col)], metrics=[Metric(name="cnt", agg="count")])
    (f1, d1), (f2, d2) = names
    models = [dim(d1, "region"), dim(d2, "region"), fact(f1, d1), fact(f2, d2)]
    L1 = layer_with(models)
    g2 = export_import(key, L1.graph)
    if g2 is None or not all(n in g2.models for n in (f1, f2, d1, d2)):
        return [("model_lost", "one of %s" % ", ".join((f1, f2, d1, d2)))]
    L2 = layer_with(None, g2)
    problems = []
    for fact_name, related in names:
        r2 = sorted(r.name for r in g2.models[fact_name].relationships)
        if related not in r2:
            problems.append(("relationship_lost", "%s -> %s (has %r)" % (fact_name, related, r2)))
        xq = dict(metrics=["%s.m" % fact_name], dimensions=["%s.region" % related])
        try:
            a = dbutil.canon_rows(L1.conn.execute(L1.compile(**xq)).fetchall())
        except Exception:
            continue
        try:
            b = dbutil.canon_rows(L2.conn.execute(L2.compile(**xq)).fetchall())
            if a != b:
                problems.append(("join_value", "%s.m by %s.region: %s -> %s" % (fact_name, related, a[:4], b[:4])))
        except Exception as e:
            problems.append(("join_broken", "%s.m by %s.region: %s" % (fact_name, related, str(e)[:90].replace("\n", " "))))
    return problems


def feat_id(feats):
    return "+".join("%s%s" % (f, "=" + str(a) if a else "") for f, a in feats)


def measured_agg_table(key):
    """one-measure model per aggregation literal: what the literal becomes after export -> import (None = dropped / no aggregation)"""
    out = []
    for a in AGGS:
        try:
            g2 = export_import(key, layer_with(base_models("agg", a)).graph)
            m2 = g2.models["orders"].get_metric("m") if g2 and "orders" in g2.models else None
            out.append((a, m2.agg if m2 is not None else None))
        except Exception:
            out.append((a, None))
    return out


def known_set(c):
    """(adapter, feature id, problem kind) triples listed in known_findings.json"""
    out = {}
    for fid, e in c.open_findings.items():
        for cellspec in e.get("cells", []):
            out[tuple(cellspec)] = fid
    return out


def lookup_known(known, k3):
    """exact cell, or a listed wildcard: feature "*" (every feature of the adapter), problem "kind:*" (every field)"""
    a, f, k = k3
    for kk in (k, k.split(":")[0] + ":*"):
        for ff in (f, "*"):
            if (a, ff, kk) in known:
                return known[(a, ff, kk)]
    return None


STRUCTURAL = ("pk_changed", "source_changed", "relationship_changed")
BASELINE = os.path.join(lib.VERIF, "harness", "c12_structural_baseline.json")


def structural_baseline():
    """(adapter, feature id, kind) triples: key / source / relationship changes across a round trip OBSERVED ON THE PINNED TREE.  "When the
    format has syntax for them" cannot be decided per format from the code; what can be decided is that an adapter which kept the key (source,
    relationship) of a cell on the pinned tree has syntax for it -- so a change outside this list is reported, a change inside it is a note."""
    try:
        return {tuple(x) for x in json.load(open(BASELINE))["structural_changes"]}
    except FileNotFoundError:
        return None


def run(c):
    c.trusted += ["translator/gen_adaptermaps.py (reads the exporters' `X.get(<metric>.agg, default)` tables; fail-closed on unknown shapes)", "the export -> import aggregation table is MEASURED on one-measure models, not derived from the parsers",
                  "15 format parsers / printers (~10 000 lines) are not modelled: the matrix is differential testing", "DuckDB executes the before / after queries on the same 5-row tables"]
    from translator import gen_adaptermaps
    gen_ok = True
    try:
        measured = {k: measured_agg_table(k) for k in ADAPTERS}
        text = gen_adaptermaps.generate(lib.REPO, measured, c.open_findings)
        lib.write_if_changed(os.path.join(lib.COQ, "Gen", "AdapterMaps_gen.v"), text)
        c.obligation("translator: AdapterMaps_gen regenerated (exporter aggregation maps of %d adapters; measured round-trip tables of %d)" % (len(gen_adaptermaps.export_maps(lib.REPO)), len(measured)), True, "translator")
    except Exception as e:
        gen_ok = False
        c.obligation("translator: AdapterMaps_gen regenerated", False, "translator", repr(e)[:800])
    if gen_ok:
        c.build_props()
    known = known_set(c)
    baseline = structural_baseline()
    observed_structural = set()
    cells = [(k, (f,)) for k in ADAPTERS for f in FEATURES]
    if c.tier == "thorough":
        cells += [(k, p) for k in ADAPTERS for p in PAIRS]
    else:
        cells += [(k, p) for k in ADAPTERS for p in PAIRS[:3]]
    stats = {"cells": len(cells), "clean": 0, "with_known_findings": 0, "problems_by_kind": {}}
    seen_known = set()
    notes = set()
    for key, feats in cells:
        try:
            probs = cell(key, feats)
        except Exception as e:
            probs = [("harness_error", "%s: %s" % (type(e).__name__, str(e)[:120]))]
        fid = feat_id(feats)
        new = []
        # a join-dependent value that differs only BECAUSE the measure itself / the model / its source already differs in this cell is that problem, not another one
        if any(k.split(":")[0] in ("metric_value", "metric_broken", "model_lost", "source_changed", "export_error") and (":" not in k or k.endswith(":m")) for k, _ in probs):
            probs = [(k, d) for k, d in probs if k not in ("join_value", "join_broken")]
        probs_all = probs
        for kind, detail in probs:
            stats["problems_by_kind"][kind.split(":")[0]] = stats["problems_by_kind"].get(kind.split(":")[0], 0) + 1
            if kind in STRUCTURAL:
                # lenient reading of "when the format has syntax for them": a changed key / source / relationship type that the pinned tree
                # already shows is recorded as a note; one the pinned tree does not show is reported (the adapter demonstrably has the syntax)
                observed_structural.add((key, fid, kind))
                inherited = any((key, feat_id((f,)), kind) in (baseline or ()) for f in feats)
                if baseline is None or (key, fid, kind) in baseline or inherited:
                    notes.add("%s %s: %s %s" % (key, fid, kind, detail[:80]))
                    continue
                new.append((kind, detail))
                continue
            k3 = (key, fid, kind)
            # a pair cell inherits the listed problems of its single features
            parts = [(key, feat_id((f,)), kind) for f in feats]
            hit = lookup_known(known, k3) or next((lookup_known(known, p) for p in parts if lookup_known(known, p)), None)
            if not hit and len(feats) > 1:
                # in a pair cell the same kind of problem may hit another field of the model (e.g. the filtered measure of a sql-backed model)
                pre = kind.split(":")[0]
                hit = next((v for (a, f, k), v in known.items() if a == key and k.split(":")[0] == pre and f in [feat_id((x,)) for x in feats]), None)
            if hit:
                seen_known.add(hit)
            else:
                new.append((kind, detail))
        if not probs:
            stats["clean"] += 1
        elif not new:
            stats["with_known_findings"] += 1
        for kind, detail in new:
            c.violation("%s export -> import, feature %s: %s (%s)" % (key, fid, kind, detail[:160]), {"kind": "cell", "adapter": key, "features": [list(f) for f in feats], "problem": kind, "detail": detail})
        if len(c.samples) < 3 and not probs:
            c.samples.append({"adapter": key, "feature": fid, "result": "round trip keeps model, key, relationships; every surviving metric and dimension computes the same values; second trip is a fixed point"})
    # model names with underscores (generated "<model>_<related>" names collide), for the adapters whose plain many_to_one cell is clean
    for key in ADAPTERS:
        try:
            if underscore_names_cell(key, CONTROL):
                continue               # the format does not keep this four-model graph even under harmless names: not this cell's subject
            probs = underscore_names_cell(key, COLLIDING)
        except Exception as e:
            probs = [("harness_error", "%s: %s" % (type(e).__name__, str(e)[:120]))]
        stats["underscore_name_cells"] = stats.get("underscore_name_cells", 0) + 1
        for kind, detail in probs:
            k3 = (key, "underscore_names", kind)
            hit = lookup_known(known, k3)
            if hit:
                seen_known.add(hit)
            else:
                c.violation("%s export -> import, model names with underscores: %s (%s)" % (key, kind, detail[:160]), {"kind": "underscore_names", "adapter": key, "problem": kind, "detail": detail})
    if os.environ.get("VERIF_C12_WRITE_BASELINE") == "1" and os.path.realpath(lib.REPO) == "/repo":
        json.dump({"comment": "key / source / relationship changes across export -> import observed on the pinned tree (written by VERIF_C12_WRITE_BASELINE=1 ./check C12 --tier thorough; never at check time)",
                   "structural_changes": sorted(map(list, observed_structural))}, open(BASELINE, "w"), indent=0)
    for fid in seen_known:
        c.known(fid)
    c.notes.extend(sorted(notes)[:40])
    c.obligation("oracle: %d matrix cells (15 exporters x %d features%s)" % (len(cells), len(FEATURES), " + pairs"), not c.violations, "correspondence")
    c.coverage.update({"evaluations": len(cells), "distinct_nontrivial": stats["clean"],
                       "rule": "the finite matrix exporter x core feature (9 aggregation literals, count(*), count of a column named like the measure, filtered measure, expression measure, boolean / numeric / expression dimensions, "
                               "hour / week / month granularity, composite key, sql-backed model, three relationship types, segment), enumerated exhaustively, plus feature pairs (3 quick / 8 thorough); non-trivial = clean cell",
                       "traces_validated_against_impl": len(cells), "distribution": stats, "exhaustive": True})


def replay(path):
    body = json.load(open(path))
    r = body["replay"]
    if r.get("kind") == "underscore_names":
        probs = underscore_names_cell(r["adapter"])
        print(probs)
        return 1 if any(k == r["problem"] for k, _ in probs) else 0
    if r.get("kind") == "cell":
        probs = cell(r["adapter"], [tuple(f) for f in r["features"]])
        print(probs)
        return 1 if any(k == r["problem"] for k, _ in probs) else 0
    print(json.dumps(r, indent=1)[:2000])
    return 1
