"""C01 — single-model queries compute exactly the defined aggregates.

Proof:  Props/C01.v (C01_rows: plan == reference semantics for every definition / query / table of any size).
Tie:    random (definition, table, query) cases executed by the real compile() + DuckDB and by Model/Single.v inside Coq
        (vm_compute); rows compared with BOTH `run_model` (fidelity of the hand-written model) and `spec` (the property oracle).
"""
import json
import warnings

from harness import dbutil, lib, semgen as sg

warnings.filterwarnings("ignore")

PREAMBLE = """From Coq Require Import ZArith String List Bool DecimalString.
Require Import V.Base.Calendar V.Model.Sem V.Model.Single.
Import ListNotations.
Open Scope string_scope.
""" + sg.SHOW + """
Definition M (a : agg) (e : option expr) (fs : list expr) := {| ms_agg := a; ms_expr := e; ms_filters := fs |}.
Definition Q d m f o l off u := {| sq_dims := d; sq_metrics := m; sq_filters := f; sq_order := o; sq_limit := l; sq_offset := off; sq_ungrouped := u |}.
Definition both (pk : list nat) (q : squery) (pre : list expr) (rows : list row) : string :=
  let rows' := filter (all_hold pre) rows in show (run_model pk q rows') ++ "#" ++ show (spec pk q rows').
"""


def gen_case(rnd):
    rows = sg.gen_rows(rnd)
    dims = [sg.gen_dim(rnd) for _ in range(rnd.choice([0, 1, 1, 2, 3]))]
    tgran = rnd.choice(["day", "week", "week", "month"])
    if rnd.random() < 0.3:
        # a time dimension (declared at `tgran`) requested bare and / or at other granularities: each reference is its own result column,
        # DATE_TRUNC(requested granularity, expression) -- bare = the declared granularity
        tcol = rnd.choice([1, 2])
        grans = rnd.sample([None, "day", "week", "month", "quarter", "year"], rnd.choice([1, 1, 2, 2, 3]))
        if rnd.random() < 0.4:
            grans = [None, rnd.choice(["month", "quarter", "year", "week"])]          # drill-down: the declared grain next to a coarser one
        for g in grans:
            dims.insert(rnd.randint(0, len(dims)), ("tdim", g, tcol))
        dims = dims[:4]
    mets = []
    for _ in range(rnd.choice([1, 2, 3, 4])):
        agg = rnd.choice(sg.AGGS)
        expr = None if (agg in ("count", "count_distinct") and rnd.random() < 0.4) else sg.gen_num(rnd)
        filt = [sg.gen_pred(rnd) for _ in range(rnd.choice([0, 0, 1, 2]))]
        mets.append((agg, expr, filt))
    if rnd.random() < 0.2 and rows:
        # a count_distinct over the KEY column itself, on a table where the declared key is not unique (re-delivered rows, UNION ALL sources):
        # the metric is the number of distinct values in the group, whatever the layer believes about the column
        mets.append(("count_distinct", sg.col(sg.ID), []))
        for _ in range(rnd.randint(1, 3)):
            a, b = rnd.randrange(len(rows)), rnd.randrange(len(rows))
            rows[a][sg.ID] = rows[b][sg.ID]
        mets = mets[-4:]
    filters = [sg.gen_pred(rnd) for _ in range(rnd.choice([0, 0, 1, 2, 3]))]
    # filters that name a COMPUTED dimension of the query (not its columns) under an operator that binds tighter than the top operator of
    # the dimension's own expression: the dimension's value is what must be compared, however the layer gets the reference evaluated
    comp = [(i, e) for i, e in enumerate(dims) if e[0] in ("add", "sub", "mul")]
    if comp and rnd.random() < 0.5:
        i, e = rnd.choice(comp)
        d = ("dref", i, e)
        filters.append(rnd.choice([("cmp", rnd.choice([">=", "<", "=", "<>"]), ("mul", d, sg.lit(rnd.choice([2, -1, 3]))), sg.lit(rnd.choice([0, 2, -2, 4, 6]))),
                                   ("cmp", rnd.choice([">=", "<"]), ("sub", sg.lit(rnd.choice([1, 3])), d), sg.lit(rnd.choice([0, 1, 2]))),
                                   ("not", ("cmp", "=", ("mul", sg.lit(2), d), sg.lit(rnd.choice([0, 2, 4]))))]))
    ungrouped = rnd.random() < 0.12
    composite = rnd.random() < 0.2
    nout = len(dims) + len(mets)
    order, limit, offset = [], None, None
    r = rnd.random()
    if r < 0.35 and nout:
        # a total order on the result: every dimension (every output column when ungrouped), random direction
        idxs = list(range(nout if ungrouped else len(dims)))
        rnd.shuffle(idxs)
        order = [(i, rnd.random() < 0.5) for i in idxs]
        if not ungrouped and rnd.random() < 0.5 and len(mets) and mets[0][0] not in ("median", "stddev", "avg"):
            order = [(len(dims), rnd.random() < 0.5)] + order
        if rnd.random() < 0.7:
            limit = rnd.choice([0, 1, 2, 3, 50])
        if rnd.random() < 0.5:
            offset = rnd.choice([0, 1, 2, 7])
    elif r < 0.45 and nout:
        order = [(rnd.randrange(nout), rnd.random() < 0.5)]          # partial order, no slicing: compared as a bag + sortedness
        if order[0][0] >= len(dims) and mets[order[0][0] - len(dims)][0] in ("median", "stddev", "avg"):
            order = []
    sqlpre = [sg.gen_pred(rnd)] if rnd.random() < 0.25 else []
    return dict(rows=rows, dims=dims, mets=mets, filters=filters, ungrouped=ungrouped, composite=composite, order=order, limit=limit, offset=offset,
                sqlpre=sqlpre, placeholder=rnd.random() < 0.3, autoparse=rnd.random() < 0.25, tgran=tgran, bare_dims=rnd.random() < 0.6, user_style=rnd.random() < 0.5)


def gen_ungrouped_dims_only(rnd):
    """targeted family: an UNGROUPED query that asks for dimensions only, over rows that repeat their dimension values (and NULLs): one output row per surviving base
    row, sliced by ORDER BY / LIMIT / OFFSET over all of them"""
    case = gen_case(rnd)
    while not [e for e in case["dims"] if e[0] != "tdim"]:
        case = gen_case(rnd)
    case["dims"] = [e for e in case["dims"] if e[0] != "tdim"][:2]
    case["mets"], case["ungrouped"] = [], True
    case["filters"] = [f for f in case["filters"] if "dref" not in repr(f)]          # filters that name a dimension by position refer to the untruncated list
    rows = [list(r) for r in case["rows"]] or [[1, 1, 2, 0, "a", 1, "k0"]]
    base = len(rows)
    for k in range(rnd.choice([2, 3, 5])):           # repeat rows under new keys: equal dimension values on different base rows
        src = list(rows[k % base])
        src[sg.ID], src[sg.ID2] = 1000 + k, "r%d" % k
        rows.append(src)
    case["rows"] = rows
    idxs = list(range(len(case["dims"])))
    rnd.shuffle(idxs)
    case["order"] = [(i, rnd.random() < 0.5) for i in idxs] if rnd.random() < 0.6 else []
    case["limit"] = rnd.choice([None, None, 2, 3, 50]) if case["order"] else None
    case["offset"] = rnd.choice([None, 1, 2]) if case["order"] and rnd.random() < 0.4 else None
    return case


def gen_literal_twins(rnd):
    """targeted family: several filters (or one conjunction, or measure filters) that differ ONLY in the case or the inner spacing of a string literal
    ('a' / 'A', 'a b' / 'a  b'), on data that holds all of those values: each predicate is its own predicate"""
    case = gen_case(rnd)
    vals = ["a", "A", "a b", "a  b", "b", None]
    for r in case["rows"]:
        r[sg.S0] = rnd.choice(vals)
    if len(case["rows"]) < 4:
        case["rows"] = [[i % 3, i, 1 + i, 2, vals[i % 5], i + 1, "k%d" % i] for i in range(8)]
    s0 = sg.col(sg.S0)
    pair = rnd.choice([("a", "A"), ("a b", "a  b"), ("A", "a"), ("a  b", "a b")])
    op = rnd.choice(["<>", "<>", "="])
    twins = [("cmp", op, s0, sg.lit(pair[0])), ("cmp", op, s0, sg.lit(pair[1]))] if op == "<>" else [("not", ("cmp", "=", s0, sg.lit(pair[0]))), ("not", ("cmp", "=", s0, sg.lit(pair[1])))]
    where = rnd.choice(["filters", "filters", "measure", "conj"])
    case["filters"] = [f for f in case["filters"] if f[0] != "dref" and "dref" not in repr(f)][:1]
    if where == "filters":
        case["filters"] += twins
    elif where == "conj":
        case["filters"].append(("and", twins[0], twins[1]))
    else:
        a, e, fl = case["mets"][0]
        case["mets"][0] = (a, e, twins)
    case["sqlpre"] = []
    return case


def dim_name(i, e):
    """result column (and, after `t.`, the reference) of dimension number i"""
    if e[0] == "tdim":
        return "tdc%d" % e[2] + ("__" + e[1] if e[1] else "")
    return "d%d" % i


def names(case):
    return [dim_name(i, e) for i, e in enumerate(case["dims"])] + ["m%d" % j for j in range(len(case["mets"]))]


def model_dim(case, e):
    """the expression the reference semantics groups by"""
    return ("tdim", e[1] or case.get("tgran", "day"), e[2]) if e[0] == "tdim" else e


def real(case):
    """-> (column names, rows) from the real implementation"""
    from sidemantic import Dimension, Metric, Model
    L = dbutil.fresh_layer()
    con = L.conn
    con.execute("create table t(%s)" % ", ".join("%s %s" % (c, t) for c, t in zip(sg.COLS, sg.COLTYPES)))
    if case["rows"]:
        con.executemany("insert into t values (?,?,?,?,?,?,?)", case["rows"])
    q = "{model}." if case["placeholder"] else ""
    mets = []
    def user_text(f, qq):
        # filters the way users write them: no outer parentheses, lower-case connectives (a top-level OR next to another filter must stay grouped)
        t = sg.sql_top(f, qq)
        return t.replace(" OR ", " or ").replace(" AND ", " and ") if case.get("user_style") else sg.sql(f, qq)
    for j, (a, e, fl) in enumerate(case["mets"]):
        filters = [user_text(f, "{model}.") for f in fl] or None
        if case["autoparse"] and e is not None and a in ("sum", "avg", "min", "max", "count"):
            mets.append(Metric(name="m%d" % j, sql="%s(%s)" % (a.upper(), sg.sql(e, q)), filters=filters))       # aggregation parsed out of the expression
        else:
            mets.append(Metric(name="m%d" % j, agg=a, sql=(sg.sql(e, q) if e else None), filters=filters))
    src = dict(sql="SELECT * FROM t WHERE %s" % sg.sql(case["sqlpre"][0])) if case["sqlpre"] else dict(table="t")
    m = Model(name="t", primary_key=({True: ["id", "id2"], "str": ["id2", "s0"]}[case["composite"]] if case["composite"] else "id"),
              dimensions=[Dimension(name="d%d" % i, type=("categorical" if e == sg.col(sg.S0) else "numeric"), sql=(sg.sql_top(e, q) if case.get("bare_dims") else sg.sql(e, q))) for i, e in enumerate(case["dims"]) if e[0] != "tdim"] +
                         [Dimension(name="tdc%d" % k, type="time", granularity=case.get("tgran", "day"), sql="(TIMESTAMP '2024-01-15 00:00:00' + %s%s * INTERVAL 20 DAY)" % (q, sg.COLS[k]))
                          for k in sorted({e[2] for e in case["dims"] if e[0] == "tdim"})],
              metrics=mets, **src)
    from harness import inherit
    L.add_model(inherit.maybe(m, sorted((k_, repr(v_)) for k_, v_ in case.items() if k_ != "rows")))      # one case in four: the same definitions obtained through `extends`
    nm = names(case)
    kw = dict(metrics=["t.m%d" % j for j in range(len(case["mets"]))], dimensions=["t." + dim_name(i, e) for i, e in enumerate(case["dims"])],
              filters=[user_text(f, "t.") for f in case["filters"]], ungrouped=case["ungrouped"])
    if case["order"]:
        kw["order_by"] = ["t.%s%s" % (nm[i], " DESC" if desc else "") for i, desc in case["order"]]
    if case["limit"] is not None:
        kw["limit"] = case["limit"]
    if case["offset"] is not None:
        kw["offset"] = case["offset"]
    if case.get("primed"):
        # the layer has answered related queries before this one (same fields in the opposite order; no filters; no slicing): nothing of them may show
        for other in (dict(kw, metrics=kw["metrics"][::-1], dimensions=kw["dimensions"][::-1]), dict(kw, filters=[]), {k: v for k, v in kw.items() if k not in ("limit", "offset", "order_by")}):
            try:
                con.execute(L.compile(**other)).fetchall()
            except Exception:
                pass
    sql = L.compile(**kw)
    cur = con.execute(sql)
    cols = [d[0] for d in cur.description]
    from harness import joingen
    return cols, joingen.canon_times(cur.fetchall()), sql


def coq_term(case):
    mets = "[" + "; ".join("M (%s) %s [%s]" % (sg.COQ_AGG[a], "None" if e is None else "(Some %s)" % sg.coq(e), "; ".join(sg.coq(f) for f in fl)) for a, e, fl in case["mets"]) + "]"
    order = "[" + "; ".join("(%d, %s)" % (i, "true" if d else "false") for i, d in case["order"]) + "]"
    opt = lambda x: "None" if x is None else "(Some %d)" % x
    q = "(Q [%s] %s [%s] %s %s %s %s)" % ("; ".join(sg.coq(model_dim(case, e)) for e in case["dims"]), mets, "; ".join(sg.coq(f) for f in case["filters"]), order,
                                         opt(case["limit"]), opt(case["offset"]), "true" if case["ungrouped"] else "false")
    pk = {True: "[%d; %d]" % (sg.ID, sg.ID2), "str": "[%d; %d]" % (sg.ID2, sg.S0), False: "[%d]" % sg.ID}[case["composite"]]
    return "both %s %s [%s] %s" % (pk, q, "; ".join(sg.coq(f) for f in case["sqlpre"]), sg.coq_rows(case["rows"]))


def rows_match(case, impl_rows, mrows, exempt=()):
    """compare implementation rows with model/spec rows (list of (key, cells))"""
    nd = len(case["dims"])
    if len(impl_rows) != len(mrows):
        return False
    need = set(range(nd + len(case["mets"]) if case["ungrouped"] else nd))
    total = bool(case["order"]) and need <= {i for i, _ in case["order"]}
    def cmp_row(a, k, cells):
        if [x for x in a[:nd]] != k:
            return False
        return all(j in exempt or sg.cell_matches(a[nd + j], cells[j], case["mets"][j][0]) for j in range(len(cells)))
    if total:
        return all(cmp_row(a, k, c) for a, (k, c) in zip(impl_rows, mrows))
    # bag comparison: greedy matching after sorting by key
    rest = list(mrows)
    for a in impl_rows:
        hit = next((i for i, (k, c) in enumerate(rest) if cmp_row(a, k, c)), None)
        if hit is None:
            return False
        rest.pop(hit)
    return True


def classify_known(c, case):
    """narrow known-finding classes of C01 (harness side of the Coq predicates)"""
    if case["composite"] and any(a == "count_distinct" and e is None for a, e, _ in case["mets"]) and any("|" in str(r[sg.ID2]) or "|" in str(r[sg.S0]) for r in case["rows"]):
        return "C01-K2"
    return None


def run(c):
    c.trusted += ["modelled, not verified: Model/Sem.v (SQL values, 3VL, aggregates, grouping, NULLS LAST ordering) and Model/Single.v (the single-model plan) are hand-written; "
                  "tied to generator.py + DuckDB by executing the same cases",
                  "DuckDB 1.3.2 evaluates expressions and aggregates (median / stddev are applied by DuckDB itself to the bag the model says the aggregate receives)",
                  "harness/semgen.py renders one expression AST to SQL text and to Gallina"]
    c.assumptions += ["measure values are BIGINT / VARCHAR (exact arithmetic); avg compared numerically with DuckDB's double"]
    lib.regen_small(c, "_build_measure_aggregation_sql")
    lib.regen_cte(c)
    try:
        import os
        from translator import gen_inherit
        lib.write_if_changed(os.path.join(lib.COQ, "Gen", "Inherit_gen.v"), gen_inherit.generate(lib.REPO))
        c.obligation("translator: merge_model (inheritance.py) on 35 scripted parents / children regenerated (Gen/Inherit_gen.v)", True, "translator")
        c.obligation("translator validation: interpreted merge_model == the real function under CPython on the same scripted objects", gen_inherit.table(lib.REPO) == gen_inherit.table(lib.REPO, real=True), "translator")
    except Exception as e:
        c.obligation("translator: merge_model (inheritance.py) regenerated (Gen/Inherit_gen.v)", False, "translator", repr(e)[-900:])
    c.trusted.append("translator/pyinterp.py + gen_inherit.py (fail-closed definitional interpreter; the two pydantic objects and the five constructors are scripted; validated against CPython each run)")
    c.build_props()
    n = 400 if c.tier == "quick" else 6000
    cases = [gen_case(c.rng) for _ in range(n)]
    cases += [gen_literal_twins(c.rng) for _ in range(max(12, n // 20))]
    import random as _random
    rng_u = _random.Random(c.seed * 37 + 3)          # a stream of its own
    cases += [gen_ungrouped_dims_only(rng_u) for _ in range(max(10, n // 30))]
    for k, case in enumerate(cases):
        if k % 3 == 0:
            case["primed"] = True      # asked on a layer that has already answered the same fields in the opposite order, without filters and without slicing
    # fixed corpus: past disagreements and the shapes behind the listed findings
    cases[:0] = corpus_cases()
    outs = None
    if lib.coq_make(["Model/Single.vo"])[0]:
        try:
            outs = lib.coq_eval("c01_cases", PREAMBLE, [coq_term(x) for x in cases], chunk=120)
        except RuntimeError as e:
            c.obligation("model evaluation", False, "correspondence", str(e)[-1500:])
    fid_bad, n_multi, dist = [], 0, {"primed": sum(1 for x in cases if x.get("primed")), "ungrouped": 0, "ordered": 0, "sliced": 0, "composite": 0, "sql_backed": 0, "empty": 0, "impl_errors": 0}
    for i, case in enumerate(cases):
        dist["ungrouped"] += case["ungrouped"]
        dist["ordered"] += bool(case["order"])
        dist["sliced"] += case["limit"] is not None or case["offset"] is not None
        dist["composite"] += bool(case["composite"])
        dist["sql_backed"] += bool(case["sqlpre"])
        dist["empty"] += not case["rows"]
        try:
            cols, rows, sql = real(case)
        except Exception as e:
            dist["impl_errors"] += 1
            c.violation("single-model query fails to compile or execute: %s" % type(e).__name__, {"kind": "case", "case": case, "error": str(e)[:500]})
            continue
        if len(rows) > 1:
            n_multi += 1
        if outs is None:
            continue
        m_line, s_line = sg.unquote(outs[i]).split("#")
        mrows, srows = sg.parse_show(m_line), sg.parse_show(s_line)
        ok_spec = cols == names(case) and rows_match(case, rows, srows)
        ok_model = rows_match(case, rows, mrows)
        if not ok_model:
            fid_bad.append({"case": case, "impl": rows[:6], "model": m_line[:300]})
        if not ok_spec:
            k = classify_known(c, case)
            # the listed class only excuses the metric columns it is about; everything else must still agree
            k2_cols = {j for j, (a, e, _) in enumerate(case["mets"]) if a == "count_distinct" and e is None}
            if k and c.is_open(k) and cols == names(case) and rows_match(case, rows, srows, exempt=k2_cols):
                c.known(k)
            else:
                c.violation("rows returned for a single-model query differ from the defined aggregates",
                            {"kind": "case", "case": case, "columns": cols, "impl_rows": [list(map(str, r)) for r in rows[:8]], "spec_rows": s_line[:600], "sql": sql[-900:]})
        if len(c.samples) < 3 and len(rows) > 1:
            c.samples.append({"dims": [sg.sql(e) if e[0] != "tdim" else dim_name(0, e) for e in case["dims"]], "metrics": [(a, sg.sql(e) if e else None, [sg.sql(f) for f in fl]) for a, e, fl in case["mets"]],
                              "filters": [sg.sql(f) for f in case["filters"]], "n_rows": len(case["rows"]), "impl_rows": [list(map(str, r)) for r in rows[:3]]})
    if outs is not None:
        c.obligation("correspondence: Model/Single.run_model == compile()+DuckDB on %d cases" % len(cases), not fid_bad, "correspondence", json.dumps(fid_bad[:1], default=str)[:1800])
    c.obligation("oracle: implementation rows == reference semantics (spec) on %d cases" % len(cases), not c.violations, "correspondence")
    c.coverage.update({"evaluations": len(cases), "distinct_nontrivial": n_multi,
                       "rule": "random single-model definitions (0-3 dimension expressions incl. strings, 1-4 measures over sum/count/count_distinct/avg/min/max/median/stddev with optional measure filters, "
                               "table- or sql-backed, single/composite key, {model} placeholders, SUM(x) auto-parse form) x tables of 0-12 rows with NULLs/duplicates/negatives x queries "
                               "(0-3 filters incl. IN/BETWEEN/IS NULL/NOT/OR, order_by, limit/offset incl. 0, ungrouped); non-trivial = the implementation returned more than one row",
                       "traces_validated_against_impl": len(cases), "distribution": dist, "exhaustive": False})


def corpus_cases():
    base = dict(filters=[], ungrouped=False, composite=False, order=[], limit=None, offset=None, sqlpre=[], placeholder=False, autoparse=False)
    rows = [[1, 0, None, 2, "a", 1, "k1"], [1, 1, 3, 2, "a", 2, "k2"], [2, None, 5, 0, "b", 3, "k3"], [None, 1, 7, 1, None, 4, "k4"]]
    out = []
    # filtered COUNT(expr): NULL expressions must not be counted
    out.append(dict(base, rows=rows, dims=[sg.col(0)], mets=[("count", sg.col(2), [("cmp", ">", sg.col(5), sg.lit(0))])]))
    # limit 0 returns no rows
    out.append(dict(base, rows=rows, dims=[sg.col(0)], mets=[("sum", sg.col(2), [])], order=[(0, False)], limit=0))
    # composite key with '|' inside the key strings (C01-K2)
    prow = [[1, 0, 0, 0, "a", 1, "x|y"], [1, 0, 0, 0, "a", 1, "x"]]
    out.append(dict(base, rows=[[1, 0, 0, 0, "z", 1, "x|y"], [1, 0, 0, 0, "y|z", 2, "x"]], dims=[], mets=[("count_distinct", None, [])], composite="str"))
    # no dimensions over zero rows: one global group
    out.append(dict(base, rows=[], dims=[], mets=[("count", None, []), ("sum", sg.col(0), [])]))
    return out


def replay(path):
    body = json.load(open(path))
    case = body["replay"]["case"]
    case["dims"] = [_t(e) for e in case["dims"]]
    case["mets"] = [(a, _t(e) if e else None, [_t(f) for f in fl]) for a, e, fl in case["mets"]]
    case["filters"] = [_t(f) for f in case["filters"]]
    case["sqlpre"] = [_t(f) for f in case["sqlpre"]]
    case["order"] = [tuple(o) for o in case["order"]]
    cols, rows, sql = real(case)
    out = lib.coq_eval("c01_replay", PREAMBLE, [coq_term(case)])
    m_line, s_line = sg.unquote(out[0]).split("#")
    ok = cols == names(case) and rows_match(case, rows, sg.parse_show(s_line))
    print(sql)
    print("impl:", rows[:10])
    print("spec:", s_line[:800])
    return 0 if ok else 1


def _t(e):
    return tuple(_t(x) if isinstance(x, list) and x and isinstance(x[0], str) and x[0] in ("col", "lit", "add", "sub", "mul", "cmp", "and", "or", "not", "isnull", "in", "between", "tdim") else x for x in e) if isinstance(e, (list, tuple)) else e
