"""Deterministic line-granular scheduler for real threads (sys.settrace): a plan is a list of (thread_name, n_lines)
slices; only lines of the traced files count and only there can control change hands.  After the plan is exhausted the
threads run freely.  Used to replay model schedules of C19 on the real code and to search for bad schedules."""
import sys
import threading


class Sched:
    def __init__(self, plan, files):
        self.plan = list(plan)
        self.files = set(files)
        self.cv = threading.Condition()
        self.cur, self.left = None, 0
        self.done = set()
        self.trace = []
        self._next()

    def _next(self):
        while self.plan:
            t, n = self.plan.pop(0)
            if t in self.done:
                continue
            self.cur, self.left = t, n
            return
        self.cur, self.left = None, 0   # free run

    def tracer(self, name):
        def local(frame, event, arg):
            if event == "line" and frame.f_code.co_filename in self.files:
                with self.cv:
                    waited = 0
                    while self.cur is not None and self.cur != name:
                        self.cv.wait(timeout=0.5)
                        waited += 1
                        if self.cur is not None and self.cur != name and (self.cur in self.done or waited > 20):
                            self._next()
                            self.cv.notify_all()
                    self.trace.append((name, frame.f_lineno))
                    if self.cur == name:
                        self.left -= 1
                        if self.left <= 0:
                            self._next()
                            self.cv.notify_all()
            return local

        def glob(frame, event, arg):
            if frame.f_code.co_filename in self.files:
                return local
            return None
        return glob

    def finish(self, name):
        with self.cv:
            self.done.add(name)
            if self.cur == name:
                self._next()
            self.cv.notify_all()


def run_plan(jobs, plan, files):
    """jobs: {thread_name: zero-argument callable}.  Returns ({name: result or 'ExcType: msg'}, trace)."""
    S = Sched(plan, files)
    res = {}

    def worker(name, fn):
        sys.settrace(S.tracer(name))
        try:
            res[name] = fn()
        except Exception as e:  # noqa
            res[name] = "%s: %s" % (type(e).__name__, e)
        finally:
            sys.settrace(None)
            S.finish(name)
    ts = [threading.Thread(target=worker, args=(n, f)) for n, f in jobs.items()]
    for t in ts:
        t.start()
    for t in ts:
        t.join(30)
    return res, S.trace
