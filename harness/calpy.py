"""Python transliteration of the day-number arithmetic (only used by generators to PLACE timestamps on calendar edges;
never as an oracle: the oracles are the extracted Coq calendar and DuckDB)."""


def civil(z0):
    z = z0 + 719468
    era = z // 146097
    doe = z - era * 146097
    yoe = (doe - doe // 1460 + doe // 36524 - doe // 146096) // 365
    y = yoe + era * 400
    doy = doe - (365 * yoe + yoe // 4 - yoe // 100)
    mp = (5 * doy + 2) // 153
    d = doy - (153 * mp + 2) // 5 + 1
    m = mp + 3 if mp < 10 else mp - 9
    return (y + 1 if m <= 2 else y, m, d)


def dfc(y0, m, d):
    y = y0 - 1 if m <= 2 else y0
    era = y // 400
    yoe = y - era * 400
    mp = m - 3 if m > 2 else m + 9
    doy = (153 * mp + 2) // 5 + d - 1
    doe = yoe * 365 + yoe // 4 - yoe // 100 + doy
    return era * 146097 + doe - 719468
