"""Generator of model forests with data, shared by the multi-model checks (C02, C03, C04): declarations for the real code,
Gallina terms for Model/Plan.v, and the per-table data."""
from harness import lib, semgen as sg

# every generated table has the same columns
JCOLS = ["id", "id2", "c0", "c1", "s0", "fk_a", "fk_b"]
JTYPES = ["bigint", "varchar", "bigint", "bigint", "varchar", "bigint", "varchar"]
CI = {c: i for i, c in enumerate(JCOLS)}
NAMES = ["ma", "mb", "mc", "md", "me"]
COLLIDING_PAIRS = [(1, "1k"), (11, "k"), (1, "2k"), (12, "k"), (2, "k"), (1, "k"), (2, "1k"), (21, "k")]


def jcol(name):
    return ("col", CI[name])


def tdim(gran, col="c1"):
    """a time dimension over the J schema (NULL where the column is NULL), requested at a granularity"""
    return ("tdim", gran, CI[col])


def tdim2(gran, col="c1"):
    """the second time-dimension flavour: 2-day steps from Monday 2024-01-29, so that column values 0..2 fall into ONE ISO week but TWO months.
    All tdim2 references of a model over the same column are ONE dimension requested at several granularities (shared name)."""
    return ("tdim2", gran, CI[col])


def dim_name(i, e):
    """name of the Dimension object behind dimension number i of a query"""
    return "w%d" % e[2] if e[0] == "tdim2" else "d%d" % i


def dim_col(i, e):
    """name of the result column of dimension number i"""
    return "%s__%s" % (dim_name(i, e), e[1]) if e[0] in ("tdim", "tdim2") else "d%d" % i


def canon_times(rows):
    """datetime/date cells -> microseconds since 1970 (the model's representation)"""
    import datetime
    from harness import dbutil
    return [tuple(dbutil.canon_val(x)[1] if isinstance(x, (datetime.date, datetime.datetime)) else x for x in r) for r in rows]


def jsql_top(e, q=""):
    """like jsql() without the outermost parentheses (a definition written the way users write it: c0 - c1)"""
    t = jsql(e, q)
    return t[1:-1] if e[0] in ("add", "sub", "mul") and t.startswith("(") and t.endswith(")") else t


def jsql(e, q=""):
    """render an expression over the J schema"""
    k = e[0]
    if k == "dref":      # a reference to dimension number e[1] of the query BY NAME (its expression e[2] is what the reference semantics sees)
        return f"{q}{dim_name(e[1], e[2])}"
    if k == "col":
        return f"{q}{JCOLS[e[1]]}"
    if k == "lit":
        return sg.sql(e)
    if k in ("add", "sub", "mul"):
        return f"({jsql(e[1], q)} {dict(add='+', sub='-', mul='*')[k]} {jsql(e[2], q)})"
    if k == "cmp":
        return f"({jsql(e[2], q)} {e[1]} {jsql(e[3], q)})"
    if k in ("and", "or"):
        return f"({jsql(e[1], q)} {k.upper()} {jsql(e[2], q)})"
    if k == "not":
        return f"(NOT {jsql(e[1], q)})"
    if k == "isnull":
        return f"({jsql(e[1], q)} IS NULL)"
    if k == "in":
        return f"({jsql(e[1], q)} IN ({', '.join(sg.sql(sg.lit(v)) for v in e[2])}))"
    if k == "between":
        return f"({jsql(e[1], q)} BETWEEN {jsql(e[2], q)} AND {jsql(e[3], q)})"
    raise ValueError(k)


def gen_m2m_forest(rnd, null_measures=True):
    """ma <-> mb many_to_many THROUGH the junction mc, declared on ONE side only (ma or mb); the junction refers to ma by fk_a -> id and to mb by
    fk_b -> id2 (an explicit primary_key on the relationship, or the related model's own key when mb is keyed by id2).  Optionally a fourth model
    hangs off ma or mb by a many_to_one link.  Junction rows: several per ma / mb row, NULL and dangling references on both sides."""
    def rows_for(k):
        out = []
        for r in range(k):
            c0 = rnd.choice([None, 0, 1, 2, 5, -3, 10]) if null_measures else rnd.choice([0, 1, 2, 5, -3, 10])
            out.append([r + 1, "k%d" % (r + 1), c0, rnd.choice([None, 0, 1, 2]), rnd.choice([None, "a", "a", "b", "c"]), None, None])
        return out
    ma = dict(name="ma", composite=False, rels=[], rows=rows_for(rnd.choice([1, 2, 3, 4])))
    mb = dict(name="mb", composite=False, rels=[], rows=rows_for(rnd.choice([1, 2, 3, 4])))
    mc = dict(name="mc", composite=False, rels=[], rows=rows_for(rnd.choice([0, 2, 4, 6, 8])))
    for r in mc["rows"]:
        x = rnd.random()
        r[CI["fk_a"]] = None if x < 0.1 else 99 if x < 0.18 else rnd.choice(ma["rows"])[0]
        y = rnd.random()
        r[CI["fk_b"]] = None if y < 0.1 else "k99" if y < 0.18 else rnd.choice(mb["rows"])[1]
    if rnd.random() < 0.5:
        # declared on ma: the junction's key to "this" model is fk_a, to the related model fk_b (-> mb.id2)
        ma["rels"].append(dict(name="mb", type="many_to_many", through="mc", through_foreign_key="fk_a", related_foreign_key="fk_b", primary_key="id2"))
    else:
        # declared on mb, whose OWN key is id2 here (so that the junction's fk_b reaches it): this side's key defaults to the model key
        mb["pk"] = "id2"
        mb["rels"].append(dict(name="ma", type="many_to_many", through="mc", through_foreign_key="fk_b", related_foreign_key="fk_a"))
    models = [ma, mb, mc]
    rnd.shuffle(models)            # registration order varies (the junction before or after the declaring model)
    links = []
    if rnd.random() < 0.4:
        md = dict(name="md", composite=False, rels=[], rows=rows_for(rnd.choice([0, 2, 3, 5])))
        parent = rnd.choice([ma, mb])
        for r in md["rows"]:
            x = rnd.random()
            r[CI["fk_a"]] = None if x < 0.12 else 99 if x < 0.2 else rnd.choice(parent["rows"])[0]
        if parent.get("pk") != "id2":
            if rnd.random() < 0.5:
                md["rels"].append(dict(name=parent["name"], type="many_to_one", foreign_key="fk_a"))
            else:
                parent["rels"].append(dict(name="md", type="one_to_many", foreign_key="fk_a"))
            models.append(md)
    return dict(models=models, links=links)


def gen_forest(rnd, nmodels=None, allow_m2m=True, null_measures=True):
    """-> dict(models=[{name, composite, rels:[...], rows}], ...).  Relationship data is truthful w.r.t. the declared cardinality."""
    if allow_m2m and (nmodels is None or nmodels >= 3) and rnd.random() < 0.15:
        return gen_m2m_forest(rnd, null_measures)
    n = nmodels or rnd.randint(2, 5)
    models = [dict(name=NAMES[i], composite=False, rels=[], rows=[]) for i in range(n)]
    links = []     # (child index, parent index, type seen from child: m2o|o2o, composite?)
    for i in range(1, n):
        j = rnd.randrange(i)
        ty = rnd.choice(["m2o", "m2o", "m2o", "o2o"])
        comp = rnd.random() < 0.3
        if comp:
            models[j]["composite"] = True
        # orientation: sometimes the later model is the parent (so that chains run both ways)
        if rnd.random() < 0.35 and not any(l[0] == j for l in links) and not comp:
            links.append((j, i, ty, False))
        else:
            links.append((i, j, ty, comp))
    # a model can be the child in at most one link (one fk column pair); drop extra links (keeps a forest)
    seen_child, kept = set(), []
    for l in links:
        if l[0] in seen_child:
            continue
        seen_child.add(l[0])
        kept.append(l)
    links = kept
    # composite flag must agree for every link into the same parent
    for idx, (c, p, ty, comp) in enumerate(links):
        links[idx] = (c, p, ty, models[p]["composite"])
    # rows
    for i, m in enumerate(models):
        k = rnd.choice([0, 1, 2, 3, 4, 6]) if i else rnd.choice([1, 2, 3, 4, 6])
        # composite keys are drawn from pairs whose plain concatenation collides ((1,'1k') ~ (11,'k'), (1,'2k') ~ (12,'k')), so that
        # a key encoding without a separator cannot go unnoticed
        if m["composite"]:
            k = max(k, rnd.choice([2, 4, 4, 6]))
            off = rnd.choice([0, 2, 4, 6])
            pairs = (COLLIDING_PAIRS[off:] + COLLIDING_PAIRS[:off])[:k]          # colliding partners are adjacent in the pool
        else:
            pairs = [(r + 1, "k%d" % (r + 1)) for r in range(k)]
        for r in range(len(pairs)):
            c0 = rnd.choice([None, 0, 1, 2, 5, -3, 10]) if null_measures else rnd.choice([0, 1, 2, 5, -3, 10])
            m["rows"].append([pairs[r][0], pairs[r][1], c0, rnd.choice([None, 0, 1, 2]), rnd.choice([None, "a", "a", "b", "c"]), None, None])
    # "detail table" shape: a child whose own composite primary key CONTAINS its foreign key (order lines keyed by (order id, line
    # number)): the join columns are then a proper subset of the child's key, and the hop still fans the parent out
    parents = {l[1] for l in links}
    for (c, p, ty, comp) in links:
        if ty == "m2o" and not comp and not models[c]["composite"] and c not in parents and rnd.random() < 0.3:
            models[c]["pk"] = ["fk_a", "id"]
    for (c, p, ty, comp) in links:
        prow = models[p]["rows"]
        pool = [(r[0], r[1]) for r in prow]
        used = set()
        for r in models[c]["rows"]:
            x = rnd.random()
            if (x < 0.12 or not pool) and models[c].get("pk"):
                fk = (99, "k99")              # a key column is never NULL
            elif x < 0.12 or not pool:
                fk = None
            elif x < 0.2:
                fk = (99, "k99")              # dangling
            else:
                fk = rnd.choice(pool)
                if ty == "o2o":
                    if fk in used:
                        fk = None
                    else:
                        used.add(fk)
            r[CI["fk_a"]] = None if fk is None else fk[0]
            r[CI["fk_b"]] = None if fk is None else (fk[1] if rnd.random() < 0.9 else "zz")
    # declarations: on the child (many_to_one / one_to_one with the fk there is not expressible for o2o on the child side in this API,
    # so o2o is always declared on the parent) or on the parent (one_to_many / one_to_one)
    for (c, p, ty, comp) in links:
        fk = ["fk_a", "fk_b"] if comp else "fk_a"
        if ty == "m2o" and rnd.random() < 0.5:
            models[c]["rels"].append(dict(name=models[p]["name"], type="many_to_one", foreign_key=fk))
        elif ty == "m2o":
            models[p]["rels"].append(dict(name=models[c]["name"], type="one_to_many", foreign_key=fk))
        else:
            models[p]["rels"].append(dict(name=models[c]["name"], type="one_to_one", foreign_key=fk))
    return dict(models=models, links=links)


def model_pk(m):
    """primary key of a generated model: a column name or a list of column names"""
    return m.get("pk") or (["id", "id2"] if m["composite"] else "id")


def coq_key(k):
    if k is None:
        return "KNone"
    if isinstance(k, str):
        return "(KStr %s)" % lib.coq_string(k)
    return "(KList [%s])" % "; ".join(lib.coq_string(x) for x in k)


def coq_forest(f):
    ms = []
    for m in f["models"]:
        rels = "; ".join("{| r_name := %s; r_type := %s; r_fk := %s; r_pk := %s; r_through := %s; r_tfk := %s; r_rfk := %s |}" % (
            lib.coq_string(r["name"]), lib.coq_string(r["type"]), coq_key(r.get("foreign_key")), coq_key(r.get("primary_key")),
            "None" if not r.get("through") else "(Some %s)" % lib.coq_string(r["through"]),
            "None" if not r.get("through_foreign_key") else "(Some %s)" % lib.coq_string(r["through_foreign_key"]),
            "None" if not r.get("related_foreign_key") else "(Some %s)" % lib.coq_string(r["related_foreign_key"])) for r in m["rels"])
        pk = coq_key(model_pk(m))
        ms.append("{| pm_g := {| g_name := %s; g_pk := %s; g_rels := [%s] |}; pm_cols := JC; pm_rows := %s |}" % (
            lib.coq_string(m["name"]), pk, rels, sg.coq_rows(m["rows"])))
    return "[" + ";\n ".join(ms) + "]"


def real_layer(f, metrics_by_model, dims_by_model, extra_model_kw=None):
    """build the real layer; metrics_by_model[name] = [(mname, agg, expr|None, filters)], dims_by_model[name] = [(dname, expr)]"""
    from sidemantic import Dimension, Metric, Model, Relationship
    from harness import dbutil
    L = dbutil.fresh_layer()
    for m in f["models"]:
        L.conn.execute("create table %s(%s)" % (m["name"], ", ".join("%s %s" % (c, t) for c, t in zip(JCOLS, JTYPES))))
        if m["rows"]:
            L.conn.executemany("insert into %s values (?,?,?,?,?,?,?)" % m["name"], m["rows"])
    for m in f["models"]:
        rels = [Relationship(**r) for r in m["rels"]]
        seen_names, uniq = set(), []
        for dn, e in dims_by_model.get(m["name"], []):
            if dn not in seen_names:          # one Dimension per name: a tdim2 dimension requested at several granularities is declared once
                seen_names.add(dn)
                uniq.append((dn, e))
        dims = [(Dimension(name=dn, type="time", granularity="day", sql="(TIMESTAMP '2024-01-15 00:00:00' + %s * INTERVAL 20 DAY)" % JCOLS[e[2]]) if e[0] == "tdim" else
                 Dimension(name=dn, type="time", granularity="day", sql="(TIMESTAMP '2024-01-29 00:00:00' + %s * INTERVAL 2 DAY)" % JCOLS[e[2]]) if e[0] == "tdim2" else
                 Dimension(name=dn, type=("categorical" if e == jcol("s0") else "numeric"), sql=jsql_top(e))) for dn, e in uniq]
        mets = [Metric(name=mn, agg=a, sql=(jsql(e) if e else None), filters=[jsql(x, "{model}.") for x in fl] or None, **METRIC_KW.get((m["name"], mn), {})) for mn, a, e, fl in metrics_by_model.get(m["name"], [])]
        kw = dict((extra_model_kw or {}).get(m["name"], {}))
        from harness import inherit
        L.add_model(inherit.maybe(Model(name=m["name"], table=m["name"], primary_key=model_pk(m), relationships=rels, dimensions=dims, metrics=mets, **kw),
                                  (m["name"], [(r_["name"], r_["type"]) for r_ in m["rels"]], [x_[0] for x_ in uniq], [x_[0] for x_ in metrics_by_model.get(m["name"], [])], len(m["rows"])), one_in=5))
    return L


METRIC_KW = {}      # (model, metric name) -> extra Metric(...) arguments for the NEXT layers built (set and cleared by the targeted families that need them, e.g. fill_nulls_with)


def corpus_forest():
    """customers <- orders (many_to_one), customers <-1:1- profiles; the data behind the listed C02/C03/C04 findings"""
    cu = dict(name="ma", composite=False, rels=[dict(name="mc", type="one_to_one", foreign_key="fk_a")],
              rows=[[1, "k1", 100, 1, "x", None, None], [2, "k2", None, 0, "y", None, None], [3, "k3", 7, 2, "x", None, None]])
    od = dict(name="mb", composite=False, rels=[dict(name="ma", type="many_to_one", foreign_key="fk_a")],
              rows=[[1, "k1", 10, 1, "a", 1, "k1"], [2, "k2", 20, 0, "b", 1, "k1"], [3, "k3", 5, 1, "a", 2, "k2"], [4, "k4", 1, None, "a", None, None]])
    pr = dict(name="mc", composite=False, rels=[], rows=[[1, "k1", 3, 1, "p", 1, "k1"], [2, "k2", 4, 1, "q", None, None], [3, "k3", 5, 0, "q", 99, "k99"]])
    return dict(models=[cu, od, pr], links=[])


# names where one is the tail / head of another, or looks like a generated alias: nothing may depend on how models are called
CONTAINED_NAMES = {"ma": "items", "mb": "line_items", "mc": "order_line_items", "md": "itemsx", "me": "items_raw"}


def rename_case(f, q, mapping=None):
    """the same forest and query under other model names (deep copy)"""
    import copy
    mapping = mapping or CONTAINED_NAMES
    g = copy.deepcopy(f)
    for m in g["models"]:
        m["name"] = mapping.get(m["name"], m["name"])
        for r in m["rels"]:
            r["name"] = mapping.get(r["name"], r["name"])
            if r.get("through"):
                r["through"] = mapping.get(r["through"], r["through"])
    q2 = copy.deepcopy(q)
    q2["dims"] = [(mapping.get(m, m), e) for m, e in q["dims"]]
    q2["mets"] = [(mapping.get(m, m), a, e, fl) for m, a, e, fl in q["mets"]]
    q2["filters"] = [(mapping.get(m, m), e) for m, e in q["filters"]]
    return g, q2
