"""Helpers around the real implementation: fresh layers on in-memory DuckDB, canonical rows."""
import datetime
import decimal
import math


def fresh_layer(**kw):
    from sidemantic import SemanticLayer
    return SemanticLayer(connection="duckdb:///:memory:", auto_register=False, **kw)


def canon_val(v):
    if v is None:
        return None
    if isinstance(v, bool):
        return ("b", v)
    if isinstance(v, int):
        return ("n", float(v)) if abs(v) < 2 ** 53 else ("i", v)
    if isinstance(v, decimal.Decimal):
        return ("n", float(v))
    if isinstance(v, float):
        if math.isnan(v):
            return ("nan",)
        return ("n", round(v, 9) if abs(v) < 1e6 else float("%.12g" % v))
    if isinstance(v, datetime.datetime):
        return ("t", int((v - datetime.datetime(1970, 1, 1)) / datetime.timedelta(microseconds=1)))
    if isinstance(v, datetime.date):
        return ("t", (v - datetime.date(1970, 1, 1)).days * 86400000000)
    return ("s", str(v))


def canon_rows(rows, ordered=False):
    out = [tuple(canon_val(v) for v in r) for r in rows]
    if not ordered:
        out.sort(key=lambda r: tuple((x is None, str(x)) for x in r))
    return out


def us_to_ts(us):
    return datetime.datetime(1970, 1, 1) + datetime.timedelta(microseconds=us)
