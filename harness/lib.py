"""Shared machinery of the /verif checks: regeneration, Coq build, assumption audit, model evaluation,
known findings, replays, evidence.  Every check is `./check Cnn --tier quick|thorough` (see harness/main.py)."""
from __future__ import annotations

import fcntl
import hashlib
import json
import os
import random
import re
import subprocess
import sys
import time

VERIF = os.path.dirname(os.path.dirname(os.path.abspath(__file__)))
REPO = os.environ.get("VERIF_REPO", "/repo")
COQ = os.path.join(VERIF, "coq")
PY = "/venv/bin/python"
NPROC = os.cpu_count() or 8

# Axioms a property theorem may depend on (Section 8 of DESIGN.md).  Anything else printed by
# `Print Assumptions` makes the obligation count as not discharged.
ALLOWED_AXIOMS = {
    # none needed so far: every property theorem is "Closed under the global context".
}


def sh(cmd, timeout=600, cwd=None, env=None, input=None):
    e = dict(os.environ)
    if env:
        e.update(env)
    try:
        p = subprocess.run(cmd, shell=isinstance(cmd, str), cwd=cwd, env=e, input=input, capture_output=True, text=True, timeout=timeout)
        return p.returncode, p.stdout + p.stderr
    except subprocess.TimeoutExpired as ex:
        out = (ex.stdout or b"")
        if isinstance(out, bytes):
            out = out.decode("utf8", "replace")
        return 124, out + f"\nTIMEOUT after {timeout}s"


class Lock:
    def __init__(self, path):
        self.path = path

    def __enter__(self):
        self.f = open(self.path, "w")
        fcntl.flock(self.f, fcntl.LOCK_EX)
        return self

    def __exit__(self, *a):
        fcntl.flock(self.f, fcntl.LOCK_UN)
        self.f.close()


def write_if_changed(path, text):
    try:
        if open(path).read() == text:
            return False
    except FileNotFoundError:
        pass
    os.makedirs(os.path.dirname(path), exist_ok=True)
    with open(path, "w") as f:
        f.write(text)
    return True


def ensure_makefile():
    """(Re)generate coq/Makefile from coq/_CoqProject when missing or older than the project file."""
    mk, proj = os.path.join(COQ, "Makefile"), os.path.join(COQ, "_CoqProject")
    if not os.path.exists(mk) or os.path.getmtime(mk) < os.path.getmtime(proj):
        rc, out = sh("coq_makefile -f _CoqProject -o Makefile", cwd=COQ)
        if rc != 0:
            raise RuntimeError("coq_makefile failed: " + out)


def coq_make(targets, timeout=1500):
    """Full .vo build of the given targets (never -vos).  Returns (ok, log)."""
    with Lock(os.path.join(COQ, ".lock")):
        ensure_makefile()
        rc, out = sh(["make", "-j%d" % NPROC] + list(targets), cwd=COQ, timeout=timeout)
    return rc == 0, out


_ERR_RE = re.compile(r'File "\./([^"]+)", line (\d+), characters')


def failing_location(log):
    """(file, line, enclosing statement name) of the first Coq error in a make log."""
    m = _ERR_RE.search(log[log.find("Error") - 2000 if "Error" in log else 0:]) or _ERR_RE.search(log)
    if not m:
        return None
    f, line = m.group(1), int(m.group(2))
    name = None
    try:
        src = open(os.path.join(COQ, f)).read().split("\n")
        for i in range(min(line, len(src)) - 1, -1, -1):
            mm = re.match(r"\s*(Theorem|Lemma|Corollary|Example|Definition|Fixpoint|Proposition)\s+([A-Za-z0-9_']+)", src[i])
            if mm:
                name = mm.group(2)
                break
    except OSError:
        pass
    return f, line, name


def theorems_of(vfile):
    """Names of the statements proved in a Props file, in order."""
    src = open(os.path.join(COQ, vfile)).read()
    src = re.sub(r"\(\*.*?\*\)", "", src, flags=re.S)
    return re.findall(r"^\s*(?:Theorem|Corollary|Example|Lemma)\s+([A-Za-z0-9_']+)", src, flags=re.M)


def print_assumptions(prop_module, names, timeout=600):
    """Run `Print Assumptions` for each name (defined in V.Props.<prop_module>).  Returns {name: [axioms]} or None on failure."""
    d = os.path.join(COQ, ".assm")
    os.makedirs(d, exist_ok=True)
    body = ["Require Import V.Props.%s." % prop_module]
    for n in names:
        body.append('Goal True. idtac "@@THM %s". exact I. Qed.' % n)
        body.append("Print Assumptions %s." % n)
    body.append('Goal True. idtac "@@END". exact I. Qed.')
    path = os.path.join(d, "%s_assm.v" % prop_module)
    with open(path, "w") as f:
        f.write("\n".join(body) + "\n")
    rc, out = sh(["coqc", "-Q", COQ, "V", "-w", "none", path], timeout=timeout, cwd=d)
    if rc != 0:
        return None, out
    res, cur = {}, None
    for line in out.split("\n"):
        if line.startswith("@@THM "):
            cur = line[6:].strip()
            res[cur] = []
        elif line.startswith("@@END"):
            cur = None
        elif cur is not None:
            s = line.strip()
            if not s or s.startswith("Closed under the global context") or s == "Axioms:":
                continue
            m = re.match(r"^([A-Za-z0-9_.']+)\s*:", line)
            if m and not line.startswith(" "):
                res[cur].append(m.group(1))
    return res, out


def coq_eval(name, preamble, exprs, timeout=900, chunk=400):
    """Evaluate Gallina expressions with vm_compute inside coqc.  `exprs` is a list of Gallina terms whose value
    is printed one per marker; returns the list of printed values (strings, whitespace-normalised).
    Files are sharded (<= chunk terms each) and compiled in parallel."""
    d = os.path.join(COQ, ".cases")
    os.makedirs(d, exist_ok=True)
    shards = [exprs[i:i + chunk] for i in range(0, len(exprs), chunk)] or [[]]
    paths = []
    for k, sh_exprs in enumerate(shards):
        lines = [preamble]
        for j, e in enumerate(sh_exprs):
            lines.append('Goal True. idtac "@@CASE %d". exact I. Qed.' % (k * chunk + j))
            lines.append("Eval vm_compute in (%s)." % e)
        lines.append('Goal True. idtac "@@END". exact I. Qed.')
        p = os.path.join(d, "%s_%d.v" % (name, k))
        with open(p, "w") as f:
            f.write("\n".join(lines) + "\n")
        paths.append(p)
    procs = []
    results = {}
    t0 = time.time()
    pending = list(paths)
    running = []
    outs = {}
    while pending or running:
        while pending and len(running) < NPROC:
            p = pending.pop(0)
            # output goes to a file: a pipe nobody reads until exit blocks coqc once 64 KiB are printed
            running.append((p, subprocess.Popen(["coqc", "-Q", COQ, "V", "-w", "none", p], cwd=d, stdout=open(p[:-2] + ".out", "w"), stderr=subprocess.STDOUT, text=True)))
        still = []
        for p, pr in running:
            if pr.poll() is None:
                if time.time() - t0 > timeout:
                    pr.kill()
                    raise RuntimeError("coq_eval timeout on " + p)
                still.append((p, pr))
            else:
                with open(p[:-2] + ".out") as fh:
                    outs[p] = (pr.returncode, fh.read())
        running = still
        if running:
            time.sleep(0.05)
    vals = {}
    for p in paths:
        rc, out = outs[p]
        if rc != 0:
            raise RuntimeError("coq_eval failed on %s:\n%s" % (p, out[-3000:]))
        cur, buf = None, []
        for line in out.split("\n"):
            if line.startswith("@@CASE ") or line.startswith("@@END"):
                if cur is not None:
                    vals[cur] = _strip_eval(" ".join(buf))
                cur = int(line[7:]) if line.startswith("@@CASE ") else None
                buf = []
            elif cur is not None:
                buf.append(line.strip())
    for p in paths:
        for ext in (".v", ".vo", ".vok", ".vos", ".glob", ".out"):
            try:
                os.remove(p[:-2] + ext)
            except OSError:
                pass
        try:
            os.remove(os.path.join(d, "." + os.path.basename(p)[:-2] + ".aux"))
        except OSError:
            pass
    return [vals.get(i) for i in range(len(exprs))]


def _strip_eval(s):
    s = re.sub(r"\s+", " ", s).strip()
    if s.startswith("= "):
        s = s[2:]
    # drop the trailing ": type"
    depth = 0
    cut = None
    for i, ch in enumerate(s):
        if ch in "([":
            depth += 1
        elif ch in ")]":
            depth -= 1
        elif ch == ":" and depth == 0 and s[i - 1:i] == " " and s[i + 1:i + 2] == " ":
            cut = i
    return s[:cut].strip() if cut else s


def coq_string(s):
    """Coq string literal for an arbitrary (byte-transparent) Python str; non-ASCII is UTF-8 encoded bytewise."""
    out = []
    for b in s.encode("utf8"):
        if b == 34:
            out.append('""')
        elif 32 <= b < 127:
            out.append(chr(b))
        else:
            return "(" + " ++ ".join(_coq_string_pieces(s.encode("utf8"))) + ")"
    return '"' + "".join(out) + '"'


def _coq_string_pieces(bs):
    pieces, cur = [], []
    for b in bs:
        if 32 <= b < 127:
            cur.append('""' if b == 34 else chr(b))
        else:
            if cur:
                pieces.append('"' + "".join(cur) + '"')
                cur = []
            pieces.append('(String (Ascii.ascii_of_nat %d) EmptyString)' % b)
    if cur:
        pieces.append('"' + "".join(cur) + '"')
    return pieces or ['""']


# ---------------------------------------------------------------------------------------------
# known findings
# ---------------------------------------------------------------------------------------------

def load_findings(prop):
    path = os.path.join(VERIF, "known_findings.json")
    try:
        data = json.load(open(path))
    except FileNotFoundError:
        return []
    return [e for e in data.get("findings", []) if e.get("property") == prop]


class Check:
    """One run of one property's check."""

    def __init__(self, prop, tier, seed):
        self.prop, self.tier, self.seed = prop, tier, seed
        self.rng = random.Random(seed)
        self.t0 = time.time()
        self.obligations = []          # dicts: name, kind (theorem|generated|translator|correspondence), ok, detail
        self.violations = []           # dicts: what, replay, found_input
        self.known_hits = {}           # finding id -> (what, count)
        self.coverage = {}
        self.samples = []
        self.trusted = []
        self.assumptions = []
        self.findings = load_findings(prop)
        self.open_findings = {e["id"]: e for e in self.findings if e.get("status") == "open"}
        self.notes = []
        self.checker_cmd = "make -C /verif/coq Props/%s.vo (full .vo build) + coqc Print Assumptions audit" % prop

    # -- obligations ------------------------------------------------------------------------
    def obligation(self, name, ok, kind="theorem", detail=""):
        self.obligations.append({"name": name, "kind": kind, "ok": bool(ok), "detail": detail[-1500:] if detail else ""})
        return ok

    def broken(self):
        return [o for o in self.obligations if not o["ok"]]

    # -- findings ---------------------------------------------------------------------------
    def known(self, fid, what=None):
        """Record that a listed open finding was reproduced on this run."""
        e = self.open_findings.get(fid)
        if e is None:
            return False
        w, c = self.known_hits.get(fid, (what or e.get("what_fails", ""), 0))
        self.known_hits[fid] = (w, c + 1)
        return True

    def is_open(self, fid):
        return fid in self.open_findings

    def violation(self, what, replay, found_input=True):
        """Register a violation; `replay` is a JSON-serialisable object describing how to reproduce it."""
        body = {"property": self.prop, "what": what, "found_failing_input": bool(found_input), "seed": self.seed, "tier": self.tier,
                "replay_cmd": "./check %s --replay <this file>" % self.prop, "replay": replay}
        blob = json.dumps(body, sort_keys=True, default=str)
        h = hashlib.sha1(blob.encode()).hexdigest()[:10]
        os.makedirs(os.path.join(VERIF, "replays"), exist_ok=True)
        rel = "replays/%s-%s.json" % (self.prop, h)
        with open(os.path.join(VERIF, rel), "w") as f:
            json.dump(body, f, indent=1, sort_keys=True, default=str)
        self.violations.append({"what": what, "replay": rel, "found_input": bool(found_input)})
        return rel

    # -- coq --------------------------------------------------------------------------------
    def build_props(self, module=None, extra_targets=()):
        """Build Props/<module>.vo; register one obligation per theorem in it, audited with Print Assumptions."""
        module = module or self.prop
        vfile = "Props/%s.v" % module
        names = theorems_of(vfile)
        ok, log = coq_make(["Props/%s.vo" % module] + list(extra_targets))
        if not ok:
            loc = failing_location(log)
            detail = log[-2500:]
            where = "%s:%s (%s)" % loc if loc else "unknown location"
            # a failure in a dependency breaks every theorem of the file; a failure inside the file breaks that theorem and those after it
            hit = False
            for n in names:
                if loc and loc[0] == vfile and loc[2] == n:
                    hit = True
                failed = (loc is None) or (loc[0] != vfile) or hit
                self.obligation(n, not failed, "theorem", "build failed at %s\n%s" % (where, detail) if failed else "")
            self.build_log = log
            self.build_fail = loc
            return False
        res, out = print_assumptions(module, names)
        if res is None:
            for n in names:
                self.obligation(n, False, "theorem", "Print Assumptions failed:\n" + out[-1500:])
            return False
        all_ok = True
        for n in names:
            ax = res.get(n, ["<missing>"])
            bad = [a for a in ax if a not in ALLOWED_AXIOMS]
            self.obligation(n, not bad, "theorem", ("depends on non-allowed axioms: " + ", ".join(bad)) if bad else "")
            for a in ax:
                if a in ALLOWED_AXIOMS and a not in self.assumptions:
                    self.assumptions.append("axiom " + a)
            all_ok = all_ok and not bad
        self.build_fail = None
        return all_ok

    # -- finishing --------------------------------------------------------------------------
    def finish(self):
        wall = time.time() - self.t0
        broken = self.broken()
        # A broken obligation with no violation registered for it is still a violation (no failing input found).
        if broken and not any(True for v in self.violations):
            self.violation("proof obligation / correspondence no longer checks: " + "; ".join(o["name"] for o in broken),
                           {"broken_obligations": broken}, found_input=False)
        cov = dict(self.coverage)
        cov.setdefault("evaluations", 0)
        cov.setdefault("distinct_nontrivial", 0)
        cov.setdefault("rule", "")
        cov["obligations"] = len(self.obligations)
        cov["discharged"] = len([o for o in self.obligations if o["ok"]])
        cov["obligation_list"] = [{"name": o["name"], "kind": o["kind"], "ok": o["ok"]} for o in self.obligations]
        cov["checker_cmd"] = self.checker_cmd
        cov["trusted_base"] = ["Coq 8.16.1 kernel (coqc, full .vo build, vm_compute; no native_compute)"] + self.trusted
        cov["samples"] = self.samples[:12] if self.samples else [{"note": "no sample recorded"}]
        cov["known_findings_reproduced"] = {k: {"what": w, "hits": c} for k, (w, c) in sorted(self.known_hits.items())}
        if self.notes:
            cov["notes"] = self.notes
        ev = {"property_id": self.prop, "tier": self.tier, "seed": self.seed, "level": "proof", "coverage": cov,
              "assumptions": self.assumptions, "wall_s": round(wall, 2), "violations": len(self.violations)}
        # evidence describes the tree the registered commands run on (/repo); a run against another tree (VERIF_REPO=..., used to try
        # seeded changes) must not overwrite it
        evdir = os.path.join(VERIF, "evidence") if os.path.realpath(REPO) == "/repo" else os.environ.get("VERIF_EVIDENCE_DIR", "/tmp/verif_evidence_other")
        os.makedirs(evdir, exist_ok=True)
        with open(os.path.join(evdir, "%s.json" % self.prop), "w") as f:
            json.dump(ev, f, indent=1, default=str)
        for fid, (w, c) in sorted(self.known_hits.items()):
            print("KNOWN-FINDING: property=%s %s %s" % (self.prop, fid, w))
        for fid, e in sorted(self.open_findings.items()):
            if fid not in self.known_hits:
                print("NOTE: listed finding %s was not reproduced on this run (%s)" % (fid, e.get("what_fails", "")))
        for v in self.violations[:5]:
            print("VIOLATION property=%s replay=%s%s" % (self.prop, v["replay"], "" if v["found_input"] else " no-failing-input-found"))
        if len(self.violations) > 5:
            print("(%d further violations of %s not printed; replay files are under replays/)" % (len(self.violations) - 5, self.prop))
        print("%s %s: obligations %d/%d, evaluations %d, violations %d, %.1fs" % (
            self.prop, self.tier, cov["discharged"], cov["obligations"], cov["evaluations"], len(self.violations), wall))
        sys.stdout.flush()
        return 1 if self.violations else 0


# ---------------------------------------------------------------------------------------------
# extracted OCaml drivers
# ---------------------------------------------------------------------------------------------

def build_driver(name, model_ml, driver_ml, extra_ml=()):
    """Concatenate the extracted model, Extract/zio.ml and the driver body into one file and compile it with ocamlopt.
    Rebuilt only when one of the inputs changed.  Returns the path of the executable."""
    ex = os.path.join(COQ, "Extract")
    out_dir = os.path.join(VERIF, ".build")
    os.makedirs(out_dir, exist_ok=True)
    # the extracted .ml is a by-product of compiling Extract/<X>.v: (re)build it when it is missing or older than its source
    vfile = {"cal_model.ml": "ExtractCal", "graph_model.ml": "ExtractGraph"}.get(model_ml)
    if vfile:
        vo = os.path.join(ex, vfile + ".vo")
        if not os.path.exists(os.path.join(ex, model_ml)) and os.path.exists(vo):
            os.remove(vo)
        ok, log = coq_make(["Extract/%s.vo" % vfile])
        if not ok or not os.path.exists(os.path.join(ex, model_ml)):
            raise RuntimeError("extraction of %s failed:\n%s" % (model_ml, log[-2000:]))
    parts = [os.path.join(ex, model_ml)]
    if "type positive" in open(parts[0]).read():
        parts.append(os.path.join(ex, "zio.ml"))
    parts += [os.path.join(ex, e) for e in extra_ml] + [os.path.join(ex, driver_ml)]
    text = "\n".join(open(p).read() for p in parts)
    main = os.path.join(out_dir, name + "_main.ml")
    exe = os.path.join(out_dir, name)
    with Lock(os.path.join(out_dir, ".lock")):
        if write_if_changed(main, text) or not os.path.exists(exe):
            rc, out = sh("ulimit -s unlimited; ocamlfind ocamlopt -O2 -w -a %s -o %s" % (main, exe), timeout=600, cwd=out_dir)
            if rc != 0 or not os.path.exists(exe):
                raise RuntimeError("ocamlopt failed for %s:\n%s" % (name, out[-3000:]))
    return exe


def run_driver(exe, lines, timeout=900):
    p = subprocess.run("ulimit -s unlimited; exec " + exe, shell=True, input="\n".join(lines) + "\n", capture_output=True, text=True, timeout=timeout)
    if p.returncode != 0:
        raise RuntimeError("driver %s failed: %s" % (exe, p.stderr[-2000:]))
    return p.stdout.split("\n")[:-1]


def regen_small(c, which):
    """Gen/Small_gen.v (behaviour tables of four small text-building methods of SQLGenerator): regenerate and validate the interpreter against CPython.
    `which` names the table the calling property uses (for the obligation text)."""
    from translator import gen_small
    try:
        write_if_changed(os.path.join(COQ, "Gen", "Small_gen.v"), gen_small.generate(REPO))
        c.obligation("translator: behaviour table of %s regenerated (Gen/Small_gen.v)" % which, True, "translator")
        same = gen_small.tables(REPO) == gen_small.tables(REPO, real=True)
        c.obligation("translator validation: interpreted %s == the real method under CPython on the same scripted inputs" % which, same, "translator")
    except Exception as e:
        c.obligation("translator: behaviour table of %s regenerated (Gen/Small_gen.v)" % which, False, "translator", repr(e)[-900:])
    t = "translator/pyinterp.py + gen_small.py (fail-closed definitional interpreter; sqlglot's parser / identifier quoting and `re` are scripted; validated against CPython each run)"
    if t not in c.trusted:
        c.trusted.append(t)


def regen_cte(c):
    """Gen/CteShape_gen.v (what _build_model_cte projects on 476 scripted worlds x queries): regenerate and validate the interpreter against CPython."""
    from translator import gen_cte
    try:
        write_if_changed(os.path.join(COQ, "Gen", "CteShape_gen.v"), gen_cte.generate(REPO))
        c.obligation("translator: projection of a model CTE (_build_model_cte with _find_needed_dimensions, 476 scripted worlds x queries) regenerated (Gen/CteShape_gen.v)", True, "translator")
        same = gen_cte.table(REPO) == gen_cte.table(REPO, real=True)
        c.obligation("translator validation: interpreted _build_model_cte == the real method under CPython on the same scripted worlds", same, "translator")
    except Exception as e:
        c.obligation("translator: projection of a model CTE (_build_model_cte) regenerated (Gen/CteShape_gen.v)", False, "translator", repr(e)[-900:])
    t = ("translator/pyinterp.py + gen_cte.py (fail-closed definitional interpreter; the model / relationship / metric objects, sqlglot's parser and printer, sql_has_aggregate, "
         "_quote_alias, _quote_identifier, _date_trunc and _join_conjuncts are scripted; the text -> (items, FROM, WHERE) splitter is trusted; validated against CPython each run)")
    if t not in c.trusted:
        c.trusted.append(t)


def regen_refrewrite(c):
    """Gen/RefRewrite_gen.v (the two reference-rewriting helpers of SQLGenerator on scripted texts): regenerate and validate the interpreter against CPython."""
    from translator import gen_refrewrite
    try:
        write_if_changed(os.path.join(COQ, "Gen", "RefRewrite_gen.v"), gen_refrewrite.generate(REPO))
        c.obligation("translator: _rewrite_model_refs_to_ctes / _rewrite_filter_for_preaggregation on scripted texts regenerated (Gen/RefRewrite_gen.v)", True, "translator")
        c.obligation("translator validation: interpreted reference-rewriting helpers == the real methods under CPython on the same texts", gen_refrewrite.tables(REPO) == gen_refrewrite.tables(REPO, real=True), "translator")
    except Exception as e:
        c.obligation("translator: reference-rewriting helpers regenerated (Gen/RefRewrite_gen.v)", False, "translator", repr(e)[-900:])
    t = "translator/pyinterp.py + gen_refrewrite.py (fail-closed definitional interpreter; sqlglot's parser / printer / to_identifier are scripted, `re` is the real module; validated against CPython each run)"
    if t not in c.trusted:
        c.trusted.append(t)
