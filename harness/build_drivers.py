"""Compile the extracted OCaml drivers (used by setup.sh; checks rebuild them on demand when the extraction changed)."""
from harness import lib

DRIVERS = [
    ("cal_driver", "cal_model.ml", "cal_driver.ml"),
    ("graph_driver", "graph_model.ml", "graph_driver.ml"),
]


def main():
    for name, model, drv in DRIVERS:
        lib.build_driver(name, model, drv)
        print("built", name)


if __name__ == "__main__":
    main()
