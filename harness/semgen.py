"""Shared generator / renderers for the Sem-based checks (C01-C08): a tiny expression AST rendered to SQL text (for the
real code) and to Gallina terms (for the model), values, Coq `show` functions and their Python parsers."""
import math
from fractions import Fraction

from harness import lib

# data columns of the generated tables:  c0..c3 BIGINT (nullable), s0 VARCHAR (nullable), id BIGINT, id2 VARCHAR
NC = 4
COLS = ["c0", "c1", "c2", "c3", "s0", "id", "id2"]
COLTYPES = ["bigint"] * 4 + ["varchar", "bigint", "varchar"]
S0, ID, ID2 = 4, 5, 6
CMPS = {"=": "CEq", "<>": "CNe", "<": "CLt", "<=": "CLe", ">": "CGt", ">=": "CGe"}
AGGS = ["sum", "count", "count_distinct", "avg", "min", "max", "median", "stddev"]
COQ_AGG = {"sum": "ASum", "count": "ACount", "count_distinct": "ACountDistinct", "avg": "AAvg", "min": "AMin", "max": "AMax",
           "median": 'AOther "median"', "stddev": 'AOther "stddev"', "variance": 'AOther "variance"'}


def col(i):
    return ("col", i)


def lit(v):
    return ("lit", v)


def sql(e, q=""):
    k = e[0]
    if k == "col":
        return f"{q}{COLS[e[1]]}"
    if k == "dref":      # reference to dimension number e[1] BY NAME (its expression e[2] is what the reference semantics sees)
        return f"{q}d{e[1]}"
    if k == "lit":
        v = e[1]
        return "NULL" if v is None else ("'%s'" % v.replace("'", "''") if isinstance(v, str) else str(v))
    if k in ("add", "sub", "mul"):
        return f"({sql(e[1], q)} {dict(add='+', sub='-', mul='*')[k]} {sql(e[2], q)})"
    if k == "cmp":
        return f"({sql(e[2], q)} {e[1]} {sql(e[3], q)})"
    if k in ("and", "or"):
        return f"({sql(e[1], q)} {k.upper()} {sql(e[2], q)})"
    if k == "not":
        return f"(NOT {sql(e[1], q)})"
    if k == "isnull":
        return f"({sql(e[1], q)} IS NULL)"
    if k == "in":
        return f"({sql(e[1], q)} IN ({', '.join(sql(lit(v)) for v in e[2])}))"
    if k == "between":
        return f"({sql(e[1], q)} BETWEEN {sql(e[2], q)} AND {sql(e[3], q)})"
    raise ValueError(k)


def coq_val(v):
    if v is None:
        return "VNull"
    if isinstance(v, bool):
        return "(VBool %s)" % ("true" if v else "false")
    if isinstance(v, int):
        return "(VInt (%d))" % v
    return "(VStr %s)" % lib.coq_string(v)


def sql_top(e, q=""):
    """like sql() without the outermost parentheses (a definition written the way users write it: amount - discount)"""
    t = sql(e, q)
    return t[1:-1] if e[0] in ("add", "sub", "mul", "cmp", "and", "or") and t.startswith("(") and t.endswith(")") else t


def coq(e):
    k = e[0]
    if k == "dref":
        return coq(e[2])
    if k == "col":
        return f"(Col {e[1]})"
    if k == "lit":
        return f"(Lit {coq_val(e[1])})"
    if k in ("add", "sub", "mul"):
        return f"({k.capitalize()} {coq(e[1])} {coq(e[2])})"
    if k == "cmp":
        return f"(Cmp {CMPS[e[1]]} {coq(e[2])} {coq(e[3])})"
    if k in ("and", "or"):
        return f"({k.capitalize()} {coq(e[1])} {coq(e[2])})"
    if k == "not":
        return f"(Not {coq(e[1])})"
    if k == "isnull":
        return f"(IsNull {coq(e[1])})"
    if k == "in":
        return f"(InList {coq(e[1])} [{'; '.join(coq_val(v) for v in e[2])}])"
    if k == "between":
        return f"(Between {coq(e[1])} {coq(e[2])} {coq(e[3])})"
    if k == "tdim":      # time dimension  TIMESTAMP '2024-01-15' + <column e[2]> * INTERVAL 20 DAY  requested at granularity e[1]
        return f"(Trunc {TD_GRAN[e[1]]} (Add (Lit (VInt {TD_BASE_US})) (Mul (Col {e[2]}) (Lit (VInt {TD_STEP_US})))))"
    if k == "tdim2":     # TIMESTAMP '2024-01-29' + <column e[2]> * INTERVAL 2 DAY  requested at granularity e[1]
        return f"(Trunc {TD_GRAN[e[1]]} (Add (Lit (VInt {TD2_BASE_US})) (Mul (Col {e[2]}) (Lit (VInt {TD2_STEP_US})))))"
    raise ValueError(k)


TD2_BASE_US = 1706486400000000     # 2024-01-29 00:00:00 (a Monday)
TD2_STEP_US = 2 * 86400000000      # 2 days: 0, 1, 2 -> Jan 29, Jan 31, Feb 2 -- ONE ISO week in TWO months
TD_BASE_US = 1705276800000000      # 2024-01-15 00:00:00
TD_STEP_US = 20 * 86400000000     # 20 days
TD_GRAN = {"day": "Day", "week": "Week", "month": "Month", "quarter": "Quarter", "year": "Year"}


def coq_rows(rows):
    return "[" + "; ".join("[" + "; ".join(coq_val(x) for x in r) + "]" for r in rows) + "]"


def gen_num(rnd, d=0):
    r = rnd.random()
    if d >= 2 or r < 0.55:
        return col(rnd.randrange(NC))
    if r < 0.65:
        return lit(rnd.choice([0, 1, -2, 3]))
    return (rnd.choice(["add", "sub", "mul"]), gen_num(rnd, d + 1), gen_num(rnd, d + 1))


def gen_dim(rnd):
    return col(S0) if rnd.random() < 0.3 else gen_num(rnd)


def gen_pred(rnd, d=0):
    r = rnd.random()
    if d >= 2 or r < 0.45:
        return ("cmp", rnd.choice(list(CMPS)), col(rnd.randrange(NC)), lit(rnd.choice([0, 1, 2, 3])))
    if r < 0.53:
        return ("cmp", rnd.choice(["=", "<>", "<", ">="]), col(S0), lit(rnd.choice(["a", "b", "it's", "b c"])))
    if r < 0.60:
        return ("isnull", col(rnd.choice([0, 1, 2, 3, S0])))
    if r < 0.67:
        return ("in", col(rnd.randrange(NC)), [rnd.choice([0, 1, 2, 3, None]) for _ in range(rnd.randint(1, 3))])
    if r < 0.73:
        return ("between", col(rnd.randrange(NC)), lit(rnd.choice([0, 1])), lit(rnd.choice([1, 2, 3])))
    if r < 0.82:
        return ("not", gen_pred(rnd, d + 1))
    return (rnd.choice(["and", "or"]), gen_pred(rnd, d + 1), gen_pred(rnd, d + 1))


def gen_rows(rnd, n=None):
    n = rnd.choice([0, 1, 2, 5, 8, 12]) if n is None else n
    return [[rnd.choice([None, 0, 1, 1, 2, 3, -1]) for _ in range(NC)] + [rnd.choice([None, "a", "a", "b", "b c", "it's"]), i + 1, rnd.choice(["k", "k|", "|k", "m"]) + str(i)] for i in range(n)]


SHOW = """
Definition sz (z : Z) : string := NilZero.string_of_int (Z.to_int z).
Definition hexd (n : nat) : string := String (Ascii.ascii_of_nat (if Nat.ltb n 10 then 48 + n else 87 + n)) EmptyString.
Fixpoint hexs (s : string) : string :=
  match s with EmptyString => EmptyString | String c r => let n := Ascii.nat_of_ascii c in hexd (Nat.div n 16) ++ hexd (Nat.modulo n 16) ++ hexs r end.
Definition sv (v : val) : string :=
  match v with VNull => "N" | VInt z => sz z | VRat a d => sz a ++ "/" ++ sz (Zpos d) | VStr s => "S" ++ hexs s | VBool true => "T" | VBool false => "F" end.
Definition sr (r : result) : string := match r with RVal v => sv v | RBag _ vs => "{" ++ String.concat " " (map sv vs) ++ "}" end.
Definition show (rows : list (list val * list result)) : string :=
  String.concat ";" (map (fun '(k, rs) => String.concat "," (map sv k) ++ "|" ++ String.concat "," (map sr rs)) rows).
"""


def unquote(s):
    """Coq prints a string value as "...." with inner quotes doubled"""
    s = s.strip()
    assert s.startswith('"') and s.endswith('"'), s[:80]
    return s[1:-1].replace('""', '"')


def parse_val(x):
    if x == "N":
        return None
    if x == "T":
        return True
    if x == "F":
        return False
    if x.startswith("S"):
        return bytes.fromhex(x[1:]).decode("utf8")
    if "/" in x:
        a, b = x.split("/")
        return Fraction(int(a), int(b))
    return int(x)


def parse_show(line):
    """-> list of (key values, metric cells) ; a metric cell is a value or ('bag', [values])"""
    out = []
    if line == "":
        return out
    for g in line.split(";"):
        k, r = g.split("|")
        cells = []
        for c in (r.split(",") if r else []):
            if c.startswith("{"):
                cells.append(("bag", [parse_val(x) for x in c[1:-1].split(" ") if x]))
            else:
                cells.append(parse_val(c))
        out.append(([parse_val(x) for x in k.split(",")] if k else [], cells))
    return out


_con = None


def duck():
    global _con
    if _con is None:
        import duckdb
        _con = duckdb.connect()
    return _con


def cell_matches(real_v, cell, agg):
    """compare an implementation value with a model/spec cell (exact for ints, numeric closeness for fractions; uninterpreted
    aggregates: DuckDB's own aggregate applied to the model's bag)"""
    import decimal
    if isinstance(real_v, decimal.Decimal):
        real_v = float(real_v)
    if isinstance(cell, tuple) and cell[0] == "bag":
        bag = [x for x in cell[1] if x is not None]
        fn = {"median": "median", "stddev": "stddev_samp", "variance": "var_samp"}.get(agg, agg)
        exp = duck().execute(f"select {fn}(x) from (select unnest(?::bigint[]) x)", [bag]).fetchone()[0]
        if exp is None or real_v is None:
            return exp is None and real_v is None
        return math.isclose(float(exp), float(real_v), rel_tol=1e-9, abs_tol=1e-9)
    if cell is None:
        return real_v is None
    if real_v is None:
        return False
    if isinstance(cell, Fraction):
        return math.isclose(float(cell), float(real_v), rel_tol=1e-9, abs_tol=1e-12)
    if isinstance(cell, bool) or isinstance(cell, str):
        return cell == real_v
    return float(cell) == float(real_v)


def sort_key(t):
    return [(x is None, str(type(x).__name__), x if x is not None else 0) for x in t]
