"""Regenerate the purely translated coq/Gen/*_gen.v from /repo's working tree (used by setup.sh; each check regenerates its own).
AdapterMaps_gen.v and Detect_gen.v also hold tables MEASURED by their checks (C12, C13): setup builds the committed copies and the
checks rewrite them on every run."""
import importlib
import os
import sys

from harness import lib

GENERATORS = {
    "GranCompat_gen": "translator.gen_grancompat",
    "RelKeys_gen": "translator.gen_relkeys",
    "Params_gen": "translator.gen_params",
    "AdjProg_gen": "translator.gen_adjprog",
    "SetIter_gen": "translator.gen_setiter",
    "LagOffset_gen": "translator.gen_lagoffset",
    "Derivable_gen": "translator.gen_derivable",
    "NativeFields_gen": "translator.gen_native",
    "Refresh_gen": "translator.gen_refresh",
    "SymAgg_gen": "translator.gen_symagg",
    "TimeDim_gen": "translator.gen_timedim",
    "Interp_gen": "translator.gen_interp",
    "Satisfy_gen": "translator.gen_satisfy",
    "Classify_gen": "translator.gen_classify",
    "MultiFact_gen": "translator.gen_multifact",
    "Validate_gen": "translator.gen_validate",
    "Materialize_gen": "translator.gen_materialize",
    "Required_gen": "translator.gen_required",
    "Effects_gen": "translator.gen_effects",
    "Small_gen": "translator.gen_small",
    "RewriterTable_gen": "translator.gen_rewriter",
    "TryRoute_gen": "translator.gen_tryroute",
    "MultiFactShape_gen": "translator.gen_mfshape",
    "Routed_gen": "translator.gen_routed",
    "CteShape_gen": "translator.gen_cte",
    "SqlValue_gen": "translator.gen_sqlvalue",
    "Inherit_gen": "translator.gen_inherit",
    "RefRewrite_gen": "translator.gen_refrewrite",
}


def regen(name):
    mod = importlib.import_module(GENERATORS[name])
    text = mod.generate(lib.REPO)
    lib.write_if_changed(os.path.join(lib.COQ, "Gen", name + ".v"), text)


def regen_translated(verbose=False):
    """every purely translated file, from the tree the checks run against.  Run at the start of EVERY check (2 s): a check must never build on a
    generated file left behind by a run against another state of the tree.  A failing translator keeps the previous file; the owning check reports it."""
    for name in GENERATORS:
        try:
            regen(name)
            if verbose:
                print("regenerated", name)
        except Exception as e:
            if verbose:
                print("TRANSLATOR FAILED for %s: %r (keeping the previous file)" % (name, e))


def regen_measured(verbose=False):
    """Detect_gen.v / AdapterMaps_gen.v also hold tables measured on the exporters' outputs: rebuilt here for setup, and by C13 / C12 on every run"""
    import shutil
    import tempfile
    try:
        from harness.props import c13
        from translator import gen_detect
        root = tempfile.mkdtemp(prefix="c13_setup_")
        try:
            c = lib.Check("C13", "quick", 1)
            markers = gen_detect.markers(lib.REPO)
            lib.write_if_changed(os.path.join(lib.COQ, "Gen", "Detect_gen.v"), gen_detect.generate(lib.REPO, c13.measure_signatures(c, markers, root)))
        finally:
            shutil.rmtree(root, ignore_errors=True)
        if verbose:
            print("regenerated Detect_gen (measured signatures)")
    except Exception as e:
        if verbose:
            print("Detect_gen not regenerated: %r (keeping the previous file)" % (e,))
    try:
        from harness.props import c12
        from translator import gen_adaptermaps
        c = lib.Check("C12", "quick", 1)
        measured = {k: c12.measured_agg_table(k) for k in c12.ADAPTERS}
        lib.write_if_changed(os.path.join(lib.COQ, "Gen", "AdapterMaps_gen.v"), gen_adaptermaps.generate(lib.REPO, measured, c.open_findings))
        if verbose:
            print("regenerated AdapterMaps_gen (measured round-trip tables)")
    except Exception as e:
        if verbose:
            print("AdapterMaps_gen not regenerated: %r (keeping the previous file)" % (e,))


def main():
    import warnings
    warnings.filterwarnings("ignore")
    regen_translated(verbose=True)
    regen_measured(verbose=True)
    return 0


if __name__ == "__main__":
    sys.exit(main())
