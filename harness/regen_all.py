"""Regenerate the purely translated coq/Gen/*_gen.v from /repo's working tree (used by setup.sh; each check regenerates its own).
AdapterMaps_gen.v and Detect_gen.v also hold tables MEASURED by their checks (C12, C13): setup builds the committed copies and the
checks rewrite them on every run."""
import importlib
import os
import sys

from harness import lib

GENERATORS = {
    "GranCompat_gen": "translator.gen_grancompat",
    "RelKeys_gen": "translator.gen_relkeys",
    "Params_gen": "translator.gen_params",
    "AdjProg_gen": "translator.gen_adjprog",
    "SetIter_gen": "translator.gen_setiter",
    "LagOffset_gen": "translator.gen_lagoffset",
    "Derivable_gen": "translator.gen_derivable",
    "NativeFields_gen": "translator.gen_native",
    "Refresh_gen": "translator.gen_refresh",
    "SymAgg_gen": "translator.gen_symagg",
    "TimeDim_gen": "translator.gen_timedim",
    "Interp_gen": "translator.gen_interp",
    "Satisfy_gen": "translator.gen_satisfy",
    "Classify_gen": "translator.gen_classify",
}


def regen(name):
    mod = importlib.import_module(GENERATORS[name])
    text = mod.generate(lib.REPO)
    lib.write_if_changed(os.path.join(lib.COQ, "Gen", name + ".v"), text)


def main():
    bad = 0
    for name in GENERATORS:
        try:
            regen(name)
            print("regenerated", name)
        except Exception as e:  # keep the committed file so that the rest of the development still builds
            bad += 1
            print("TRANSLATOR FAILED for %s: %r (keeping the previous file)" % (name, e))
    return 0


if __name__ == "__main__":
    sys.exit(main())
