#!/bin/bash
# MANIFEST.setup_cmd: offline build of the whole Coq development (full .vo) and the extracted drivers.
set -e
cd "$(dirname "$0")"
export PYTHONPATH="${VERIF_REPO:-/repo}:$(pwd)" PYTHONHASHSEED=0 PYTHONDONTWRITEBYTECODE=1
/venv/bin/python -m harness.regen_all
cd coq
coq_makefile -f _CoqProject -o Makefile
timeout 3000 make -j"$(nproc)"
cd ..
/venv/bin/python -m harness.build_drivers
echo "setup done"
