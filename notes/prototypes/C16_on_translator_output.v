From Coq Require Import ZArith String Ascii List Bool Lia.
Require Import C09.PyVal C09.Params_gen.
Open Scope string_scope.

Lemma sapp_assoc (a b c : string) : (a ++ b) ++ c = a ++ (b ++ c).
Proof. induction a as [|x a IH]; cbn; [reflexivity|]. rewrite IH. reflexivity. Qed.

Section C16.
Variable z_repr : Z -> string.
Variable float_parse : string -> option pyfloat.
Variable isalnum_char : ascii -> bool.
Notation fv := (format_value z_repr float_parse isalnum_char).

(* what the translated code computes for a string parameter *)
Lemma format_string_eq dflt s :
  fv (PStr "string") dflt (PStr s) = Ret (PStr ("'" ++ replace_char quote "''" s ++ "'")).
Proof. unfold format_value. cbn. reflexivity. Qed.

(* the lexer decodes an escaped body back to the original string and stops exactly at the closing quote *)
Lemma lex_body_escape s rest :
  (match rest with String c _ => Ascii.eqb c quote = false | EmptyString => True end) ->
  lex_body (replace_char quote "''" s ++ String quote rest) = Some (s, rest).
Proof.
  intros Hrest. induction s as [|c r IH]; cbn [replace_char append].
  - cbn. destruct rest as [|c2 r2]; [reflexivity|]. rewrite Hrest. reflexivity.
  - destruct (Ascii.eqb c quote) eqn:E.
    + apply Ascii.eqb_eq in E. subst c. cbn. rewrite IH. reflexivity.
    + cbn [append lex_body]. rewrite E. rewrite IH. reflexivity.
Qed.

(* C16_string: for EVERY string value, the formatted parameter lexes as exactly one SQL string literal
   whose content is the value, with nothing left over. *)
Theorem C16_string dflt s :
  exists t, fv (PStr "string") dflt (PStr s) = Ret (PStr t) /\ lex_string_literal t = Some (s, "").
Proof.
  eexists. split; [apply format_string_eq|].
  cbn [append lex_string_literal]. rewrite Ascii.eqb_refl.
  change ("'") with (String quote ""). apply lex_body_escape. exact I.
Qed.

(* ... and it stays one literal inside a larger filter text, provided the next character is not a quote *)
Corollary C16_string_in_context dflt s rest :
  (match rest with String c _ => Ascii.eqb c quote = false | EmptyString => True end) ->
  exists t, fv (PStr "string") dflt (PStr s) = Ret (PStr t) /\ lex_string_literal (t ++ rest) = Some (s, rest).
Proof.
  intros H. eexists. split; [apply format_string_eq|].
  rewrite !sapp_assoc. cbn [append lex_string_literal]. rewrite Ascii.eqb_refl.
  change ("'" ++ rest) with (String quote rest). apply lex_body_escape. exact H.
Qed.

(* the date type is NOT safe on the current tree: a value with a quote ends the literal early *)
Example C16_date_refuted dflt :
  exists s t, fv (PStr "date") dflt (PStr s) = Ret (PStr t) /\ lex_string_literal t <> Some (s, "").
Proof. exists "2024-02-01' OR '1'='1". eexists. split; [reflexivity|]. cbn. discriminate. Qed.

(* NaN passed as a float instance is rendered as the identifier nan *)
Example C16_nan_refuted dflt : fv (PStr "number") dflt (PFloat FNan) = Ret (PStr "nan").
Proof. reflexivity. Qed.
End C16.
Print Assumptions C16_string.
