From Coq Require Import ZArith List Bool Lia.
Import ListNotations.
Open Scope Z_scope.

Section Refresh.
Variable tr : Z -> Z.                      (* DATE_TRUNC(g, .) ; nothing about it is needed here *)

Record brow := { b_ts : Z; b_dim : Z; b_v : Z }.
Record rrow := { r_bucket : Z; r_dim : Z; r_sum : Z; r_cnt : Z }.
Notation key := (Z * Z)%type.
Definition key_eqb (a b : key) : bool := (fst a =? fst b) && (snd a =? snd b).
Lemma key_eqb_spec a b : reflect (a = b) (key_eqb a b).
Proof. unfold key_eqb. destruct a, b; cbn. destruct (Z.eqb_spec z z1), (Z.eqb_spec z0 z2); constructor; congruence. Qed.
Definition bkey (x : brow) : key := (tr (b_ts x), b_dim x).
Definition rkey (x : rrow) : key := (r_bucket x, r_dim x).

(* pointwise reading of tables *)
Definition zsum (l : list Z) : Z := fold_right Z.add 0 l.
Definition at_b (b : list brow) (k : key) : list brow := filter (fun x => key_eqb (bkey x) k) b.
Definition at_r (r : list rrow) (k : key) : list rrow := filter (fun x => key_eqb (rkey x) k) r.
Definition bsum b k := zsum (map b_v (at_b b k)).
Definition bcnt b k := Z.of_nat (length (at_b b k)).
Definition rows_at r k := Z.of_nat (length (at_r r k)).
Definition sum_at r k := zsum (map r_sum (at_r r k)).
Definition cnt_at r k := zsum (map r_cnt (at_r r k)).

(* GROUP BY: one row per distinct key, in first-occurrence order *)
Fixpoint first_occ (ks : list key) : list key :=
  match ks with [] => [] | k :: r => k :: filter (fun k' => negb (key_eqb k' k)) (first_occ r) end.
Definition materialize (b : list brow) : list rrow :=
  map (fun k => {| r_bucket := fst k; r_dim := snd k; r_sum := bsum b k; r_cnt := bcnt b k |}) (first_occ (map bkey b)).

Lemma first_occ_In ks k : In k (first_occ ks) <-> In k ks.
Proof.
  induction ks as [|a r IH]; cbn; [tauto|]. rewrite filter_In, IH. split.
  - intros [H|[H _]]; auto.
  - intros [H|H]; [auto|]. destruct (key_eqb_spec k a); [left; congruence | right; split; auto].
Qed.
Lemma first_occ_NoDup ks : NoDup (first_occ ks).
Proof.
  induction ks as [|a r IH]; cbn; constructor.
  - rewrite filter_In. intros [_ H]. destruct (key_eqb_spec a a); [discriminate|congruence].
  - apply NoDup_filter, IH.
Qed.

Lemma count_nodup (l : list key) k : NoDup l -> length (filter (fun k' => key_eqb k' k) l) = if in_dec (fun a b => reflect_dec _ _ (key_eqb_spec a b)) k l then 1%nat else 0%nat.
Proof.
  induction l as [|a r IH]; intros Hnd; [reflexivity|]. inversion Hnd; subst. cbn [filter].
  destruct (key_eqb_spec a k) as [->|Hne].
  - cbn [length]. rewrite IH by assumption.
    destruct (in_dec _ k r); [contradiction|]. destruct (in_dec _ k (k :: r)) as [|n0]; [reflexivity|exfalso; apply n0; left; reflexivity].
  - rewrite IH by assumption. destruct (in_dec _ k r) as [i1|n1], (in_dec _ k (a :: r)) as [i2|n2]; try reflexivity.
    + exfalso; apply n2; right; assumption.
    + destruct i2; [congruence|contradiction].
Qed.

Lemma at_r_materialize b k :
  at_r (materialize b) k = if (0 <? bcnt b k) then [{| r_bucket := fst k; r_dim := snd k; r_sum := bsum b k; r_cnt := bcnt b k |}] else [].
Proof.
  unfold at_r, materialize.
  assert (forall l, NoDup l ->
     filter (fun x => key_eqb (rkey x) k) (map (fun k0 => {| r_bucket := fst k0; r_dim := snd k0; r_sum := bsum b k0; r_cnt := bcnt b k0 |}) l)
     = if in_dec (fun a b => reflect_dec _ _ (key_eqb_spec a b)) k l then [{| r_bucket := fst k; r_dim := snd k; r_sum := bsum b k; r_cnt := bcnt b k |}] else []) as G.
  { induction l as [|a r IH]; intros Hnd; [reflexivity|]. inversion Hnd; subst. cbn [map filter]. unfold rkey at 1. cbn [r_bucket r_dim].
    replace (fst a, snd a) with a by (destruct a; reflexivity).
    destruct (key_eqb_spec a k) as [->|Hne].
    - rewrite IH by assumption. destruct (in_dec _ k r); [contradiction|]. destruct (in_dec _ k (k :: r)) as [|n0]; [reflexivity|exfalso; apply n0; left; reflexivity].
    - rewrite IH by assumption. destruct (in_dec _ k r) as [i1|n1], (in_dec _ k (a :: r)) as [i2|n2]; try reflexivity.
      + exfalso; apply n2; right; assumption.
      + destruct i2; [congruence|contradiction]. }
  rewrite (G _ (first_occ_NoDup _)).
  destruct (in_dec _ k (first_occ (map bkey b))) as [i|n].
  - apply first_occ_In, in_map_iff in i. destruct i as (x & Hx & Hin).
    assert (0 < bcnt b k) as Hpos.
    { unfold bcnt, at_b. assert (In x (filter (fun x0 => key_eqb (bkey x0) k) b)) as Hf by (apply filter_In; split; [assumption|rewrite Hx; destruct (key_eqb_spec k k); congruence]).
      destruct (filter (fun x0 => key_eqb (bkey x0) k) b); [destruct Hf|cbn; lia]. }
    apply Z.ltb_lt in Hpos. rewrite Hpos. reflexivity.
  - assert (bcnt b k = 0) as Hz.
    { unfold bcnt, at_b. destruct (filter (fun x0 => key_eqb (bkey x0) k) b) as [|x l] eqn:E; [reflexivity|].
      exfalso. apply n, first_occ_In, in_map_iff. exists x.
      assert (In x (filter (fun x0 => key_eqb (bkey x0) k) b)) as Hf by (rewrite E; left; reflexivity).
      apply filter_In in Hf. destruct Hf as [Hin Hk]. split; [destruct (key_eqb_spec (bkey x) k); [assumption|discriminate]|assumption]. }
    rewrite Hz. reflexivity.
Qed.

(* r is (pointwise) the materialisation of b *)
Definition approx (r : list rrow) (b : list brow) : Prop :=
  forall k, rows_at r k = (if 0 <? bcnt b k then 1 else 0) /\ sum_at r k = bsum b k /\ cnt_at r k = bcnt b k.

Theorem full_correct b : approx (materialize b) b.
Proof.
  intros k. unfold rows_at, sum_at, cnt_at. rewrite at_r_materialize.
  destruct (0 <? bcnt b k) eqn:E.
  - cbn [length map r_sum r_cnt]. unfold zsum. cbn [fold_right]. repeat split; lia.
  - apply Z.ltb_ge in E. cbn [length map]. unfold zsum at 1 2. cbn [fold_right].
    assert (at_b b k = []) as Hz.
    { unfold bcnt in E. destruct (at_b b k); [reflexivity|cbn in E; lia]. }
    unfold bsum, bcnt. rewrite Hz. cbn. repeat split; reflexivity.
Qed.

(* ---------- pointwise algebra of ++ and filter ---------- *)
Lemma zsum_nil : zsum [] = 0. Proof. reflexivity. Qed.
Lemma zsum_app l1 l2 : zsum (l1 ++ l2) = zsum l1 + zsum l2.
Proof. unfold zsum. induction l1; cbn; lia. Qed.
Lemma at_r_app r1 r2 k : at_r (r1 ++ r2) k = at_r r1 k ++ at_r r2 k.
Proof. apply filter_app. Qed.
Lemma at_b_app b1 b2 k : at_b (b1 ++ b2) k = at_b b1 k ++ at_b b2 k.
Proof. apply filter_app. Qed.

Lemma at_r_filter_bucket (p : Z -> bool) r k :
  at_r (filter (fun x => p (r_bucket x)) r) k = if p (fst k) then at_r r k else [].
Proof.
  unfold at_r. induction r as [|x r IH]; cbn [filter]; [destruct (p (fst k)); reflexivity|].
  destruct (p (r_bucket x)) eqn:Ep; cbn [filter]; destruct (key_eqb_spec (rkey x) k) as [<-|Hne]; cbn [rkey fst] in *.
  - rewrite Ep in *. f_equal. exact IH.
  - exact IH.
  - rewrite Ep in *. exact IH.
  - exact IH.
Qed.
Lemma at_b_filter_bucket (p : Z -> bool) b k :
  at_b (filter (fun x => p (tr (b_ts x))) b) k = if p (fst k) then at_b b k else [].
Proof.
  unfold at_b. induction b as [|x b IH]; cbn [filter]; [destruct (p (fst k)); reflexivity|].
  destruct (p (tr (b_ts x))) eqn:Ep; cbn [filter]; destruct (key_eqb_spec (bkey x) k) as [<-|Hne]; cbn [bkey fst] in *.
  - rewrite Ep in *. f_equal. exact IH.
  - exact IH.
  - rewrite Ep in *. exact IH.
  - exact IH.
Qed.
Lemma at_b_none b k : (forall x, In x b -> fst (bkey x) <> fst k) -> at_b b k = [].
Proof.
  intros H. unfold at_b. induction b as [|x b IH]; [reflexivity|]. cbn.
  destruct (key_eqb_spec (bkey x) k) as [E|_]; [exfalso; apply (H x (or_introl eq_refl)); rewrite E; reflexivity|].
  apply IH. intros; apply H; right; assumption.
Qed.

(* ---------- merge refresh: delete buckets >= w, recompute buckets >= w from the current base ---------- *)
Definition merge (w : Z) (r : list rrow) (b : list brow) : list rrow :=
  filter (fun x => r_bucket x <? w) r ++ materialize (filter (fun x => w <=? tr (b_ts x)) b).

(* if the rollup was right for the old base and every change since then lies in buckets >= w, merge yields the full rollup *)
Theorem merge_correct w r b_old new :
  approx r b_old -> (forall x, In x new -> w <= tr (b_ts x)) -> approx (merge w r (b_old ++ new)) (b_old ++ new).
Proof.
  intros Hr Hnew k. destruct (Hr k) as (R1 & R2 & R3).
  pose proof (full_correct (filter (fun x => w <=? tr (b_ts x)) (b_old ++ new)) k) as (M1 & M2 & M3).
  unfold merge, rows_at, sum_at, cnt_at in *. rewrite at_r_app, app_length, !map_app, !zsum_app, Nat2Z.inj_add.
  rewrite (at_r_filter_bucket (fun z => z <? w)).
  unfold bsum, bcnt in *. rewrite (at_b_filter_bucket (fun z => w <=? z)) in M1, M2, M3.
  rewrite at_b_app.
  destruct (Z.ltb_spec (fst k) w) as [Hlt|Hge].
  - (* bucket below the window: untouched; no new row lands there *)
    assert (at_b new k = []) as Hn by (apply at_b_none; intros x Hx; specialize (Hnew x Hx); cbn; lia).
    destruct (Z.leb_spec w (fst k)); [lia|]. rewrite Hn, app_nil_r. cbn [length map] in M1, M2, M3. rewrite zsum_nil in M2. change (Z.of_nat 0) with 0 in *.
    change (0 <? 0) with false in M1. cbv iota in M1. repeat split; lia.
  - (* bucket inside the window: old row dropped, recomputed from the whole current base *)
    destruct (Z.leb_spec w (fst k)); [|lia]. rewrite at_b_app in M1, M2, M3. cbn [length map]. rewrite !zsum_nil.
    repeat split; lia.
Qed.

(* idempotence: merging again without new data (any window) leaves a rollup that is still the full rollup *)
Corollary merge_idempotent w w' r b : approx r b -> approx (merge w' (merge w r b) b) b.
Proof.
  intros H. pose proof (merge_correct w r b [] H (fun x (F : In x []) => match F with end)) as H1. rewrite app_nil_r in H1.
  pose proof (merge_correct w' _ b [] H1 (fun x (F : In x []) => match F with end)) as H2. rewrite app_nil_r in H2. exact H2.
Qed.

(* ---------- incremental refresh with a bucket-level watermark predicate ---------- *)
Definition incremental (W : Z) (r : list rrow) (b : list brow) : list rrow :=
  r ++ materialize (filter (fun x => W <? tr (b_ts x)) b).

Theorem incremental_noop W r b : (forall x, In x b -> tr (b_ts x) <= W) -> incremental W r b = r.
Proof.
  intros H. unfold incremental.
  assert (filter (fun x => W <? tr (b_ts x)) b = []) as ->.
  { induction b as [|x b IH]; [reflexivity|]. cbn. destruct (Z.ltb_spec W (tr (b_ts x))); [specialize (H x (or_introl eq_refl)); lia|].
    apply IH. intros; apply H; right; assumption. }
  cbn. apply app_nil_r.
Qed.

Theorem incremental_in_order W r b_old new :
  approx r b_old -> (forall x, In x b_old -> tr (b_ts x) <= W) -> (forall x, In x new -> W < tr (b_ts x)) ->
  approx (incremental W r (b_old ++ new)) (b_old ++ new).
Proof.
  intros Hr Hold Hnew k. destruct (Hr k) as (R1 & R2 & R3).
  pose proof (full_correct (filter (fun x => W <? tr (b_ts x)) (b_old ++ new)) k) as (M1 & M2 & M3).
  unfold incremental, rows_at, sum_at, cnt_at in *. rewrite at_r_app, app_length, !map_app, !zsum_app, Nat2Z.inj_add.
  unfold bsum, bcnt in *. rewrite (at_b_filter_bucket (fun z => W <? z)) in M1, M2, M3. rewrite at_b_app in *.
  destruct (Z.ltb_spec W (fst k)) as [Hgt|Hle].
  - assert (at_b b_old k = []) as Ho by (apply at_b_none; intros x Hx; specialize (Hold x Hx); cbn; lia).
    rewrite Ho in *. cbn [app length map] in *. rewrite zsum_nil in R2. change (Z.of_nat 0) with 0 in *. change (0 <? 0) with false in R1. cbv iota in R1. repeat split; lia.
  - assert (at_b new k = []) as Hn by (apply at_b_none; intros x Hx; specialize (Hnew x Hx); cbn; lia).
    rewrite Hn, app_nil_r. cbn [length map] in M1, M2, M3. rewrite zsum_nil in M2. change (Z.of_nat 0) with 0 in *. change (0 <? 0) with false in M1. cbv iota in M1. repeat split; lia.
Qed.
End Refresh.

(* ---------- the CLI's incremental mode has no watermark predicate: a second run duplicates every row ---------- *)
Definition cli_incremental (tr : Z -> Z) (r : list rrow) (b : list brow) : list rrow := r ++ materialize tr b.
Example cli_incremental_refuted :
  let tr := fun z => z in
  let b := [ {| b_ts := 5; b_dim := 0; b_v := 10 |} ] in
  let r1 := cli_incremental tr [] b in
  rows_at (cli_incremental tr r1 b) (5, 0) = 2.
Proof. reflexivity. Qed.
Print Assumptions merge_correct.
Print Assumptions incremental_in_order.
