import warnings; warnings.filterwarnings("ignore")
import duckdb
from sidemantic.core.pre_aggregation import PreAggregation
con = duckdb.connect()
con.execute("create table orders(id int, amount int, created_at timestamp)")
con.execute("insert into orders values (1,10,'2024-01-05 10:00'),(2,20,'2024-01-05 11:00'),(3,5,'2024-01-06 12:00')")
p = PreAggregation(name="daily", measures=["revenue"], dimensions=[], time_dimension="created_at", granularity="day")
src = "SELECT DATE_TRUNC('day', created_at) as created_at_day, SUM(amount) as revenue_raw FROM orders WHERE created_at > {WATERMARK} GROUP BY 1"
for i in range(2):
    p.refresh(con, src, "t_incr", mode="incremental", watermark_column="created_at_day")
    print("incremental run", i+1, con.execute("select * from t_incr order by 1,2").fetchall())
full = "SELECT DATE_TRUNC('day', created_at) as created_at_day, SUM(amount) as revenue_raw FROM orders GROUP BY 1"
print("full            ", con.execute(full + " order by 1").fetchall())
# merge with month buckets and a lookback that is not a whole number of buckets
con.execute("create table ev(id int, amount int, ts timestamp)")
con.execute("insert into ev values (1,10,'2024-01-05'),(2,20,'2024-02-10'),(3,5,'2024-03-03')")
srcm = "SELECT DATE_TRUNC('month', ts) as ts_month, SUM(amount) as revenue_raw FROM ev WHERE ts >= {WATERMARK} GROUP BY 1"
pm = PreAggregation(name="monthly", measures=["revenue"], dimensions=[], time_dimension="ts", granularity="month")
pm.refresh(con, srcm, "t_m", mode="merge", watermark_column="ts_month", lookback="7 days")
print("merge run 1", con.execute("select * from t_m order by 1,2").fetchall())
con.execute("insert into ev values (4,7,'2024-02-27')")   # late row inside the lookback window (Mar 1 - 7 days = Feb 23)
pm.refresh(con, srcm, "t_m", mode="merge", watermark_column="ts_month", lookback="7 days")
print("merge run 2", con.execute("select * from t_m order by 1,2").fetchall())
print("full       ", con.execute("SELECT DATE_TRUNC('month', ts), SUM(amount) FROM ev GROUP BY 1 ORDER BY 1").fetchall())
