From Coq Require Import ZArith List Bool Lia String.
Require Import C09.Calendar C09.Floor C09.PyLib C09.GranCompat_gen.
Import ListNotations.
Open Scope string_scope.

Definition gran_of (s : string) : option gran :=
  if String.eqb s "hour" then Some Hour else if String.eqb s "day" then Some Day else
  if String.eqb s "week" then Some Week else if String.eqb s "month" then Some Month else
  if String.eqb s "quarter" then Some Quarter else if String.eqb s "year" then Some Year else None.
Definition trunc_s (s : string) (t : Z) : Z := match gran_of s with Some g => trunc g t | None => t end.

Lemma trunc_idem g t : trunc g (trunc g t) = trunc g t.
Proof. apply (floor_compose _ _ _ _ (trunc_floor g) (trunc_floor g)); auto. Qed.

Theorem C09_sound : forall q p, is_granularity_compatible q p = true ->
  forall t, trunc_s q (trunc_s p t) = trunc_s q t.
Proof.
  intros q p H t. unfold is_granularity_compatible in H.
  destruct (assoc_get GRANULARITY_HIERARCHY q) as [ql|] eqn:Eq;
  destruct (assoc_get GRANULARITY_HIERARCHY p) as [pl|] eqn:Ep; cbn [is_none orb] in H.
  - apply assoc_get_in in Eq. apply assoc_get_in in Ep. cbn in Eq, Ep.
    repeat (destruct Eq as [Eq|Eq]; [injection Eq as <- <-|]); try contradiction;
    repeat (destruct Ep as [Ep|Ep]; [injection Ep as <- <-|]); try contradiction;
    cbn in H; try discriminate; unfold trunc_s; cbn [gran_of String.eqb Ascii.eqb Bool.eqb];
    (apply (floor_compose _ _ _ _ (trunc_floor _) (trunc_floor _)); apply boundary_incl; exact I).
  - apply String.eqb_eq in H. subst p. congruence.
  - apply String.eqb_eq in H. subst p. congruence.
  - apply String.eqb_eq in H. subst p. unfold trunc_s. destruct (gran_of q); auto using trunc_idem.
Qed.

(* exactness on the known names: every refusal is justified by a witness timestamp *)
Definition known := ["hour"; "day"; "week"; "month"; "quarter"; "year"].
Definition witnesses : list Z := [1706745600000000 (* 2024-02-01 *); 1706832000000000 (* 2024-02-02 *); 1706835600000000 (* 2024-02-02 01:00 *); 1714521600000000 (* 2024-05-01 *) ; 1717286400000000 (* 2024-06-02 *); 1707955200000000 (* 2024-02-15 *); 1727740800000000 (* 2024-10-01 *); 1735689600000000 (* 2025-01-01 *)]%Z.
Definition refusal_justified (q p : string) : bool :=
  is_granularity_compatible q p || existsb (fun t => negb (Z.eqb (trunc_s q (trunc_s p t)) (trunc_s q t))) witnesses.
Theorem C09_exact : forallb (fun q => forallb (refusal_justified q) known) known = true.
Proof. vm_compute. reflexivity. Qed.
Print Assumptions C09_sound.
