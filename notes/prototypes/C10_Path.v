From Coq Require Import String List Bool Lia.
Require Import Graph Bfs.
Import ListNotations.
Open Scope string_scope.

Definition succ_of (g : graph) (a : string) : list (edge * string) := map (fun e => (e, e_to e)) (adj g a).

Inductive outcome := Path (p : list (string * edge * string)) | NoJoinPath | KeyErr.

Definition has_model (g : graph) (n : string) : bool := match lookup g n with Some _ => true | None => false end.

(* semantic_graph.py 267-323: equal names first, then the two KeyError checks, then BFS *)
Definition find_relationship_path (g : graph) (a b : string) : outcome :=
  if String.eqb a b then Path []
  else if negb (has_model g a) then KeyErr
  else if negb (has_model g b) then KeyErr
  else match find_path string String.eqb edge (succ_of g) (S (S (length g))) a b with
       | Found _ _ p => Path p
       | _ => NoJoinPath
       end.

From Coq Require Extraction ExtrOcamlBasic ExtrOcamlString.
Extraction Language OCaml.
Extraction "model.ml" find_relationship_path.
