From Coq Require Import String Ascii List Bool Lia.
Open Scope string_scope.

(* Python's str.replace(old, "") for a non-empty pattern: scan left to right, drop every non-overlapping occurrence *)
Fixpoint starts_with (p s : string) : bool :=
  match p, s with
  | EmptyString, _ => true
  | String a p', String b s' => Ascii.eqb a b && starts_with p' s'
  | String _ _, EmptyString => false
  end.
Fixpoint drop (n : nat) (s : string) : string := match n, s with O, _ => s | S k, String _ r => drop k r | S _, EmptyString => EmptyString end.

(* fuel = length of s is always enough; structurally recursive on fuel *)
Fixpoint remove_all (fuel : nat) (p s : string) : string :=
  match fuel with
  | O => s
  | S k => match s with
           | EmptyString => EmptyString
           | String c r => if starts_with p s then remove_all k p (drop (String.length p) s) else String c (remove_all k p r)
           end
  end.
Definition py_remove (p s : string) : string := remove_all (S (String.length s)) p s.

Definition CTE : string := "_cte".
Definition cte_name (m : string) : string := m ++ CTE.
Definition recover (n : string) : string := py_remove CTE n.

Fixpoint contains (p s : string) : bool :=
  match s with
  | EmptyString => starts_with p EmptyString
  | String _ r => starts_with p s || contains p r
  end.

(* no occurrence of "_cte" starts inside m ++ "_cte" before the final one, when m itself has none:
   a straddling match would need a proper suffix of m that is a prefix of "_cte" followed by the rest of "_cte",
   i.e. "_" ++ "cte" , "_c" ++ "te", "_ct" ++ "e" would have to be prefixes of "_cte" ++ ... : impossible since the 2nd..4th characters of "_cte" are not "_" *)
Lemma recover_cte_name_gen : forall fuel m,
  contains CTE m = false -> String.length m < fuel -> remove_all fuel CTE (m ++ CTE) = m.
Proof.
  induction fuel as [|fuel IH]; intros m Hc Hlen; [lia|].
  destruct m as [|c r].
  - (* m = "" : the whole string is the pattern *) cbn. destruct fuel; reflexivity.
  - cbn [append remove_all].
    cbn [contains] in Hc. apply orb_false_iff in Hc. destruct Hc as [Hs Hc].
    assert (starts_with CTE (String c (r ++ CTE)) = false) as Hs'.
    { (* a match at this position is either inside m (excluded by Hs) or straddles the boundary *)
      unfold CTE in *. cbn [starts_with] in *.
      destruct (Ascii.eqb "_" c) eqn:E0; [|reflexivity]. cbn [andb] in *.
      destruct r as [|c1 r1]; cbn [append starts_with] in *; [reflexivity|].
      destruct (Ascii.eqb "c" c1) eqn:E1; [|reflexivity]. cbn [andb] in *.
      destruct r1 as [|c2 r2]; cbn [append starts_with] in *; [reflexivity|].
      destruct (Ascii.eqb "t" c2) eqn:E2; [|reflexivity]. cbn [andb] in *.
      destruct r2 as [|c3 r3]; cbn [append starts_with] in *; [reflexivity|].
      destruct (Ascii.eqb "e" c3) eqn:E3; [|reflexivity]. cbn [andb] in *. discriminate. }
    rewrite Hs'. f_equal. apply IH; [exact Hc|cbn in Hlen; lia].
Qed.

(* C20_cte_inverse: the model name is recovered from its CTE alias whenever the name does not contain "_cte" *)
Theorem recover_cte_name m : contains CTE m = false -> recover (cte_name m) = m.
Proof.
  intros H. unfold recover, cte_name, py_remove. apply recover_cte_name_gen; [exact H|].
  assert (forall a b, String.length (a ++ b) = String.length a + String.length b) as L
    by (induction a; intros; cbn; [reflexivity|f_equal; auto]).
  rewrite L. cbn. lia.
Qed.

(* and it is NOT recovered when the name contains "_cte" *)
Example recover_refuted : recover (cte_name "x_cte_y") = "x_y".
Proof. reflexivity. Qed.
Print Assumptions recover_cte_name.
