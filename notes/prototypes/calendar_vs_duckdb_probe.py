# Python transliteration of Calendar.trunc vs DuckDB date_trunc on edge timestamps
import duckdb, random, datetime
UD=86400000000; UH=3600000000
def civil(z0):
    z=z0+719468; era=z//146097; doe=z-era*146097
    yoe=(doe-doe//1460+doe//36524-doe//146096)//365; y=yoe+era*400
    doy=doe-(365*yoe+yoe//4-yoe//100); mp=(5*doy+2)//153; d=doy-(153*mp+2)//5+1
    m=mp+3 if mp<10 else mp-9
    return (y+1 if m<=2 else y, m, d)
def dfc(y0,m,d):
    y=y0-1 if m<=2 else y0; era=y//400; yoe=y-era*400; mp=m-3 if m>2 else m+9
    doy=(153*mp+2)//5+d-1; doe=yoe*365+yoe//4-yoe//100+doy
    return era*146097+doe-719468
def truncd(g,z):
    y,m,d=civil(z)
    return {"hour":z,"day":z,"week":z-(z+3)%7,"month":z-(d-1),"quarter":dfc(y,3*((m-1)//3)+1,1),"year":dfc(y,1,1)}[g]
def trunc(g,t): return t//UH*UH if g=="hour" else truncd(g,t//UD)*UD
con=duckdb.connect()
rnd=random.Random(1)
ts=[]
for y in list(range(1,30))+list(range(1890,2110))+[1600,1700,1800,2400,9000]:
    for (m,d) in [(1,1),(2,28),(3,1),(3,31),(4,1),(6,30),(7,1),(9,30),(10,1),(12,28),(12,29),(12,30),(12,31)]:
        base=dfc(y,m,d)*UD
        ts += [base, base-1, base+1, base+UH*13+7]
ts += [rnd.randrange(-60000*UD, 60000*UD) for _ in range(20000)]
import pandas as pd
con.register("tt", pd.DataFrame({"us": ts}))
bad=0
for g in ["hour","day","week","month","quarter","year"]:
    rows=con.execute(f"select us, epoch_us(date_trunc('{g}', make_timestamp(us))) from tt").fetchall()
    for us,r in rows:
        if trunc(g,us)!=r:
            bad+=1
            if bad<5: print("MISMATCH",g,us,trunc(g,us),r)
print("points",len(ts),"mismatches",bad)
