From Coq Require Import String List Bool Lia.
Import ListNotations.
Open Scope string_scope.

Inductive rtype := M2O | O2O | O2M | M2M.
Definition invert (t : rtype) : rtype := match t with M2O => O2M | O2M => M2O | t => t end.
Lemma invert_invol t : invert (invert t) = t. Proof. destruct t; reflexivity. Qed.

Record rel := { r_name : string; r_type : rtype; r_fk : option (list string); r_pk : option (list string);
                r_through : option string; r_tfk : option string; r_rfk : option string }.
Record gmodel := { g_name : string; g_pk : list string; g_rels : list rel }.
Definition graph := list gmodel.
Record edge := { e_to : string; e_from_keys : list string; e_to_keys : list string; e_type : rtype }.

(* key defaults (relationship.py 61-85) *)
Definition fk_columns (r : rel) : list string :=
  match r_fk r with
  | Some l => l
  | None => match r_type r with M2O => [r_name r ++ "_id"] | _ => ["id"] end
  end.
Definition pk_columns (r : rel) : list string := match r_pk r with Some l => l | None => ["id"] end.
Definition junction_self (r : rel) : option string :=
  match r_tfk r with Some k => Some k | None => match r_fk r with Some [k] => Some k | _ => None end end.

Fixpoint lookup (g : graph) (n : string) : option gmodel :=
  match g with [] => None | m :: r => if String.eqb (g_name m) n then Some m else lookup r n end.

Definition mk (t : string) fk tk ty := {| e_to := t; e_from_keys := fk; e_to_keys := tk; e_type := ty |}.

(* the edges one relationship contributes, as (from, edge) pairs in insertion order (semantic_graph.py 213-265) *)
Definition rel_edges (g : graph) (m : gmodel) (r : rel) : list (string * edge) :=
  match lookup g (r_name r) with
  | None => []
  | Some related =>
      match r_type r with
      | M2M =>
          match (match r_through r with Some j => match lookup g j with Some _ => Some j | None => None end | None => None end) with
          | None =>
              match r_fk r with
              | None => []
              | Some _ => [ (g_name m, mk (r_name r) (g_pk m) (fk_columns r) O2M);
                            (r_name r, mk (g_name m) (fk_columns r) (g_pk m) M2O) ]
              end
          | Some j =>
              match junction_self r, r_rfk r with
              | Some sfk, Some rfk =>
                  let related_pk := match r_pk r with Some _ => pk_columns r | None => g_pk related end in
                  [ (g_name m, mk j (g_pk m) [sfk] O2M); (j, mk (g_name m) [sfk] (g_pk m) M2O);
                    (j, mk (r_name r) [rfk] related_pk M2O); (r_name r, mk j related_pk [rfk] O2M) ]
              | _, _ => []
              end
          end
      | M2O =>
          let local := fk_columns r in
          let remote := match r_pk r with Some _ => pk_columns r | None => g_pk related end in
          [ (g_name m, mk (r_name r) local remote M2O); (r_name r, mk (g_name m) remote local (invert M2O)) ]
      | t =>
          let local := g_pk m in let remote := fk_columns r in
          [ (g_name m, mk (r_name r) local remote t); (r_name r, mk (g_name m) remote local (invert t)) ]
      end
  end.

Definition all_edges (g : graph) : list (string * edge) :=
  flat_map (fun m => flat_map (rel_edges g m) (g_rels m)) g.
Definition adj (g : graph) (a : string) : list edge :=
  map snd (filter (fun p => String.eqb (fst p) a) (all_edges g)).

(* reverse of a directed edge *)
Definition rev (p : string * edge) : string * edge :=
  (e_to (snd p), mk (fst p) (e_to_keys (snd p)) (e_from_keys (snd p)) (invert (e_type (snd p)))).

Lemma rel_edges_closed g m r p : In p (rel_edges g m r) -> In (rev p) (rel_edges g m r).
Proof.
  unfold rel_edges. destruct (lookup g (r_name r)) as [related|]; [|intros []].
  destruct (r_type r) eqn:Et.
  - cbn. intros [<-|[<-|[]]]; cbn; auto.
  - cbn. intros [<-|[<-|[]]]; cbn; auto.
  - cbn. intros [<-|[<-|[]]]; cbn; auto.
  - destruct (match r_through r with Some j => match lookup g j with Some _ => Some j | None => None end | None => None end) as [j|].
    + destruct (junction_self r) as [sfk|]; [|intros []]. destruct (r_rfk r) as [rfk|]; [|intros []].
      cbn. intros [<-|[<-|[<-|[<-|[]]]]]; cbn; auto.
    + destruct (r_fk r); [|intros []]. cbn. intros [<-|[<-|[]]]; cbn; auto.
Qed.

(* C10_adj_symmetric: every edge has its reverse, with swapped keys and inverted cardinality *)
Theorem adj_symmetric g p : In p (all_edges g) -> In (rev p) (all_edges g).
Proof.
  unfold all_edges. intros H. apply in_flat_map in H. destruct H as (m & Hm & H).
  apply in_flat_map in H. destruct H as (r & Hr & H).
  apply in_flat_map. exists m. split; [exact Hm|]. apply in_flat_map. exists r. split; [exact Hr|].
  apply rel_edges_closed. exact H.
Qed.

Lemma adj_in g a e : In e (adj g a) <-> In (a, e) (all_edges g).
Proof.
  unfold adj. rewrite in_map_iff. split.
  - intros ([a' e'] & <- & H). apply filter_In in H. destruct H as [H E]. cbn in E. apply String.eqb_eq in E. subst. exact H.
  - intros H. exists (a, e). split; [reflexivity|]. apply filter_In. split; [exact H|]. cbn. apply String.eqb_refl.
Qed.

Corollary adj_symmetric' g a e : In e (adj g a) ->
  In (mk a (e_to_keys e) (e_from_keys e) (invert (e_type e))) (adj g (e_to e)).
Proof. intros H. apply adj_in. apply adj_in in H. exact (adj_symmetric g (a, e) H). Qed.

(* C10_edges_declared (shape): every edge comes from some declared relationship of some model *)
Theorem edges_declared g a e : In e (adj g a) -> exists m r, In m g /\ In r (g_rels m) /\ In (a, e) (rel_edges g m r).
Proof.
  intros H. apply adj_in in H. unfold all_edges in H. apply in_flat_map in H. destruct H as (m & Hm & H).
  apply in_flat_map in H. destruct H as (r & Hr & H). eauto.
Qed.
Print Assumptions adj_symmetric.
