From Coq Require Import ZArith List Bool Lia String.
Require Import C09.Calendar C09.Floor C09.GranCompat_gen.
Import ListNotations.
Open Scope string_scope.

Definition gran_of (s : string) : option gran :=
  if String.eqb s "hour" then Some Hour else if String.eqb s "day" then Some Day else
  if String.eqb s "week" then Some Week else if String.eqb s "month" then Some Month else
  if String.eqb s "quarter" then Some Quarter else if String.eqb s "year" then Some Year else None.

(* truncation by granularity *name*; names DuckDB would reject are modelled as the identity and can only be "compatible" with themselves *)
Definition trunc_s (s : string) (t : Z) : Z := match gran_of s with Some g => trunc g t | None => t end.

Lemma assoc_get_in {A} (l : list (string * A)) k v : assoc_get l k = Some v -> In (k, v) l.
Proof.
  induction l as [|[k' v'] r IH]; cbn; [discriminate|].
  destruct (String.eqb_spec k k'); intros H; [injection H as <-; subst; auto | right; auto].
Qed.

Lemma trunc_idem g t : trunc g (trunc g t) = trunc g t.
Proof. apply (floor_compose _ _ _ _ (trunc_floor g) (trunc_floor g)); auto. Qed.

Theorem C09_sound : forall q p, is_granularity_compatible q p = true ->
  forall t, trunc_s q (trunc_s p t) = trunc_s q t.
Proof.
  intros q p H t. unfold is_granularity_compatible in H.
  destruct (assoc_get GRANULARITY_HIERARCHY q) as [ql|] eqn:Eq;
  destruct (assoc_get GRANULARITY_HIERARCHY p) as [pl|] eqn:Ep.
  - apply assoc_get_in in Eq. apply assoc_get_in in Ep.
    cbn in Eq, Ep.
    repeat (destruct Eq as [Eq|Eq]; [injection Eq as <- <-|]); try contradiction;
    repeat (destruct Ep as [Ep|Ep]; [injection Ep as <- <-|]); try contradiction;
    cbn in H; try discriminate; unfold trunc_s; cbn [gran_of String.eqb Ascii.eqb Bool.eqb];
    (apply (floor_compose _ _ _ _ (trunc_floor _) (trunc_floor _)); apply boundary_incl; exact I).
  - apply String.eqb_eq in H. subst p. congruence.
  - apply String.eqb_eq in H. subst p. congruence.
  - apply String.eqb_eq in H. subst p. unfold trunc_s. destruct (gran_of q); auto using trunc_idem.
Qed.
Print Assumptions C09_sound.
