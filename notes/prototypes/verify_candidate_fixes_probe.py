import warnings, os, subprocess, sys; warnings.filterwarnings("ignore")
from sidemantic import SemanticLayer, Model, Dimension, Metric, Relationship
from sidemantic.core.parameter import Parameter
import sidemantic; print("using", sidemantic.__file__)
# C15
code = r'''
import warnings; warnings.filterwarnings("ignore")
from sidemantic import SemanticLayer, Model, Dimension, Metric, Relationship
L = SemanticLayer(auto_register=False)
A = Model(name="a", table="a", primary_key="id", dimensions=[Dimension(name="x", type="numeric")], metrics=[Metric(name="sx", agg="sum", sql="x"), Metric(name="cx", agg="count"), Metric(name="mx", agg="max", sql="x")], relationships=[Relationship(name="b", type="many_to_one", foreign_key="b_id")])
B = Model(name="b", table="b", primary_key="id", dimensions=[Dimension(name="y", type="numeric")], metrics=[Metric(name="sy", agg="sum", sql="y")], relationships=[Relationship(name="c", type="many_to_one", foreign_key="c_id")])
C = Model(name="c", table="c", primary_key="id", dimensions=[Dimension(name="name", type="categorical")], metrics=[Metric(name="sz", agg="sum", sql="z")])
for m in (A,B,C): L.add_model(m)
import hashlib; print(hashlib.md5(L.compile(metrics=["a.sx","a.cx","a.mx"], dimensions=["c.name"]).encode()).hexdigest())
'''
print("C15 digests:", {subprocess.run([sys.executable, "-c", code], env=dict(os.environ, PYTHONHASHSEED=str(s)), capture_output=True, text=True).stdout.strip() for s in range(8)})
# C17
L = SemanticLayer(auto_register=False); con = L.adapter.raw_connection
con.execute("create table s(id int, d date, cat varchar, v int)")
con.execute("insert into s values (1,'2024-01-01','a',1),(2,'2024-01-01','b',10),(3,'2024-01-02','a',2),(4,'2024-01-02','b',20),(5,'2024-01-03','a',3),(6,'2024-01-03','b',30)")
S = Model(name="s", table="s", primary_key="id", dimensions=[Dimension(name="d", type="time", granularity="day"), Dimension(name="cat", type="categorical"), Dimension(name="status", type="categorical", sql="cat")], metrics=[Metric(name="tv", agg="sum", sql="v")])
L.add_model(S); L.add_metric(Metric(name="run", type="cumulative", sql="s.tv"))
print("C17:", con.execute(L.compile(metrics=["run"], dimensions=["s.d","s.cat"], order_by=["s.cat","s.d"])).fetchall())
# C07/C20
try: L.compile(metrics=["s.tv"], dimensions=["s.status__month"]); print("C07: NOT rejected")
except Exception as e: print("C07:", type(e).__name__, str(e).splitlines()[-1][:110])
# C16
L.graph.add_parameter(Parameter(name="p", type="date")); L.graph.add_parameter(Parameter(name="n", type="number"))
print("C16 date:", [l.strip() for l in L.compile(metrics=["s.tv"], filters=["s.d >= {{ p }}"], parameters={"p": "2024-02-01' OR '1'='1"}).splitlines() if "WHERE" in l])
try: L.compile(metrics=["s.tv"], filters=["s.v > {{ n }}"], parameters={"n": float("nan")}); print("C16 nan: NOT rejected")
except Exception as e: print("C16 nan:", type(e).__name__, e)
