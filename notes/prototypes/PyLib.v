From Coq Require Import ZArith String List Bool.
Import ListNotations.
Fixpoint assoc_get {A} (l : list (string * A)) (k : string) : option A :=
  match l with [] => None | (k', v) :: r => if String.eqb k k' then Some v else assoc_get r k end.
Definition assoc_get_default {A} (l : list (string * A)) (k : string) (d : A) : A :=
  match assoc_get l k with Some v => v | None => d end.
Definition is_none {A} (o : option A) : bool := match o with None => true | Some _ => false end.
Definition opt_leb (a b : option Z) : bool := match a, b with Some x, Some y => Z.leb x y | _, _ => false end.
Lemma assoc_get_in {A} (l : list (string * A)) k v : assoc_get l k = Some v -> In (k, v) l.
Proof.
  induction l as [|[k' v'] r IH]; cbn; [discriminate|].
  destruct (String.eqb_spec k k'); intros H; [injection H as <-; subst; auto | right; auto].
Qed.
