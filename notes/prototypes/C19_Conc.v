From Coq Require Import List Arith Bool Lia.
Import ListNotations.

Section Conc.
Variable A : Type.
Variable good : A.          (* build_adjacency(models): what a serial call would use *)
Variable a0 : A.            (* whatever the shared dict holds before the first build *)
Variable empty : A.         (* the dict right after .clear() *)

Record shared := { val : A; dirty : bool }.
Record local := { pc : nat; loc : A; r1 : A; r2 : A }.
Definition done (l : local) : bool := Nat.eqb (pc l) 6.

(* one atomic step of a thread; [fixed] selects the program *)
Definition step_thread (fixed : bool) (sh : shared) (l : local) : shared * local :=
  match pc l with
  | 0 => (sh, {| pc := if dirty sh then 1 else 4; loc := loc l; r1 := r1 l; r2 := r2 l |})
  | 1 => if fixed
         then (sh, {| pc := 2; loc := good; r1 := r1 l; r2 := r2 l |})                       (* build into a local dict *)
         else ({| val := empty; dirty := dirty sh |}, {| pc := 2; loc := loc l; r1 := r1 l; r2 := r2 l |})   (* self._adjacency.clear() *)
  | 2 => if fixed
         then ({| val := loc l; dirty := dirty sh |}, {| pc := 3; loc := loc l; r1 := r1 l; r2 := r2 l |})   (* publish: one assignment *)
         else ({| val := good; dirty := dirty sh |}, {| pc := 3; loc := loc l; r1 := r1 l; r2 := r2 l |})    (* refill in place *)
  | 3 => ({| val := val sh; dirty := false |}, {| pc := 4; loc := loc l; r1 := r1 l; r2 := r2 l |})
  | 4 => (sh, {| pc := 5; loc := loc l; r1 := val sh; r2 := r2 l |})                        (* first read of the adjacency *)
  | 5 => if fixed
         then (sh, {| pc := 6; loc := loc l; r1 := r1 l; r2 := r1 l |})                       (* BFS keeps using its snapshot *)
         else (sh, {| pc := 6; loc := loc l; r1 := r1 l; r2 := val sh |})                     (* BFS re-reads self._adjacency *)
  | _ => (sh, l)
  end.

Definition state := (shared * list local)%type.
Fixpoint update (ls : list local) (i : nat) (l : local) : list local :=
  match ls, i with
  | [], _ => []
  | _ :: r, 0 => l :: r
  | x :: r, S j => x :: update r j l
  end.
Definition step (fixed : bool) (s : state) (i : nat) : state :=
  match nth_error (snd s) i with
  | None => s
  | Some l => let '(sh', l') := step_thread fixed (fst s) l in (sh', update (snd s) i l')
  end.
Definition run (fixed : bool) (sched : list nat) (s : state) : state := fold_left (step fixed) sched s.
Definition init (n : nat) : state :=
  ({| val := a0; dirty := true |}, repeat {| pc := 0; loc := a0; r1 := a0; r2 := a0 |} n).

(* ---------- safety of the fixed program: any number of threads, any schedule ---------- *)
Definition linv (sh : shared) (l : local) : Prop :=
  (pc l = 2 -> loc l = good) /\ (pc l = 3 -> val sh = good) /\ (pc l = 4 -> val sh = good) /\
  (pc l = 5 -> r1 l = good) /\ (pc l = 6 -> r1 l = good /\ r2 l = good) /\ pc l <= 6.
Definition Inv (s : state) : Prop :=
  (dirty (fst s) = false -> val (fst s) = good) /\ Forall (linv (fst s)) (snd s).

Lemma Forall_update {P : local -> Prop} ls i l : Forall P ls -> P l -> Forall P (update ls i l).
Proof. revert i; induction ls as [|x r IH]; intros i H Hl; cbn; [constructor|]. inversion H; subst. destruct i; constructor; auto. Qed.

Lemma nth_error_Forall {P : local -> Prop} ls i l : Forall P ls -> nth_error ls i = Some l -> P l.
Proof. intros H E. rewrite Forall_forall in H. apply H. eapply nth_error_In; eauto. Qed.

(* writes to [val] only ever store [good] once some thread is past pc 1, so other threads' facts survive *)
Lemma linv_mono sh sh' l : linv sh l -> (val sh = good -> val sh' = good) -> linv sh' l.
Proof. intros (H2 & H3 & H4 & H5 & H6 & H7) Hv. unfold linv. split; [exact H2|]. split; [intros E; apply Hv, H3, E|]. split; [intros E; apply Hv, H4, E|]. split; [exact H5|]. split; [exact H6|exact H7]. Qed.

Ltac slinv := unfold linv; cbn; repeat split; try lia; try (let H := fresh "HH" in intros H; try discriminate H).

Lemma step_inv s i : Inv s -> Inv (step true s i).
Proof.
  intros [Hd Hf]. unfold step. destruct s as [sh ls]. cbn [fst snd] in *.
  destruct (nth_error ls i) as [l|] eqn:E; [|split; assumption].
  pose proof (nth_error_Forall ls i l Hf E) as (L2 & L3 & L4 & L5 & L6 & L7).
  unfold step_thread.
  destruct (pc l) as [|[|[|[|[|[|[|n]]]]]]] eqn:Epc; cbn [fst snd]; try lia.
  - (* 0: read the flag *) split; [exact Hd|]. apply Forall_update; [exact Hf|].
    destruct (dirty sh) eqn:Ed; slinv; try (apply Hd; reflexivity).
  - (* 1: local build *) split; [exact Hd|]. apply Forall_update; [exact Hf|]. slinv; try reflexivity.
  - (* 2: publish *) rewrite (L2 eq_refl). split; [cbn; auto|].
    apply Forall_update.
    + eapply Forall_impl; [|exact Hf]. intros x Hx. eapply linv_mono; [exact Hx|]. cbn. auto.
    + slinv; try reflexivity.
  - (* 3: clear the flag *) split; [cbn; intros _; apply L3; reflexivity|].
    apply Forall_update.
    + eapply Forall_impl; [|exact Hf]. intros x Hx. eapply linv_mono; [exact Hx|]. cbn. auto.
    + slinv; try (apply L3; reflexivity).
  - (* 4: snapshot *) split; [exact Hd|]. apply Forall_update; [exact Hf|]. slinv; try (apply L4; reflexivity).
  - (* 5: BFS over the snapshot *) split; [exact Hd|]. apply Forall_update; [exact Hf|]. slinv; try (apply L5; reflexivity).
  - (* 6: done *) split; [exact Hd|]. apply Forall_update; [exact Hf|]. unfold linv; rewrite Epc; tauto.
Qed.

Lemma init_inv n : Inv (init n).
Proof.
  split; [cbn; discriminate|]. cbn. apply Forall_forall. intros l Hl. apply repeat_spec in Hl. subst.
  slinv.
Qed.

Theorem fixed_safe n sched l :
  In l (snd (run true sched (init n))) -> done l = true -> r1 l = good /\ r2 l = good.
Proof.
  assert (forall s, Inv s -> Inv (run true sched s)) as H.
  { induction sched as [|i r IH]; intros s Hs; cbn; [exact Hs|]. apply IH, step_inv, Hs. }
  intros Hin Hd. destruct (H _ (init_inv n)) as [_ Hf]. rewrite Forall_forall in Hf.
  destruct (Hf l Hin) as (_ & _ & _ & _ & L6 & _). apply L6. apply Nat.eqb_eq. exact Hd.
Qed.
End Conc.

(* ---------- the current program is NOT safe: concrete schedule, two threads ---------- *)
Definition bad_sched := [1; 0; 0; 0; 0; 0; 1; 0; 1; 1; 1; 1; 1].
Example buggy_refuted :
  exists l, In l (snd (run nat 1 (* good *) 0 (* empty *) false bad_sched (init nat 7 (* a0 *) 2)))
            /\ done nat l = true /\ ~ (r1 nat l = 1 /\ r2 nat l = 1).
Proof.
  vm_compute. eexists. split; [left; reflexivity|]. split; [reflexivity|]. intros [_ H]. discriminate.
Qed.
Print Assumptions fixed_safe.
