(* GENERATED (prototype of translator output) from sidemantic/core/preagg_matcher.py *)
From Coq Require Import ZArith List Bool String.
Import ListNotations.
Open Scope string_scope.
Fixpoint assoc_get {A} (l : list (string * A)) (k : string) : option A :=
  match l with [] => None | (k', v) :: r => if String.eqb k k' then Some v else assoc_get r k end.
Definition GRANULARITY_HIERARCHY : list (string * Z) :=
  [("year", 1%Z); ("quarter", 2%Z); ("month", 3%Z); ("week", 4%Z); ("day", 5%Z); ("hour", 6%Z)].
Definition is_granularity_compatible (query_granularity preagg_granularity : string) : bool :=
  let query_level := assoc_get GRANULARITY_HIERARCHY query_granularity in
  let preagg_level := assoc_get GRANULARITY_HIERARCHY preagg_granularity in
  match query_level, preagg_level with
  | Some ql, Some pl =>
      if (String.eqb preagg_granularity "week") && (existsb (String.eqb query_granularity) ["month"; "quarter"; "year"])
      then false else Z.leb ql pl
  | _, _ => String.eqb query_granularity preagg_granularity
  end.
