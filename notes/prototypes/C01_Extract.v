From Coq Require Import ZArith String List Bool.
Require Import Sem.Sem Sem.Single.
From Coq Require Extraction ExtrOcamlBasic ExtrOcamlString.
Extraction Language OCaml.
Extraction "sem.ml" run_model spec.
