import warnings, tempfile, os, shutil, logging
warnings.filterwarnings("ignore")
import duckdb
from typer.testing import CliRunner
from sidemantic.cli import app
from sidemantic import SemanticLayer, Model, Dimension, Metric
from sidemantic.core.pre_aggregation import PreAggregation
d = tempfile.mkdtemp(prefix="c18_")
try:
    db = os.path.join(d, "data.db"); con = duckdb.connect(db)
    con.execute("create table orders(id int, status varchar, amount int, created_at timestamp)")
    con.execute("insert into orders values (1,'a',10,'2024-01-05 10:00'),(2,'a',20,'2024-01-05 11:00'),(3,'b',5,'2024-01-06 12:00')")
    con.close()
    L = SemanticLayer(auto_register=False)
    O = Model(name="orders", table="orders", primary_key="id", dimensions=[Dimension(name="status", type="categorical"), Dimension(name="created_at", type="time", granularity="hour")],
      metrics=[Metric(name="revenue", agg="sum", sql="amount"), Metric(name="cnt", agg="count")],
      pre_aggregations=[PreAggregation(name="daily", measures=["revenue","cnt"], dimensions=["status"], time_dimension="created_at", granularity="day")])
    L.add_model(O)
    md = os.path.join(d, "models"); os.makedirs(md); L.to_yaml(os.path.join(md, "m.yml"))
    print(open(os.path.join(md, "m.yml")).read())
    L2 = SemanticLayer.from_yaml(os.path.join(md, "m.yml")); print("preaggs after roundtrip:", L2.graph.models["orders"].pre_aggregations)
    # write yaml by hand with preagg
    open(os.path.join(md, "m.yml"), "a").write("")
    import yaml
    data = yaml.safe_load(open(os.path.join(md, "m.yml")))
    data["models"][0]["pre_aggregations"] = [dict(name="daily", measures=["revenue","cnt"], dimensions=["status"], time_dimension="created_at", granularity="day")]
    yaml.safe_dump(data, open(os.path.join(md, "m.yml"), "w"))
    r = CliRunner()
    for mode in ["incremental", "incremental", "merge", "full"]:
        res = r.invoke(app, ["preagg", "refresh", md, "--db", db, "--mode", mode])
        con = duckdb.connect(db); rows = con.execute("select * from orders_preagg_daily order by 1,2").fetchall(); con.close()
        print(mode, res.exit_code, rows)
finally:
    shutil.rmtree(d, ignore_errors=True)
