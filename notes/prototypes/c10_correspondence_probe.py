"""Probe: C10 correspondence. Random graphs -> real sidemantic find_relationship_path vs extracted Coq model."""
import random, subprocess, sys, warnings, os, time
warnings.filterwarnings("ignore")
from sidemantic import Model, Relationship
from sidemantic.core.semantic_graph import SemanticGraph

NAMES = ["a", "b", "c", "d", "e", "ab"]
TYPES = ["many_to_one", "one_to_one", "one_to_many", "many_to_many"]
OC_T = {"many_to_one": "M2O", "one_to_one": "O2O", "one_to_many": "O2M", "many_to_many": "M2M"}

def gen_graph(rnd):
    n = rnd.randint(2, 5); names = NAMES[:n]
    models = []
    for m in names:
        pk = rnd.choice([["id"], ["id"], [m + "_k"], ["k1", "k2"]])
        rels = []
        for _ in range(rnd.choice([0, 1, 1, 2, 3])):
            tgt = rnd.choice(names + ["ghost"])          # sometimes a relationship to a model that does not exist
            ty = rnd.choice(TYPES)
            fk = rnd.choice([None, None, [tgt + "_fk"], ["f1", "f2"]])
            if ty == "many_to_many" and fk and len(fk) > 1: fk = [tgt + "_fk"]   # composite fk without through_fk nests a list in the real edge
            rpk = rnd.choice([None, None, None, ["code"], ["k1", "k2"]])
            thr = rnd.choice([None, rnd.choice(names), "ghost"]) if ty == "many_to_many" else None
            tfk = rnd.choice([None, m + "_id"]) if ty == "many_to_many" else None
            rfk = rnd.choice([None, tgt + "_id"]) if ty == "many_to_many" else None
            rels.append(dict(name=tgt, type=ty, fk=fk, pk=rpk, through=thr, tfk=tfk, rfk=rfk))
        models.append(dict(name=m, pk=pk, rels=rels))
    return models

def real(models, pairs):
    g = SemanticGraph()
    for m in models:
        rels = [Relationship(name=r["name"], type=r["type"],
                             foreign_key=(r["fk"][0] if r["fk"] and len(r["fk"]) == 1 else r["fk"]),
                             primary_key=(r["pk"][0] if r["pk"] and len(r["pk"]) == 1 else r["pk"]),
                             through=r["through"], through_foreign_key=r["tfk"], related_foreign_key=r["rfk"]) for r in m["rels"]]
        g.add_model(Model(name=m["name"], table=m["name"], primary_key=(m["pk"][0] if len(m["pk"]) == 1 else m["pk"]), relationships=rels))
    out = []
    for a, b in pairs:
        try:
            p = g.find_relationship_path(a, b)
            out.append("P:" + ";".join(f"{h.from_model}>{h.to_model}[{','.join(h.from_columns)}|{','.join(h.to_columns)}]{OC_T[h.relationship]}" for h in p))
        except ValueError: out.append("NOPATH")
        except KeyError: out.append("KEYERR")
    return out

def ocs(s): return 's "%s"' % s
def ocl(l): return "[" + "; ".join(ocs(x) for x in l) + "]"
def oco(x, f): return "None" if x is None else "Some (%s)" % f(x)
def oc_graph(models):
    ms = []
    for m in models:
        rs = ["{ r_name = %s; r_type = %s; r_fk = %s; r_pk = %s; r_through = %s; r_tfk = %s; r_rfk = %s }" %
              (ocs(r["name"]), OC_T[r["type"]], oco(r["fk"], ocl), oco(r["pk"], ocl), oco(r["through"], ocs), oco(r["tfk"], ocs), oco(r["rfk"], ocs)) for r in m["rels"]]
        ms.append("{ g_name = %s; g_pk = %s; g_rels = [%s] }" % (ocs(m["name"]), ocl(m["pk"]), "; ".join(rs)))
    return "[" + ";\n ".join(ms) + "]"

DRIVER = r'''
open Model
let s (x : string) : char list = List.init (String.length x) (String.get x)
let str (l : char list) : string = String.of_seq (List.to_seq l)
let ty = function M2O -> "M2O" | O2O -> "O2O" | O2M -> "O2M" | M2M -> "M2M"
let show = function
  | KeyErr -> "KEYERR" | NoJoinPath -> "NOPATH"
  | Path p -> "P:" ^ String.concat ";" (List.map (fun ((a, e), b) ->
      Printf.sprintf "%s>%s[%s|%s]%s" (str a) (str b) (String.concat "," (List.map str e.e_from_keys)) (String.concat "," (List.map str e.e_to_keys)) (ty e.e_type)) p)
'''
def main(n_graphs, seed):
    rnd = random.Random(seed); cases = []
    for _ in range(n_graphs):
        models = gen_graph(rnd); names = [m["name"] for m in models] + ["ghost"]
        pairs = [(a, b) for a in names for b in names]
        cases.append((models, pairs))
    t0 = time.time(); expected = [real(m, p) for m, p in cases]; t_real = time.time() - t0
    with open("cases.ml", "w") as f:
        f.write(DRIVER)
        for models, pairs in cases:
            f.write("let () = let g = %s in\n   List.iter (fun (a, b) -> print_endline (show (find_relationship_path g (s a) (s b)))) [%s]\n" %
                    (oc_graph(models), "; ".join('("%s", "%s")' % p for p in pairs)))
    t0 = time.time()
    subprocess.run("ulimit -s unlimited; ocamlfind ocamlopt -w -a model.mli model.ml cases.ml -o run_cases", shell=True, check=True)
    got = subprocess.run("./run_cases", shell=True, capture_output=True, text=True, check=True).stdout.split("\n")
    t_model = time.time() - t0
    flat = [x for e in expected for x in e]; bad = 0; nontrivial = set()
    for i, (e, g) in enumerate(zip(flat, got)):
        if e != g:
            bad += 1
            if bad <= 5: print("MISMATCH", i, "real:", e, "model:", g)
        if e.startswith("P:") and ";" in e: nontrivial.add(e)
    print(f"graphs={n_graphs} queries={len(flat)} mismatches={bad} multi-hop distinct={len(nontrivial)} real={t_real:.1f}s model(build+run)={t_model:.1f}s")
    print("kinds:", {k: sum(1 for x in flat if x.startswith(k)) for k in ("P:", "NOPATH", "KEYERR")})
main(int(sys.argv[1]), int(sys.argv[2]))
