From Coq Require Import ZArith String List Bool Lia.
Import ListNotations.
Open Scope Z_scope.

(* ---------- values ---------- *)
Inductive val := VNull | VInt (z : Z) | VRat (n : Z) (d : positive) | VStr (s : string) | VBool (b : bool).
Definition val_eq_dec : forall a b : val, {a = b} + {a <> b}.
Proof. decide equality; try apply Z.eq_dec; try apply Pos.eq_dec; try apply string_dec; apply bool_dec. Defined.
Definition val_eqb (a b : val) : bool := if val_eq_dec a b then true else false.
Lemma val_eqb_eq a b : val_eqb a b = true <-> a = b.
Proof. unfold val_eqb. destruct (val_eq_dec a b); split; congruence. Qed.

Notation row := (list val).
Definition key_eq_dec : forall a b : list val, {a = b} + {a <> b} := list_eq_dec val_eq_dec.
Definition key_eqb (a b : list val) : bool := if key_eq_dec a b then true else false.

Definition is_null (v : val) : bool := match v with VNull => true | _ => false end.
Definition is_true (v : val) : bool := match v with VBool true => true | _ => false end.

(* ---------- expressions (SQL three-valued logic) ---------- *)
Inductive cmp := CEq | CNe | CLt | CLe | CGt | CGe.
Inductive expr :=
| Col (n : nat) | Lit (v : val)
| Add (a b : expr) | Sub (a b : expr) | Mul (a b : expr)
| Cmp (c : cmp) (a b : expr)
| And (a b : expr) | Or (a b : expr) | Not (a : expr) | IsNull (a : expr)
| CaseWhen (c t : expr).          (* CASE WHEN c THEN t ELSE NULL END *)

Definition arith (f : Z -> Z -> Z) (a b : val) : val :=
  match a, b with VInt x, VInt y => VInt (f x y) | _, _ => VNull end.
Definition cmp_z (c : cmp) (x y : Z) : bool :=
  match c with CEq => x =? y | CNe => negb (x =? y) | CLt => x <? y | CLe => x <=? y | CGt => y <? x | CGe => y <=? x end.
Definition compare_val (c : cmp) (a b : val) : val :=
  match a, b with
  | VInt x, VInt y => VBool (cmp_z c x y)
  | VStr x, VStr y => match c with CEq => VBool (String.eqb x y) | CNe => VBool (negb (String.eqb x y)) | _ => VNull end
  | VBool x, VBool y => match c with CEq => VBool (Bool.eqb x y) | CNe => VBool (negb (Bool.eqb x y)) | _ => VNull end
  | _, _ => VNull
  end.
Definition and3 (a b : val) : val :=
  match a, b with
  | VBool false, _ | _, VBool false => VBool false
  | VBool true, VBool true => VBool true
  | _, _ => VNull end.
Definition or3 (a b : val) : val :=
  match a, b with
  | VBool true, _ | _, VBool true => VBool true
  | VBool false, VBool false => VBool false
  | _, _ => VNull end.
Definition not3 (a : val) : val := match a with VBool b => VBool (negb b) | _ => VNull end.

Fixpoint eval (r : row) (e : expr) : val :=
  match e with
  | Col n => nth n r VNull
  | Lit v => v
  | Add a b => arith Z.add (eval r a) (eval r b)
  | Sub a b => arith Z.sub (eval r a) (eval r b)
  | Mul a b => arith Z.mul (eval r a) (eval r b)
  | Cmp c a b => compare_val c (eval r a) (eval r b)
  | And a b => and3 (eval r a) (eval r b)
  | Or a b => or3 (eval r a) (eval r b)
  | Not a => not3 (eval r a)
  | IsNull a => VBool (is_null (eval r a))
  | CaseWhen c t => if is_true (eval r c) then eval r t else VNull
  end.

Definition holds (r : row) (e : expr) : bool := is_true (eval r e).
Definition all_hold (fs : list expr) (r : row) : bool := forallb (holds r) fs.

(* ---------- aggregates over a column of values (NULLs ignored) ---------- *)
Inductive agg := ASum | ACount | ACountDistinct | AAvg | AMin | AMax | AOther (name : string).

Definition non_null (vs : list val) : list val := filter (fun v => negb (is_null v)) vs.
Definition ints (vs : list val) : list Z := flat_map (fun v => match v with VInt z => [z] | _ => [] end) vs.
Definition zsum (zs : list Z) : Z := fold_right Z.add 0 zs.
Definition nodup_vals (vs : list val) : list val := nodup val_eq_dec vs.
(* uninterpreted aggregates return their input bag *)
Inductive result := RVal (v : val) | RBag (name : string) (vs : list val).

Definition apply_agg (a : agg) (col : list val) : result :=
  let vs := non_null col in
  match a with
  | ASum => RVal (match vs with [] => VNull | _ => VInt (zsum (ints vs)) end)
  | ACount => RVal (VInt (Z.of_nat (length vs)))
  | ACountDistinct => RVal (VInt (Z.of_nat (length (nodup_vals vs))))
  | AAvg => RVal (match vs with [] => VNull | _ => VRat (zsum (ints vs)) (Pos.of_nat (length vs)) end)
  | AMin => RVal (match ints vs with [] => VNull | z :: zs => VInt (fold_right Z.min z zs) end)
  | AMax => RVal (match ints vs with [] => VNull | z :: zs => VInt (fold_right Z.max z zs) end)
  | AOther n => RBag n vs
  end.

(* every aggregate depends only on the non-NULL part of its column *)
Lemma apply_agg_non_null a col1 col2 : non_null col1 = non_null col2 -> apply_agg a col1 = apply_agg a col2.
Proof. intros H. unfold apply_agg. rewrite H. reflexivity. Qed.

(* ---------- grouping ---------- *)
Fixpoint first_occ (ks : list (list val)) : list (list val) :=
  match ks with
  | [] => []
  | k :: r => k :: filter (fun k' => negb (key_eqb k' k)) (first_occ r)
  end.
Definition groups {A} (kf : A -> list val) (l : list A) : list (list val * list A) :=
  map (fun k => (k, filter (fun x => key_eqb (kf x) k) l)) (first_occ (map kf l)).

Lemma groups_map {A B} (f : A -> B) (kf : B -> list val) (l : list A) :
  groups kf (map f l) = map (fun '(k, g) => (k, map f g)) (groups (fun x => kf (f x)) l).
Proof.
  unfold groups. rewrite map_map, map_map. apply map_ext. intros k. f_equal.
  induction l as [|x l IH]; cbn; [reflexivity|]. destruct (key_eqb (kf (f x)) k); cbn; rewrite IH; reflexivity.
Qed.

Lemma groups_ext {A} (kf1 kf2 : A -> list val) (l : list A) : (forall x, kf1 x = kf2 x) -> groups kf1 l = groups kf2 l.
Proof.
  intros H. unfold groups. rewrite (map_ext _ _ H). apply map_ext. intros k. f_equal.
  induction l as [|x l IH]; cbn; [reflexivity|]. rewrite H, IH. reflexivity.
Qed.
