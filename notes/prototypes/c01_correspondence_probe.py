"""Probe: C01 correspondence. Random single-model definitions x tables x queries:
real sidemantic compile() + DuckDB execution  vs  extracted Coq run_model / spec."""
import random, subprocess, sys, warnings, time, math
from fractions import Fraction
warnings.filterwarnings("ignore")
import duckdb
from sidemantic import SemanticLayer, Model, Dimension, Metric

NC = 4                                   # data columns c0..c3 (nullable BIGINT); column 4 = id (primary key)
AGGS = ["sum", "count", "count_distinct", "avg", "min", "max", "median"]
OC_AGG = {"sum": "ASum", "count": "ACount", "count_distinct": "ACountDistinct", "avg": "AAvg", "min": "AMin", "max": "AMax", "median": 'AOther (s "median")'}

# ---- a tiny expression AST rendered both to SQL and to the extracted Coq constructors ----
def col(i): return ("col", i)
def lit(v): return ("lit", v)
def sql(e, q=""):
    k = e[0]
    if k == "col": return f"{q}c{e[1]}"
    if k == "lit": return "NULL" if e[1] is None else str(e[1])
    if k in ("add", "sub", "mul"): return f"({sql(e[1], q)} {dict(add='+', sub='-', mul='*')[k]} {sql(e[2], q)})"
    if k == "cmp": return f"({sql(e[2], q)} {e[1]} {sql(e[3], q)})"
    if k in ("and", "or"): return f"({sql(e[1], q)} {k.upper()} {sql(e[2], q)})"
    if k == "not": return f"(NOT {sql(e[1], q)})"
    if k == "isnull": return f"({sql(e[1], q)} IS NULL)"
def oc(e):
    k = e[0]
    if k == "col": return f"Col (n {e[1]})"
    if k == "lit": return "Lit VNull" if e[1] is None else f"Lit (VInt (z ({e[1]})))"
    if k in ("add", "sub", "mul"): return f"{k.capitalize()} ({oc(e[1])}, {oc(e[2])})"
    if k == "cmp": return f"Cmp ({ {'=':'CEq','<>':'CNe','<':'CLt','<=':'CLe','>':'CGt','>=':'CGe'}[e[1]] }, {oc(e[2])}, {oc(e[3])})"
    if k in ("and", "or"): return f"{k.capitalize()} ({oc(e[1])}, {oc(e[2])})"
    if k == "not": return f"Not ({oc(e[1])})"
    if k == "isnull": return f"IsNull ({oc(e[1])})"

def gen_num(rnd, d=0):
    r = rnd.random()
    if d >= 2 or r < 0.55: return col(rnd.randrange(NC))
    if r < 0.65: return lit(rnd.choice([0, 1, -2, 3]))
    return (rnd.choice(["add", "sub", "mul"]), gen_num(rnd, d + 1), gen_num(rnd, d + 1))
def gen_pred(rnd, d=0):
    r = rnd.random()
    if d >= 2 or r < 0.6: return ("cmp", rnd.choice(["=", "<>", "<", "<=", ">", ">="]), col(rnd.randrange(NC)), lit(rnd.choice([0, 1, 2, 3])))
    if r < 0.7: return ("isnull", col(rnd.randrange(NC)))
    if r < 0.8: return ("not", gen_pred(rnd, d + 1))
    return (rnd.choice(["and", "or"]), gen_pred(rnd, d + 1), gen_pred(rnd, d + 1))

def gen_case(rnd):
    nrows = rnd.choice([0, 1, 2, 5, 8, 12])
    rows = [[rnd.choice([None, 0, 1, 1, 2, 3, -1]) for _ in range(NC)] + [i + 1] for i in range(nrows)]
    dims = [gen_num(rnd) for _ in range(rnd.choice([0, 1, 1, 2]))]
    mets = []
    for _ in range(rnd.choice([1, 2, 3])):
        agg = rnd.choice(AGGS)
        expr = None if (agg in ("count", "count_distinct") and rnd.random() < 0.4) else gen_num(rnd)
        filt = [gen_pred(rnd) for _ in range(rnd.choice([0, 0, 1, 2]))]
        mets.append((agg, expr, filt))
    filters = [gen_pred(rnd) for _ in range(rnd.choice([0, 0, 1, 2]))]
    return rows, dims, mets, filters

def real(case):
    rows, dims, mets, filters = case
    L = SemanticLayer(auto_register=False); con = L.adapter.raw_connection
    con.execute("create table t(c0 bigint, c1 bigint, c2 bigint, c3 bigint, id bigint)")
    if rows: con.executemany("insert into t values (?,?,?,?,?)", rows)
    m = Model(name="t", table="t", primary_key="id",
              dimensions=[Dimension(name=f"d{i}", type="numeric", sql=sql(e)) for i, e in enumerate(dims)],
              metrics=[Metric(name=f"m{j}", agg=a, sql=(sql(e) if e else None), filters=[sql(f, "{model}.") for f in fl] or None) for j, (a, e, fl) in enumerate(mets)])
    L.add_model(m)
    # query filters reference base columns of the model through the model-qualified form
    q = L.compile(metrics=[f"t.m{j}" for j in range(len(mets))], dimensions=[f"t.d{i}" for i in range(len(dims))], filters=[sql(f, "t.") for f in filters])
    return con.execute(q).fetchall()

DRIVER = r'''
open Sem
let s (x : string) : char list = List.init (String.length x) (String.get x)
let rec n i = if i = 0 then O else S (n (i - 1))
let rec p_of_int i = if i = 1 then XH else if i land 1 = 0 then XO (p_of_int (i lsr 1)) else XI (p_of_int (i lsr 1))
let z i = if i = 0 then Z0 else if i > 0 then Zpos (p_of_int i) else Zneg (p_of_int (-i))
let rec int_of_p = function XH -> 1 | XO p -> 2 * int_of_p p | XI p -> 2 * int_of_p p + 1
let int_of_z = function Z0 -> 0 | Zpos p -> int_of_p p | Zneg p -> - (int_of_p p)
let sv = function VNull -> "N" | VInt x -> string_of_int (int_of_z x) | VRat (a, d) -> Printf.sprintf "%d/%d" (int_of_z a) (int_of_p d)
                | VStr _ -> "S" | VBool b -> if b then "T" else "F"
let sr = function RVal v -> sv v | RBag (_, vs) -> "{" ^ String.concat " " (List.map sv vs) ^ "}"
let show rows = String.concat ";" (List.map (fun (k, rs) -> String.concat "," (List.map sv k) ^ "|" ^ String.concat "," (List.map sr rs)) rows)
let v = function None -> VNull | Some i -> VInt (z i)
'''
def oc_case(case):
    rows, dims, mets, filters = case
    r = "[" + "; ".join("[" + "; ".join("v None" if x is None else f"v (Some ({x}))" for x in row) + "]" for row in rows) + "]"
    ms = "[" + "; ".join("{ ms_agg = %s; ms_expr = %s; ms_filters = [%s] }" % (OC_AGG[a], "None" if e is None else f"Some ({oc(e)})", "; ".join(oc(f) for f in fl)) for a, e, fl in mets) + "]"
    q = "{ sq_dims = [%s]; sq_metrics = %s; sq_filters = [%s] }" % ("; ".join(oc(e) for e in dims), ms, "; ".join(oc(f) for f in filters))
    return f"let () = let rows = {r} in let q = {q} in print_endline (show (run_model (n 4) q rows)); print_endline (show (spec (n 4) q rows))\n"

def parse_model(line):
    out = []
    if not line: return out
    for g in line.split(";"):
        k, r = g.split("|")
        out.append(([None if x == "N" else int(x) for x in k.split(",")] if k else [], r.split(",") if r else []))
    return out
def close(real_v, model_s, agg, con):
    if model_s.startswith("{"):                      # uninterpreted aggregate: apply DuckDB's own aggregate to the model's bag
        bag = [int(x) for x in model_s[1:-1].split(" ") if x and x != "N"]
        exp = con.execute(f"select {agg}(x) from (select unnest(?::bigint[]) x)", [bag]).fetchone()[0]
        return (exp is None and real_v is None) or (exp is not None and real_v is not None and math.isclose(float(exp), float(real_v), rel_tol=1e-9))
    if model_s == "N": return real_v is None
    if real_v is None: return False
    if "/" in model_s:
        a, b = model_s.split("/"); return math.isclose(float(Fraction(int(a), int(b))), float(real_v), rel_tol=1e-9, abs_tol=1e-12)
    return int(model_s) == real_v

def main(ncases, seed):
    rnd = random.Random(seed); cases = [gen_case(rnd) for _ in range(ncases)]
    t0 = time.time(); reals = []
    for c in cases:
        try: reals.append(real(c))
        except Exception as e: reals.append(("ERR", type(e).__name__, str(e)[:80]))
    t_real = time.time() - t0
    with open("cases.ml", "w") as f:
        f.write(DRIVER); [f.write(oc_case(c)) for c in cases]
    t0 = time.time()
    subprocess.run("ulimit -s unlimited; ocamlfind ocamlopt -w -a sem.mli sem.ml cases.ml -o run_cases", shell=True, check=True)
    lines = subprocess.run("./run_cases", shell=True, capture_output=True, text=True, check=True).stdout.split("\n")
    t_model = time.time() - t0
    con = duckdb.connect(); bad = 0; errs = 0; model_ne_spec = 0; nontrivial = 0
    for i, c in enumerate(cases):
        mrows, srows = parse_model(lines[2 * i]), parse_model(lines[2 * i + 1])
        if lines[2 * i] != lines[2 * i + 1]: model_ne_spec += 1
        r = reals[i]
        if isinstance(r, tuple): errs += 1; print("REAL ERR", r, c[1:]) if errs <= 3 else None; continue
        nd = len(c[1]); ok = len(r) == len(mrows)
        if ok:
            rr = sorted(r, key=lambda t: [(-1 << 62) if x is None else x for x in t[:nd]])
            mm = sorted(mrows, key=lambda t: [(-1 << 62) if x is None else x for x in t[0]])
            for a, (k, vals) in zip(rr, mm):
                if list(a[:nd]) != k or not all(close(a[nd + j], vals[j], c[2][j][0], con) for j in range(len(vals))): ok = False
        if len(r) > 1: nontrivial += 1
        if not ok:
            bad += 1
            if bad <= 4: print("MISMATCH case", i, "\n real :", r, "\n model:", lines[2 * i], "\n dims:", [sql(e) for e in c[1]], "mets:", [(a, sql(e) if e else None, [sql(f) for f in fl]) for a, e, fl in c[2]], "filters:", [sql(f) for f in c[3]], "rows:", c[0])
    print(f"cases={ncases} mismatches={bad} real_errors={errs} model!=spec={model_ne_spec} multi-group={nontrivial} real={t_real:.1f}s model(build+run)={t_model:.1f}s")
main(int(sys.argv[1]), int(sys.argv[2]))
