From Coq Require Import String List Bool Lia.
Import ListNotations.

(* token strings: a maximal run of word characters, or any other single character;
   this is exactly the granularity at which the code's \bname\b regexes match *)
Inductive tok := W (s : string) | O (c : Ascii.ascii).
Definition tok_eq_dec : forall a b : tok, {a = b} + {a <> b}.
Proof. decide equality; [apply string_dec | apply Ascii.ascii_dec]. Defined.

(* replace every occurrence of the word d by the token list r *)
Definition subst1 (d : string) (r : list tok) (f : list tok) : list tok :=
  flat_map (fun t => match t with W s => if String.eqb s d then r else [t] | _ => [t] end) f.

(* the code: for each dependency in order, formula = re.sub(\bdep\b, "(" + sql + ")", formula) *)
Fixpoint subst_seq (deps : list (string * list tok)) (f : list tok) : list tok :=
  match deps with [] => f | (d, r) :: rest => subst_seq rest (subst1 d r f) end.

(* simultaneous substitution: each original word looked up once *)
Fixpoint lookup (deps : list (string * list tok)) (s : string) : option (list tok) :=
  match deps with [] => None | (d, r) :: rest => if String.eqb s d then Some r else lookup rest s end.
Definition subst_sim (deps : list (string * list tok)) (f : list tok) : list tok :=
  flat_map (fun t => match t with W s => match lookup deps s with Some r => r | None => [t] end | _ => [t] end) f.

Definition mentions (r : list tok) (d : string) : bool := existsb (fun t => match t with W s => String.eqb s d | _ => false end) r.
(* freshness: no replacement text mentions a dependency name that is substituted later *)
Fixpoint fresh (deps : list (string * list tok)) : bool :=
  match deps with
  | [] => true
  | (d, r) :: rest => forallb (fun '(d', _) => negb (mentions r d')) rest && fresh rest
  end.

Lemma subst_sim_app deps f g : subst_sim deps (f ++ g) = subst_sim deps f ++ subst_sim deps g.
Proof. unfold subst_sim. apply flat_map_app. Qed.

Lemma subst_sim_untouched deps r :
  forallb (fun '(d', _) => negb (mentions r d')) deps = true -> subst_sim deps r = r.
Proof.
  intros H. unfold subst_sim. induction r as [|t r IH]; [reflexivity|].
  cbn [flat_map].
  assert (Hr : forallb (fun '(d', _) => negb (mentions r d')) deps = true).
  { rewrite forallb_forall in *. intros [d' x] Hin. specialize (H _ Hin). cbn in H.
    rewrite negb_true_iff in *. unfold mentions in *. cbn in H. apply orb_false_iff in H. tauto. }
  rewrite (IH Hr). destruct t as [s|c]; [|reflexivity].
  assert (lookup deps s = None) as ->; [|reflexivity].
  clear IH Hr. induction deps as [|[d x] rest IHd]; [reflexivity|]. cbn in *.
  apply andb_true_iff in H. destruct H as [H1 H2]. rewrite negb_true_iff in H1. apply orb_false_iff in H1. destruct H1 as [H1 _].
  rewrite String.eqb_sym in H1. rewrite String.eqb_sym. rewrite H1. rewrite String.eqb_sym in H1. apply IHd. exact H2.
Qed.

(* sequential = simultaneous, provided the dependency names are distinct and the replacements are fresh *)
Theorem subst_seq_eq_sim deps : fresh deps = true -> NoDup (map fst deps) ->
  forall f, subst_seq deps f = subst_sim deps f.
Proof.
  induction deps as [|[d r] rest IH]; intros Hf Hnd f.
  - cbn [subst_seq]. unfold subst_sim. rewrite (flat_map_ext _ (fun t => [t])); [|intros [s|c]; reflexivity].
    induction f as [|t f IHf]; [reflexivity|]. cbn. rewrite <- IHf. reflexivity.
  - cbn [subst_seq fresh] in *. apply andb_true_iff in Hf. destruct Hf as [Hfr Hrest].
    inversion Hnd as [|? ? Hnotin Hnd']; subst.
    rewrite (IH Hrest Hnd'). clear IH.
    induction f as [|t f IHf]; [reflexivity|].
    change (t :: f) with ([t] ++ f). unfold subst1 in *. rewrite flat_map_app, !subst_sim_app, IHf. f_equal.
    destruct t as [s|c]; cbn [flat_map app]; [|reflexivity].
    destruct (String.eqb_spec s d) as [->|Hne].
    + rewrite app_nil_r. rewrite (subst_sim_untouched rest r Hfr). unfold subst_sim. cbn. rewrite String.eqb_refl, app_nil_r. reflexivity.
    + unfold subst_sim. cbn. destruct (String.eqb_spec s d); [contradiction|]. reflexivity.
Qed.
Print Assumptions subst_seq_eq_sim.
