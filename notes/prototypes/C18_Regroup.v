From Coq Require Import ZArith List Bool Lia.
Require Import Refresh.
Import ListNotations.
Open Scope Z_scope.

Section Regroup.
Variable tr : Z -> Z.
Notation bkey := (bkey tr). Notation bsum := (bsum tr). Notation materialize := (materialize tr).

Lemma key_eqb_refl k : key_eqb k k = true.
Proof. destruct (key_eqb_spec k k); congruence. Qed.

(* summing a per-key quantity over a duplicate-free key list that covers the table = summing over the rows *)
Lemma sum_over_keys (p : Z -> bool) (ks : list (Z * Z)) (b : list brow) :
  NoDup ks -> (forall y, In y b -> In (bkey y) ks) ->
  zsum (map (fun k => if p (fst k) then bsum b k else 0) ks)
  = zsum (map (fun y => if p (tr (b_ts y)) then b_v y else 0) b).
Proof.
  intros Hnd. induction b as [|y b IH]; intros Hcov.
  - cbn [map]. unfold Refresh.bsum, at_b. cbn. clear Hnd Hcov. induction ks as [|k ks IHk]; [reflexivity|].
    cbn [map]. unfold zsum in *. cbn [fold_right]. rewrite IHk. destruct (p (fst k)); reflexivity.
  - assert (Hin : In (bkey y) ks) by (apply Hcov; left; reflexivity).
    specialize (IH (fun z Hz => Hcov z (or_intror Hz))).
    cbn [map]. unfold zsum at 2. cbn [fold_right]. fold (zsum (map (fun y0 => if p (tr (b_ts y0)) then b_v y0 else 0) b)). rewrite <- IH. clear IH Hcov.
    (* adding row y changes bsum only at its own key, which occurs exactly once in ks *)
    induction ks as [|k ks IHk]; [destruct Hin|]. inversion Hnd as [|? ? Hk Hnd']; subst.
    cbn [map]. unfold zsum. cbn [fold_right]. fold (zsum (map (fun k0 => if p (fst k0) then bsum (y :: b) k0 else 0) ks)).
    fold (zsum (map (fun k0 => if p (fst k0) then bsum b k0 else 0) ks)).
    unfold Refresh.bsum at 1 3, at_b. cbn [filter].
    destruct (key_eqb_spec (bkey y) k) as [E|NE].
    + (* this is y's key; the remaining keys are different from it *)
      assert (zsum (map (fun k0 => if p (fst k0) then bsum (y :: b) k0 else 0) ks) = zsum (map (fun k0 => if p (fst k0) then bsum b k0 else 0) ks)) as ->.
      { f_equal. apply map_ext_in. intros k0 Hk0. unfold Refresh.bsum, at_b. cbn [filter].
        destruct (key_eqb_spec (bkey y) k0) as [E0|_]; [exfalso; apply Hk; congruence|reflexivity]. }
      cbn [map]. unfold zsum at 1. cbn [fold_right]. fold (zsum (map b_v (filter (fun x => key_eqb (bkey x) k) b))).
      subst k. cbn [Refresh.bkey fst]. destruct (p (tr (b_ts y))); lia.
    + destruct Hin as [Hin|Hin]; [congruence|]. rewrite (IHk Hnd' Hin). destruct (p (fst k)); lia.
Qed.

(* sum_regroup: re-aggregating the rollup rows selected by a predicate on the bucket = aggregating the selected base rows *)
Theorem sum_regroup (p : Z -> bool) (b : list brow) :
  zsum (map r_sum (filter (fun x => p (r_bucket x)) (materialize b)))
  = zsum (map b_v (filter (fun y => p (tr (b_ts y))) b)).
Proof.
  transitivity (zsum (map (fun k => if p (fst k) then bsum b k else 0) (first_occ (map bkey b)))).
  - unfold Refresh.materialize. generalize (first_occ (map bkey b)) as ks. intros ks.
    induction ks as [|k ks IH]; [reflexivity|]. cbn [map filter r_bucket].
    destruct (p (fst k)); cbn [map]; unfold zsum in *; cbn [fold_right r_sum]; rewrite IH; reflexivity.
  - rewrite sum_over_keys.
    + induction b as [|y b IH]; [reflexivity|]. cbn [map filter]. destruct (p (tr (b_ts y))); cbn [map]; unfold zsum in *; cbn [fold_right]; rewrite IH; reflexivity.
    + apply first_occ_NoDup.
    + intros y Hy. apply (proj2 (first_occ_In tr _ _)). apply in_map_iff. exists y. split; [reflexivity|exact Hy].
Qed.
End Regroup.
Print Assumptions sum_regroup.
