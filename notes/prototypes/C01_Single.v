From Coq Require Import ZArith String List Bool Lia.
Require Import Sem.Sem.
Import ListNotations.
Open Scope nat_scope.

(* ---------- single-model definitions ---------- *)
Record measure := { ms_agg : agg; ms_expr : option expr; ms_filters : list expr }.
Record smodel := { sm_pk : nat; sm_dims : list expr; sm_measures : list measure }.
Record squery := { sq_dims : list expr; sq_metrics : list measure; sq_filters : list expr }.
(* (sq_dims / sq_metrics are the already-resolved dimension expressions and measures, in request order) *)

(* ---------- model of the generated SQL: CTE of dims ++ raw columns, outer GROUP BY positions ---------- *)
Definition raw_base (pk : nat) (m : measure) (r : row) : val :=
  match ms_expr m with
  | Some e => eval r e
  | None => match ms_agg m with ACount => VInt 1%Z | _ => nth pk r VNull end   (* COUNT -> 1 ; COUNT DISTINCT -> primary key *)
  end.
Definition raw_col (pk : nat) (m : measure) (r : row) : val :=
  match ms_filters m with
  | [] => raw_base pk m r
  | fs => if all_hold fs r then raw_base pk m r else VNull      (* CASE WHEN f1 AND f2 ... THEN x ELSE NULL END *)
  end.
Definition cte (pk : nat) (q : squery) (rows : list row) : list row :=
  map (fun r => map (eval r) (sq_dims q) ++ map (fun m => raw_col pk m r) (sq_metrics q))
      (filter (all_hold (sq_filters q)) rows).
Definition outer (nd : nat) (aggs : list agg) (c : list row) : list (list val * list result) :=
  map (fun '(k, g) => (k, map (fun '(j, a) => apply_agg a (map (fun r => nth (nd + j) r VNull) g))
                              (combine (seq 0 (length aggs)) aggs)))
      (if Nat.eqb nd 0 then [([], c)] else groups (firstn nd) c).   (* no GROUP BY: one global group, even over zero rows *)
Definition run_model (pk : nat) (q : squery) (rows : list row) :=
  outer (length (sq_dims q)) (map ms_agg (sq_metrics q)) (cte pk q rows).

(* ---------- reference semantics (what the property says) ---------- *)
Definition spec_metric (pk : nat) (m : measure) (g : list row) : result :=
  let g' := filter (all_hold (ms_filters m)) g in
  apply_agg (ms_agg m) (map (raw_base pk m) g').
Definition spec (pk : nat) (q : squery) (rows : list row) : list (list val * list result) :=
  map (fun '(k, g) => (k, map (fun m => spec_metric pk m g) (sq_metrics q)))
      (let rows' := filter (all_hold (sq_filters q)) rows in
       if Nat.eqb (length (sq_dims q)) 0 then [([], rows')] else groups (fun r => map (eval r) (sq_dims q)) rows').

(* ---------- lemmas ---------- *)
Lemma firstn_app_exact {A} (l1 l2 : list A) : firstn (length l1) (l1 ++ l2) = l1.
Proof. induction l1; cbn; [destruct l2; reflexivity | f_equal; assumption]. Qed.

Lemma nth_app_right {A} (l1 l2 : list A) j d : nth (length l1 + j) (l1 ++ l2) d = nth j l2 d.
Proof. rewrite app_nth2 by lia. f_equal. lia. Qed.

Lemma all_hold_nil r : all_hold [] r = true. Proof. reflexivity. Qed.

(* CASE WHEN p THEN x ELSE NULL aggregated = aggregated over the rows satisfying p *)
Lemma agg_case_filter a (p : row -> bool) (e : row -> val) (g : list row) :
  apply_agg a (map (fun r => if p r then e r else VNull) g) = apply_agg a (map e (filter p g)).
Proof.
  apply apply_agg_non_null. unfold non_null.
  induction g as [|r g IH]; cbn; [reflexivity|].
  destruct (p r); cbn; [destruct (is_null (e r)); cbn; rewrite IH; reflexivity | exact IH].
Qed.

Lemma raw_col_spec pk m g :
  apply_agg (ms_agg m) (map (raw_col pk m) g) = spec_metric pk m g.
Proof.
  unfold spec_metric, raw_col. destruct (ms_filters m) as [|f fs] eqn:E.
  - f_equal. f_equal. symmetry. clear. induction g; cbn; [reflexivity|]. f_equal; assumption.
  - apply agg_case_filter.
Qed.

(* ---------- the theorem: generated plan = reference semantics, for every model, query and table ---------- *)
Lemma per_group pk q (g : list row) :
  map (fun '(j, a) => apply_agg a (map (fun r => nth (length (sq_dims q) + j) r VNull)
           (map (fun r => map (eval r) (sq_dims q) ++ map (fun m => raw_col pk m r) (sq_metrics q)) g)))
      (combine (seq 0 (length (map ms_agg (sq_metrics q)))) (map ms_agg (sq_metrics q)))
  = map (fun m => spec_metric pk m g) (sq_metrics q).
Proof.
  set (nd := length (sq_dims q)).
  transitivity (map (fun m => apply_agg (ms_agg m) (map (raw_col pk m) g)) (sq_metrics q)).
  2: { apply map_ext. intros m. apply raw_col_spec. }
  generalize (sq_metrics q) as ms. intros ms.
  assert (forall (pre ms : list measure),
    map (fun '(j, a) => apply_agg a (map (fun r => nth (nd + j) r VNull)
             (map (fun r => map (eval r) (sq_dims q) ++ map (fun m => raw_col pk m r) (pre ++ ms)) g)))
        (combine (seq (length pre) (length (map ms_agg ms))) (map ms_agg ms))
    = map (fun m => apply_agg (ms_agg m) (map (raw_col pk m) g)) ms) as G.
  { intros pre ms0. revert pre. induction ms0 as [|m ms0 IH]; intros pre; cbn [map length seq combine]; [reflexivity|].
    f_equal.
    - f_equal. rewrite map_map. apply map_ext. intros r.
      replace (nd + length pre) with (length (map (eval r) (sq_dims q)) + length pre) by (unfold nd; rewrite map_length; reflexivity).
      rewrite nth_app_right, map_app.
      replace (length pre) with (length (map (fun m0 => raw_col pk m0 r) pre) + 0) by (rewrite map_length; lia).
      rewrite nth_app_right. reflexivity.
    - specialize (IH (pre ++ [m])). rewrite app_length in IH. cbn in IH. rewrite Nat.add_1_r in IH.
      rewrite <- app_assoc in IH. cbn in IH. exact IH. }
  apply (G [] ms).
Qed.

Theorem C01_core pk q rows : run_model pk q rows = spec pk q rows.
Proof.
  unfold run_model, outer, spec, cte.
  set (rows' := filter (all_hold (sq_filters q)) rows).
  set (nd := length (sq_dims q)).
  destruct (Nat.eqb nd 0) eqn:E0.
  - cbn [map]. f_equal. f_equal. apply per_group.
  - rewrite groups_map, map_map.
    assert (Hk : forall r, firstn nd (map (eval r) (sq_dims q) ++ map (fun m => raw_col pk m r) (sq_metrics q)) = map (eval r) (sq_dims q)).
    { intros r. unfold nd. rewrite <- (map_length (eval r) (sq_dims q)). apply firstn_app_exact. }
    rewrite (groups_ext _ _ _ Hk).
    apply map_ext. intros [k g]. f_equal. apply per_group.
Qed.
Print Assumptions C01_core.
