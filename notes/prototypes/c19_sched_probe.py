"""Probe: deterministic line-level scheduler for threads running code in semantic_graph.py"""
import sys, threading, warnings
warnings.filterwarnings("ignore")
from sidemantic import SemanticLayer, Model, Dimension, Metric, Relationship
import sidemantic.core.semantic_graph as sg
TARGET = sg.__file__

class Sched:
    def __init__(self, plan):
        # plan: list of (thread_name, n_lines) slices: run thread for n traced lines then switch
        self.plan = list(plan); self.cv = threading.Condition(); self.cur = None; self.left = 0
        self.done = set(); self.trace = []
        self._next()
    def _next(self):
        while self.plan:
            t, n = self.plan.pop(0)
            if t in self.done: continue
            self.cur, self.left = t, n; return
        self.cur, self.left = None, 0   # free run
    def tracer(self, name):
        def local(frame, event, arg):
            if event == "line" and frame.f_code.co_filename == TARGET:
                with self.cv:
                    while self.cur is not None and self.cur != name:
                        self.cv.wait(timeout=5)
                        if self.cur is not None and self.cur != name and self.cur in self.done:
                            self._next(); self.cv.notify_all()
                    self.trace.append((name, frame.f_lineno))
                    if self.cur == name:
                        self.left -= 1
                        if self.left <= 0:
                            self._next(); self.cv.notify_all()
            return local
        def glob(frame, event, arg):
            if frame.f_code.co_filename == TARGET: return local
            return None
        return glob
    def finish(self, name):
        with self.cv:
            self.done.add(name)
            if self.cur == name: self._next()
            self.cv.notify_all()

def mk():
    L = SemanticLayer(auto_register=False)
    A = Model(name="a", table="a", primary_key="id", relationships=[Relationship(name="b", type="many_to_one", foreign_key="b_id")])
    B = Model(name="b", table="b", primary_key="id", relationships=[Relationship(name="c", type="many_to_one", foreign_key="c_id")])
    C = Model(name="c", table="c", primary_key="id")
    for m in (A,B,C): L.add_model(m)
    return L

def run(plan):
    L = mk(); S = Sched(plan); res = {}
    def worker(name):
        sys.settrace(S.tracer(name))
        try:
            p = L.graph.find_relationship_path("a", "c"); res[name] = [(h.from_model, h.to_model) for h in p]
        except Exception as e:
            res[name] = f"{type(e).__name__}: {e}"
        finally:
            sys.settrace(None); S.finish(name)
    ts = [threading.Thread(target=worker, args=(n,)) for n in ("T1","T2")]
    for t in ts: t.start()
    for t in ts: t.join(30)
    return res, S.trace

# serial
print(run([("T1", 10**6), ("T2", 10**6)])[0])
# T2 enters 'if dirty' (2 lines: 280, 283 then 284), then T1 runs fully past build and into BFS, then T2 clears
import itertools
bad = None
for a in range(1, 8):
    for b in range(5, 80):
        r, tr = run([("T2", a), ("T1", b), ("T2", 10**6), ("T1", 10**6)])
        if any(isinstance(v, str) for v in r.values()):
            bad = (a, b, r); break
    if bad: break
print("bad schedule:", bad)
