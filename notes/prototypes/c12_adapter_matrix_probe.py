import warnings, tempfile, os, shutil, importlib, traceback, logging
warnings.filterwarnings("ignore"); logging.disable(logging.WARNING)
from pathlib import Path
from sidemantic import SemanticLayer, Model, Dimension, Metric, Relationship, Segment
from sidemantic.core.semantic_graph import SemanticGraph
from sidemantic.loaders import load_from_directory
ADAPTERS = {"cube":("CubeAdapter",".yml"),"metricflow":("MetricFlowAdapter",".yml"),"lookml":("LookMLAdapter",".lkml"),"hex":("HexAdapter",".yml"),"rill":("RillAdapter",".yaml"),
 "superset":("SupersetAdapter",".yml"),"omni":("OmniAdapter",".yaml"),"bsl":("BSLAdapter",".yml"),"gooddata":("GoodDataAdapter",".json"),"snowflake":("SnowflakeAdapter",".yaml"),
 "malloy":("MalloyAdapter",".malloy"),"osi":("OSIAdapter",".yaml"),"atscale_sml":("AtScaleSMLAdapter",""),"thoughtspot":("ThoughtSpotAdapter",".tml"),"holistics":("HolisticsAdapter",".aml"),"sidemantic":("SidemanticAdapter",".yml")}
def graph(agg):
    g = SemanticGraph()
    g.add_model(Model(name="customers", table="customers", primary_key="id", dimensions=[Dimension(name="region", type="categorical")], metrics=[Metric(name="n", agg="count")]))
    g.add_model(Model(name="orders", table="orders", primary_key="id",
       dimensions=[Dimension(name="status", type="categorical"), Dimension(name="created_at", type="time", granularity="day")],
       metrics=[Metric(name="m", agg=agg, sql="amount"), Metric(name="mf", agg="sum", sql="amount", filters=["{model}.status = 'a'"])],
       relationships=[Relationship(name="customers", type="many_to_one", foreign_key="customer_id")]))
    return g
AGGS = ["sum","count","count_distinct","avg","min","max","median","stddev","variance"]
for key,(cls,suf) in ADAPTERS.items():
    mod = importlib.import_module(f"sidemantic.adapters.{key}"); A = getattr(mod, cls)
    row = []
    det = None
    for agg in AGGS:
        d = tempfile.mkdtemp(prefix="c12_")
        try:
            out = os.path.join(d, "out"+suf) if suf else os.path.join(d,"out")
            A().export(graph(agg), out)
            g2 = A().parse(out)
            m2 = g2.models.get("orders")
            mm = m2.get_metric("m") if m2 else None
            row.append(f"{agg}->{mm.agg if mm else 'DROPPED'}" + ("" if (mm is None or mm.agg==agg) else "!!"))
            if agg == "sum":
                mf = m2.get_metric("mf") if m2 else None
                row.append(f"[filt:{(mf.filters if mf else 'DROPPED')}]")
                L = SemanticLayer(auto_register=False)
                try:
                    load_from_directory(L, d); det = {n: getattr(m, "_source_format", None) for n, m in L.graph.models.items()}
                except Exception as e: det = f"ERR {e}"
        except Exception as e:
            row.append(f"{agg}->EXC({type(e).__name__}:{str(e)[:40]})")
        finally:
            shutil.rmtree(d, ignore_errors=True)
    print(key, "|", " ".join(row), "| detect:", det)
